//! C20 — tera-contrib codecs are lossless and emit only their target alphabet.
//!
//! Every filter is registered on a real `Tera` instance and called THROUGH TEMPLATES.
//! Families:
//!   strings      every string of length <= 3 (quick) / <= 4 (thorough) over a 47-character alphabet
//!                through b64_encode x {url_safe} x {padded} (+ defaults, + options passed as context
//!                variables), b64_encode | b64_decode, urlencode, urlencode_strict, slug
//!   long         every length 0..=64 x 47 rotations of the alphabet, and 4 KiB strings (same programs)
//!   b64-decode   every string of length <= 5 (quick) / <= 6 (thorough) over `A Q a g 0 + / - _ = space é` through b64_decode
//!                (default, url_safe=false, url_safe=true) against an independent RFC 4648 decoder
//!   json         the common value alphabet, nested one level (alone, [v], {"k": v}, [v, w],
//!                {"a": v, "b": w}) x {default, pretty=true, pretty=false} against an own strict
//!                RFC 8259 parser, compared structurally with exact integers
//!   misuse       non-string receivers and non-bool options: an error, never a panic
//!
//! Oracles are independent of the crates under test: own base64 tables, own percent codec, own
//! JSON parser, own character-class tables.

use mccore::engine::{self, Out};
use mccore::vals::{self, K, V};
use mccore::{Acc, Family, Run, json};
use tera::{Context, Tera};

// ------------------------------------------------------------------------------------------
// reference codecs
// ------------------------------------------------------------------------------------------

const B64_STD: &[u8; 64] = b"ABCDEFGHIJKLMNOPQRSTUVWXYZabcdefghijklmnopqrstuvwxyz0123456789+/";
const B64_URL: &[u8; 64] = b"ABCDEFGHIJKLMNOPQRSTUVWXYZabcdefghijklmnopqrstuvwxyz0123456789-_";

/// RFC 4648 §4 / §5 encoder.
fn ref_b64_encode(data: &[u8], url_safe: bool, padded: bool) -> String {
    let table = if url_safe { B64_URL } else { B64_STD };
    let mut out = String::new();
    for chunk in data.chunks(3) {
        let b0 = chunk[0] as u32;
        let b1 = *chunk.get(1).unwrap_or(&0) as u32;
        let b2 = *chunk.get(2).unwrap_or(&0) as u32;
        let n = (b0 << 16) | (b1 << 8) | b2;
        out.push(table[(n >> 18) as usize & 63] as char);
        out.push(table[(n >> 12) as usize & 63] as char);
        if chunk.len() > 1 {
            out.push(table[(n >> 6) as usize & 63] as char);
        } else if padded {
            out.push('=');
        }
        if chunk.len() > 2 {
            out.push(table[n as usize & 63] as char);
        } else if padded {
            out.push('=');
        }
    }
    out
}

fn b64_value(c: char, url_safe: bool) -> Option<u32> {
    match c {
        'A'..='Z' => Some(c as u32 - 'A' as u32),
        'a'..='z' => Some(c as u32 - 'a' as u32 + 26),
        '0'..='9' => Some(c as u32 - '0' as u32 + 52),
        '+' if !url_safe => Some(62),
        '/' if !url_safe => Some(63),
        '-' if url_safe => Some(62),
        '_' if url_safe => Some(63),
        _ => None,
    }
}

#[derive(Debug, PartialEq)]
enum Dec {
    /// canonical base64 (with full padding or with none) of this UTF-8 text: must decode to it
    Valid(String),
    /// not base64 at all (foreign character, data after padding, impossible length) or the bytes
    /// are not UTF-8 (a String cannot carry them): must be an error
    Invalid(&'static str),
    /// RFC 4648 lets a decoder choose (partial / excess padding): an error,
    /// or exactly this text
    Gray(&'static str, Option<String>),
}

fn ref_b64_decode(input: &str, url_safe: bool) -> Dec {
    let chars: Vec<char> = input.chars().collect();
    if chars.iter().any(|&c| c != '=' && b64_value(c, url_safe).is_none()) {
        return Dec::Invalid("character outside the alphabet");
    }
    let n = chars.iter().position(|&c| c == '=').unwrap_or(chars.len());
    let npad = chars.len() - n;
    if chars[n..].iter().any(|&c| c != '=') {
        return Dec::Invalid("data after padding");
    }
    if n % 4 == 1 {
        return Dec::Invalid("impossible length (4k+1 symbols)");
    }
    let mut bytes = vec![];
    let mut trailing_nonzero = false;
    for group in chars[..n].chunks(4) {
        let vals: Vec<u32> = group.iter().map(|&c| b64_value(c, url_safe).unwrap()).collect();
        match vals.len() {
            4 => {
                let x = (vals[0] << 18) | (vals[1] << 12) | (vals[2] << 6) | vals[3];
                bytes.extend([(x >> 16) as u8, (x >> 8) as u8, x as u8]);
            }
            3 => {
                let x = (vals[0] << 18) | (vals[1] << 12) | (vals[2] << 6);
                bytes.extend([(x >> 16) as u8, (x >> 8) as u8]);
                trailing_nonzero |= vals[2] & 0b11 != 0;
            }
            2 => {
                let x = (vals[0] << 18) | (vals[1] << 12);
                bytes.push((x >> 16) as u8);
                trailing_nonzero |= vals[1] & 0b1111 != 0;
            }
            _ => unreachable!(),
        }
    }
    let text = String::from_utf8(bytes).ok();
    let canonical_pad = npad == 0 || npad == (4 - n % 4) % 4;
    if !canonical_pad {
        return Dec::Gray("partial or excess padding", text);
    }
    if trailing_nonzero {
        // Not the encoding of ANY byte string (the encoder always leaves the unused bits zero): the
        // text is invalid input, and a decoder that takes it maps two different texts ("YQ==",
        // "YR==") to one string. The engine's decoders are built without `allow_trailing_bits`
        // (seeded change C20-11 switched it on while tidying the two configurations into one).
        return Dec::Invalid("non-zero trailing bits: not the encoding of any byte string");
    }
    match text {
        Some(t) => Dec::Valid(t),
        None => Dec::Invalid("decoded bytes are not UTF-8"),
    }
}

fn is_unreserved(b: u8) -> bool {
    b.is_ascii_alphanumeric() || matches!(b, b'-' | b'.' | b'_' | b'~')
}

/// Python `urllib.parse.quote(s)` (safe = "/"): what `urlencode` documents.
fn ref_quote(s: &str) -> String {
    let mut out = String::new();
    for &b in s.as_bytes() {
        if is_unreserved(b) || b == b'/' {
            out.push(b as char);
        } else {
            out.push_str(&format!("%{b:02X}"));
        }
    }
    out
}

/// "Percent-encodes all non-alphanumeric characters": what `urlencode_strict` documents.
fn ref_quote_strict(s: &str) -> String {
    let mut out = String::new();
    for &b in s.as_bytes() {
        if b.is_ascii_alphanumeric() {
            out.push(b as char);
        } else {
            out.push_str(&format!("%{b:02X}"));
        }
    }
    out
}

/// Independent percent-decoder. `Err` when a `%` is not followed by two hex digits or the bytes
/// are not UTF-8.
fn percent_decode(s: &str) -> Result<String, String> {
    let b = s.as_bytes();
    let mut out = vec![];
    let mut i = 0;
    let hex = |c: u8| (c as char).to_digit(16);
    while i < b.len() {
        if b[i] == b'%' {
            if i + 3 > b.len() {
                return Err(format!("truncated escape at byte {i}"));
            }
            match (hex(b[i + 1]), hex(b[i + 2])) {
                (Some(h), Some(l)) => out.push((h * 16 + l) as u8),
                _ => return Err(format!("malformed escape at byte {i}")),
            }
            i += 3;
        } else {
            out.push(b[i]);
            i += 1;
        }
    }
    String::from_utf8(out).map_err(|e| format!("decoded bytes are not UTF-8: {e}"))
}

/// Upper-cases the two hex digits of every escape (the hex case is not part of any contract).
fn normalize_hex(s: &str) -> String {
    let mut out = String::with_capacity(s.len());
    let mut left = 0;
    for c in s.chars() {
        if c == '%' {
            left = 2;
            out.push(c);
        } else if left > 0 {
            left -= 1;
            out.push(c.to_ascii_uppercase());
        } else {
            out.push(c);
        }
    }
    out
}

// ------------------------------------------------------------------------------------------
// strict JSON parser (RFC 8259), exact integers
// ------------------------------------------------------------------------------------------

#[derive(Debug, Clone, PartialEq)]
enum J {
    Null,
    Bool(bool),
    /// the number token, verbatim
    Num(String),
    Str(String),
    Arr(Vec<J>),
    /// members in document order (duplicates kept so that they can be reported)
    Obj(Vec<(String, J)>),
}

struct P<'a> {
    b: &'a [u8],
    i: usize,
}

impl<'a> P<'a> {
    fn ws(&mut self) {
        while self.i < self.b.len() && matches!(self.b[self.i], b' ' | b'\t' | b'\n' | b'\r') {
            self.i += 1;
        }
    }
    fn err<T>(&self, what: &str) -> Result<T, String> {
        Err(format!("{what} at byte {}", self.i))
    }
    fn value(&mut self, depth: usize) -> Result<J, String> {
        if depth > 512 {
            return self.err("nesting too deep for the reference parser");
        }
        self.ws();
        let Some(&c) = self.b.get(self.i) else { return self.err("unexpected end") };
        match c {
            b'n' => self.lit("null", J::Null),
            b't' => self.lit("true", J::Bool(true)),
            b'f' => self.lit("false", J::Bool(false)),
            b'"' => Ok(J::Str(self.string()?)),
            b'[' => {
                self.i += 1;
                let mut xs = vec![];
                self.ws();
                if self.b.get(self.i) == Some(&b']') {
                    self.i += 1;
                    return Ok(J::Arr(xs));
                }
                loop {
                    xs.push(self.value(depth + 1)?);
                    self.ws();
                    match self.b.get(self.i) {
                        Some(b',') => self.i += 1,
                        Some(b']') => {
                            self.i += 1;
                            return Ok(J::Arr(xs));
                        }
                        _ => return self.err("expected , or ]"),
                    }
                }
            }
            b'{' => {
                self.i += 1;
                let mut kv = vec![];
                self.ws();
                if self.b.get(self.i) == Some(&b'}') {
                    self.i += 1;
                    return Ok(J::Obj(kv));
                }
                loop {
                    self.ws();
                    if self.b.get(self.i) != Some(&b'"') {
                        return self.err("expected a string key");
                    }
                    let k = self.string()?;
                    self.ws();
                    if self.b.get(self.i) != Some(&b':') {
                        return self.err("expected :");
                    }
                    self.i += 1;
                    let v = self.value(depth + 1)?;
                    kv.push((k, v));
                    self.ws();
                    match self.b.get(self.i) {
                        Some(b',') => self.i += 1,
                        Some(b'}') => {
                            self.i += 1;
                            return Ok(J::Obj(kv));
                        }
                        _ => return self.err("expected , or }"),
                    }
                }
            }
            b'-' | b'0'..=b'9' => self.number(),
            _ => self.err("unexpected character"),
        }
    }
    fn lit(&mut self, word: &str, v: J) -> Result<J, String> {
        if self.b[self.i..].starts_with(word.as_bytes()) {
            self.i += word.len();
            Ok(v)
        } else {
            self.err("bad literal")
        }
    }
    fn digits(&mut self) -> usize {
        let s = self.i;
        while self.i < self.b.len() && self.b[self.i].is_ascii_digit() {
            self.i += 1;
        }
        self.i - s
    }
    fn number(&mut self) -> Result<J, String> {
        let s = self.i;
        if self.b[self.i] == b'-' {
            self.i += 1;
        }
        match self.b.get(self.i) {
            Some(b'0') => self.i += 1,
            Some(b'1'..=b'9') => {
                self.digits();
            }
            _ => return self.err("expected a digit"),
        }
        if self.b.get(self.i) == Some(&b'.') {
            self.i += 1;
            if self.digits() == 0 {
                return self.err("expected fraction digits");
            }
        }
        if matches!(self.b.get(self.i), Some(b'e' | b'E')) {
            self.i += 1;
            if matches!(self.b.get(self.i), Some(b'+' | b'-')) {
                self.i += 1;
            }
            if self.digits() == 0 {
                return self.err("expected exponent digits");
            }
        }
        Ok(J::Num(String::from_utf8(self.b[s..self.i].to_vec()).unwrap()))
    }
    fn hex4(&mut self) -> Result<u32, String> {
        if self.i + 4 > self.b.len() {
            return self.err("truncated \\u escape");
        }
        let mut x = 0;
        for k in 0..4 {
            match (self.b[self.i + k] as char).to_digit(16) {
                Some(d) => x = x * 16 + d,
                None => return self.err("bad \\u escape"),
            }
        }
        self.i += 4;
        Ok(x)
    }
    fn string(&mut self) -> Result<String, String> {
        self.i += 1; // opening quote
        let mut out: Vec<u8> = vec![];
        loop {
            let Some(&c) = self.b.get(self.i) else { return self.err("unterminated string") };
            match c {
                b'"' => {
                    self.i += 1;
                    return String::from_utf8(out).map_err(|_| "string is not UTF-8".to_string());
                }
                0..=0x1f => return self.err("unescaped control character in string"),
                b'\\' => {
                    self.i += 1;
                    let Some(&e) = self.b.get(self.i) else { return self.err("unterminated escape") };
                    self.i += 1;
                    let ch = match e {
                        b'"' => '"',
                        b'\\' => '\\',
                        b'/' => '/',
                        b'b' => '\u{8}',
                        b'f' => '\u{c}',
                        b'n' => '\n',
                        b'r' => '\r',
                        b't' => '\t',
                        b'u' => {
                            let hi = self.hex4()?;
                            let cp = if (0xD800..0xDC00).contains(&hi) {
                                if self.b.get(self.i) != Some(&b'\\') || self.b.get(self.i + 1) != Some(&b'u') {
                                    return self.err("lone high surrogate");
                                }
                                self.i += 2;
                                let lo = self.hex4()?;
                                if !(0xDC00..0xE000).contains(&lo) {
                                    return self.err("bad low surrogate");
                                }
                                0x10000 + ((hi - 0xD800) << 10) + (lo - 0xDC00)
                            } else if (0xDC00..0xE000).contains(&hi) {
                                return self.err("lone low surrogate");
                            } else {
                                hi
                            };
                            match char::from_u32(cp) {
                                Some(c) => c,
                                None => return self.err("escape is not a scalar value"),
                            }
                        }
                        _ => return self.err("unknown escape"),
                    };
                    let mut buf = [0u8; 4];
                    out.extend(ch.encode_utf8(&mut buf).as_bytes());
                }
                _ => {
                    out.push(c);
                    self.i += 1;
                }
            }
        }
    }
}

fn parse_json(s: &str) -> Result<J, String> {
    let mut p = P { b: s.as_bytes(), i: 0 };
    let v = p.value(0)?;
    p.ws();
    if p.i != p.b.len() {
        return p.err("trailing characters");
    }
    Ok(v)
}

fn int_token(tok: &str) -> bool {
    !tok.contains(['.', 'e', 'E'])
}

fn key_text(k: &K) -> String {
    match k {
        K::Str(s) => s.clone(),
        K::Bool(b) => b.to_string(),
        K::I64(i) => i.to_string(),
        K::U64(i) => i.to_string(),
        K::I128(i) => i.to_string(),
        K::U128(i) => i.to_string(),
    }
}

/// Does the parsed JSON carry the same data as `v`? `Err(path: why)` otherwise.
fn json_matches(j: &J, v: &V, path: &str) -> Result<(), String> {
    let bad = |why: String| Err(format!("at {path}: {why} (JSON has {j:?}, value is {})", v.describe()));
    match v {
        V::Undef | V::None => {
            if *j == J::Null { Ok(()) } else { bad("expected null".into()) }
        }
        V::Bool(b) => {
            if *j == J::Bool(*b) { Ok(()) } else { bad("expected this bool".into()) }
        }
        V::I64(_) | V::U64(_) | V::I128(_) | V::U128(_) => {
            let want = match v {
                V::I64(i) => i.to_string(),
                V::U64(i) => i.to_string(),
                V::I128(i) => i.to_string(),
                V::U128(i) => i.to_string(),
                _ => unreachable!(),
            };
            match j {
                // exact: compare the decimal digits (canonical: no leading zeros by the grammar, "-0" is not "0")
                J::Num(tok) if int_token(tok) && *tok == want => Ok(()),
                _ => bad(format!("expected the integer {want} exactly")),
            }
        }
        V::F64(f) => match j {
            J::Num(tok) => match tok.parse::<f64>() {
                Ok(g) if g == *f => Ok(()),
                _ => bad(format!("expected a number equal to {f:?}")),
            },
            _ => bad("expected a number".into()),
        },
        V::Str(s) | V::Safe(s) => {
            if *j == J::Str(s.clone()) { Ok(()) } else { bad("expected this string".into()) }
        }
        V::Bytes(b) => match j {
            // JSON has no bytes: the array of byte values is lossless; a string is accepted only
            // when the bytes are that UTF-8 text
            J::Arr(xs) if xs.len() == b.len() && xs.iter().zip(b).all(|(x, y)| *x == J::Num(y.to_string())) => Ok(()),
            J::Str(s) if std::str::from_utf8(b).ok() == Some(s.as_str()) => Ok(()),
            _ => bad("expected the bytes as an array of numbers".into()),
        },
        V::Arr(xs) => match j {
            J::Arr(js) if js.len() == xs.len() => {
                for (i, (a, b)) in js.iter().zip(xs).enumerate() {
                    json_matches(a, b, &format!("{path}[{i}]"))?;
                }
                Ok(())
            }
            _ => bad(format!("expected an array of {} elements", xs.len())),
        },
        V::Map(kv) => match j {
            J::Obj(members) => {
                for (i, (k, _)) in members.iter().enumerate() {
                    if members[..i].iter().any(|(k2, _)| k2 == k) {
                        return bad(format!("duplicate member {k:?}"));
                    }
                }
                if members.len() != kv.len() {
                    return bad(format!("expected {} members", kv.len()));
                }
                for (k, val) in kv {
                    let kt = key_text(k);
                    match members.iter().find(|(mk, _)| *mk == kt) {
                        Some((_, mj)) => json_matches(mj, val, &format!("{path}.{kt}"))?,
                        None => return bad(format!("member {kt:?} is missing")),
                    }
                }
                Ok(())
            }
            _ => bad("expected an object".into()),
        },
    }
}

fn has_nonfinite(v: &V) -> bool {
    match v {
        V::F64(f) => !f.is_finite(),
        V::Arr(xs) => xs.iter().any(has_nonfinite),
        V::Map(kv) => kv.iter().any(|(_, x)| has_nonfinite(x)),
        _ => false,
    }
}

fn has_colliding_keys(v: &V) -> bool {
    match v {
        V::Arr(xs) => xs.iter().any(has_colliding_keys),
        V::Map(kv) => {
            let texts: Vec<String> = kv.iter().map(|(k, _)| key_text(k)).collect();
            texts.iter().enumerate().any(|(i, t)| texts[..i].contains(t)) || kv.iter().any(|(_, x)| has_colliding_keys(x))
        }
        _ => false,
    }
}

// ------------------------------------------------------------------------------------------
// spaces
// ------------------------------------------------------------------------------------------

fn alphabet() -> Vec<char> {
    let mut a: Vec<char> = "!\"#$%&'()*+,-./:;<=>?@[\\]^_`{|}~".chars().collect();
    assert_eq!(a.len(), 32);
    a.extend([' ', 'a', 'Z', '0', '\n', '\0', '\u{7f}', 'é', 'ß', '日', '😀', '\u{a0}', '\u{2028}', 'İ', '\u{301}']);
    assert_eq!(a.len(), 47);
    a
}

const DEC_ALPHABET: [char; 12] = ['A', 'Q', 'a', 'g', '0', '+', '/', '-', '_', '=', ' ', 'é'];

/// The i-th string (shortlex) over `alpha`: 0 = "", 1..=n = the single characters, ...
fn nth_string(alpha: &[char], mut i: u64) -> String {
    let n = alpha.len() as u64;
    let mut len = 0;
    let mut block = 1u64;
    while i >= block {
        i -= block;
        block *= n;
        len += 1;
    }
    let mut chars = vec![' '; len];
    for pos in (0..len).rev() {
        chars[pos] = alpha[(i % n) as usize];
        i /= n;
    }
    chars.into_iter().collect()
}

fn count_upto(n: u64, len: u32) -> u64 {
    (0..=len).map(|l| n.pow(l)).sum()
}

// ------------------------------------------------------------------------------------------
// the programs
// ------------------------------------------------------------------------------------------

fn tf(b: bool) -> &'static str {
    if b { "true" } else { "false" }
}

fn build_tera() -> Tera {
    let mut t = Tera::default();
    t.register_filter("b64_encode", tera_contrib::base64::b64_encode);
    t.register_filter("b64_decode", tera_contrib::base64::b64_decode);
    t.register_filter("urlencode", tera_contrib::urlencode::urlencode);
    t.register_filter("urlencode_strict", tera_contrib::urlencode::urlencode_strict);
    t.register_filter("json_encode", tera_contrib::json::json_encode);
    t.register_filter("slug", tera_contrib::slug::slug);
    // a host filter that applies a codec by name through State::call_filter
    t.register_filter("via", |v: tera::Value, k: tera::Kwargs, st: &tera::State| -> tera::TeraResult<tera::Value> {
        let name = k.must_get::<String>("f")?;
        st.call_filter(&name, &v, tera::Kwargs::default())
    });
    let mut tpls: Vec<(String, String)> = vec![];
    for u in [false, true] {
        for p in [false, true] {
            tpls.push((format!("enc/{}/{}", tf(u), tf(p)), format!("{{{{ s | b64_encode(url_safe={}, padded={}) }}}}", tf(u), tf(p))));
            tpls.push((
                format!("rt/{}/{}", tf(u), tf(p)),
                format!("{{{{ s | b64_encode(url_safe={}, padded={}) | b64_decode(url_safe={}) }}}}", tf(u), tf(p), tf(u)),
            ));
        }
        tpls.push((format!("dec/{}", tf(u)), format!("{{{{ s | b64_decode(url_safe={}) }}}}", tf(u))));
        // the documented capitalised spellings of the boolean literals (`True` / `False`)
        let cap = |b: bool| if b { "True" } else { "False" };
        for p in [false, true] {
            tpls.push((
                format!("rt-cap/{}/{}", tf(u), tf(p)),
                format!("{{{{ s | b64_encode(url_safe={}, padded={}) }}}}|{{{{ s | b64_encode(url_safe={}, padded={}) | b64_decode(url_safe={}) }}}}", cap(u), cap(p), cap(u), cap(p), cap(u)),
            ));
        }
    }
    for (n, src) in [
        ("enc/default", "{{ s | b64_encode }}"),
        ("rt/default", "{{ s | b64_encode | b64_decode }}"),
        ("dec/default", "{{ s | b64_decode }}"),
        ("enc/vars", "{{ s | b64_encode(url_safe=u, padded=p) }}"),
        ("rt/vars", "{{ s | b64_encode(padded=p, url_safe=u) | b64_decode(url_safe=u) }}"),
        ("dec/vars", "{{ s | b64_decode(url_safe=u) }}"),
        ("url", "{{ s | urlencode }}"),
        ("url_strict", "{{ s | urlencode_strict }}"),
        ("slug", "{{ s | slug }}"),
        ("jsons/default", "{{ s | json_encode }}"),
        ("jsons/pretty", "{{ s | json_encode(pretty=true) }}"),
        ("json/default", "{{ v | json_encode }}"),
        ("json/pretty", "{{ v | json_encode(pretty=true) }}"),
        ("json/compact", "{{ v | json_encode(pretty=false) }}"),
        ("json/var", "{{ v | json_encode(pretty=p) }}"),
        // the codecs as filter sections inside a set block, over a body that comes from an INCLUDE
        // (two captures open at the include; seeded change C20-12 = C05-10 wrote the included text
        // into the outermost one, so the codec encoded nothing)
        // the codecs applied by a host filter through State::call_filter, in a template included two
        // levels deep (seeded change C20-14 = C16-14 found the registered filters one include level
        // above the callback only)
        ("via/d0", "{{ s | via(f=\"urlencode_strict\") }}|{{ s | via(f=\"b64_encode\") }}|{{ s | via(f=\"json_encode\") }}"),
        ("via/d1", "{% include \"via/d0\" %}"),
        ("via/d2", "{% include \"via/d1\" %}"),
        ("payload", "{{ s }}"),
        (
            "nested/set-filter-include",
            "{% set o1 %}{% filter urlencode_strict %}{% include \"payload\" %}{% endfilter %}{% endset %}{{ o1 }}|\
             {% set o2 %}{% filter b64_encode %}{% include \"payload\" %}{% endfilter %}{% endset %}{{ o2 }}|\
             {% set o3 %}{% filter json_encode %}{% include \"payload\" %}{% endfilter %}{% endset %}{{ o3 }}",
        ),
    ] {
        tpls.push((n.to_string(), src.to_string()));
    }
    t.add_raw_templates(tpls.iter().map(|(a, b)| (a.as_str(), b.as_str()))).expect("C20 templates compile");
    t
}

fn source_of(name: &str) -> String {
    // for replay files: the template text behind a template name
    let t = |u: &str, p: &str| format!("{{{{ s | b64_encode(url_safe={u}, padded={p}) }}}}");
    match name.split('/').collect::<Vec<_>>().as_slice() {
        ["enc", "default"] => "{{ s | b64_encode }}".into(),
        ["rt", "default"] => "{{ s | b64_encode | b64_decode }}".into(),
        ["dec", "default"] => "{{ s | b64_decode }}".into(),
        ["enc", "vars"] => "{{ s | b64_encode(url_safe=u, padded=p) }}".into(),
        ["rt", "vars"] => "{{ s | b64_encode(padded=p, url_safe=u) | b64_decode(url_safe=u) }}".into(),
        ["dec", "vars"] => "{{ s | b64_decode(url_safe=u) }}".into(),
        ["enc", u, p] => t(u, p),
        ["rt", u, p] => format!("{{{{ s | b64_encode(url_safe={u}, padded={p}) | b64_decode(url_safe={u}) }}}}"),
        ["dec", u] => format!("{{{{ s | b64_decode(url_safe={u}) }}}}"),
        ["url"] => "{{ s | urlencode }}".into(),
        ["url_strict"] => "{{ s | urlencode_strict }}".into(),
        ["slug"] => "{{ s | slug }}".into(),
        ["jsons", "default"] => "{{ s | json_encode }}".into(),
        ["jsons", "pretty"] => "{{ s | json_encode(pretty=true) }}".into(),
        ["json", "default"] => "{{ v | json_encode }}".into(),
        ["json", "pretty"] => "{{ v | json_encode(pretty=true) }}".into(),
        ["json", "compact"] => "{{ v | json_encode(pretty=false) }}".into(),
        ["json", "var"] => "{{ v | json_encode(pretty=p) }}".into(),
        _ => name.to_string(),
    }
}

fn alphabet_class_ok(enc: &str, url_safe: bool, padded: bool) -> Result<(), String> {
    let body = enc.trim_end_matches('=');
    let npad = enc.len() - body.len();
    for c in body.chars() {
        let ok = c.is_ascii_alphanumeric() || if url_safe { c == '-' || c == '_' } else { c == '+' || c == '/' };
        if !ok {
            return Err(format!("character {c:?} is not in the {} base64 alphabet", if url_safe { "URL-safe" } else { "standard" }));
        }
    }
    if padded {
        if enc.len() % 4 != 0 || npad > 2 {
            return Err(format!("padded output has length {} with {npad} `=`", enc.len()));
        }
    } else if npad != 0 {
        return Err("unpadded output contains `=`".into());
    }
    Ok(())
}

/// All string programs on one string.
fn judge_string(tera: &Tera, s: &str, acc: &mut Acc, sample: bool) {
    let mut ctx = Context::new();
    ctx.insert_value("s", tera::Value::normal_string(s));
    let case = |tpl: &str| json!({"template": source_of(tpl), "s": s, "s_debug": format!("{s:?}")});
    let nonempty = !s.is_empty();

    // ---- json_encode of the bare string (every string of the enumeration, so every control
    // character, quote and backslash in every short context; seeded change C20-5: a shortcut for
    // top-level strings that forgot the control characters)
    for name in ["jsons/default", "jsons/pretty"] {
        let out = engine::render(tera, name, &ctx);
        let class = match &out {
            Out::Ok(text) => match parse_json(text) {
                Ok(J::Str(back)) if back == s => "json-string:ok",
                Ok(_) => {
                    acc.violation("json-string-mismatch", format!("json_encode gave {text:?}, which does not decode to the input string"), || case(name));
                    "json-string:MISMATCH"
                }
                Err(why) => {
                    acc.violation("json-string-invalid", format!("json_encode gave {text:?}, not valid JSON ({why})"), || case(name));
                    "json-string:INVALID"
                }
            },
            other => {
                acc.violation(format!("json-string-{}", other.class()), format!("json_encode of a string gave {}", other.show()), || case(name));
                "json-string:not-ok"
            }
        };
        acc.case(nonempty, class);
    }

    // ---- the same string written as a template LITERAL (escapes for quote, backslash, newline, tab,
    // CR; everything else raw): the codecs must see the same text as through the context (seeded
    // change C20-9: the unescaping loop of the lexer walked bytes)
    {
        let mut lit = String::from("\"");
        for c in s.chars() {
            match c {
                '"' => lit.push_str("\\\""),
                '\\' => lit.push_str("\\\\"),
                '\n' => lit.push_str("\\n"),
                '\t' => lit.push_str("\\t"),
                '\r' => lit.push_str("\\r"),
                c => lit.push(c),
            }
        }
        lit.push('"');
        // delimiters inside a literal are fine for the lexer; `{#` / `{%` / `{{` need no care inside `{{ }}`
        let src_lit = format!("{{{{ {lit} | urlencode_strict }}}}|{{{{ {lit} | b64_encode }}}}|{{{{ {lit} | json_encode }}}}");
        let src_ctx = "{{ s | urlencode_strict }}|{{ s | b64_encode }}|{{ s | json_encode }}";
        let a = engine::render_str(tera, &src_lit, &ctx, false);
        let b = engine::render_str(tera, src_ctx, &ctx, false);
        if a != b {
            acc.violation(
                "literal-operand-differs-from-context-operand",
                format!("`{src_lit}` gives {}, the same string from the context gives {}", a.show(), b.show()),
                || json!({"template": src_lit, "s": s}),
            );
        }
        acc.case(nonempty, "literal-operand:compared");

        // ---- the block spelling: `{% filter F %}..{% endfilter %}` applies F to what its body
        // renders - the string printed from the context, and (where the string can stand as
        // template text) the string itself, the EMPTY string included: `json_encode` of nothing is
        // `""`, not nothing (seeded change C20-10 compiled a filter section with an empty body to
        // no code at all)
        let sect = |body: &str| {
            format!(
                "{{% filter urlencode_strict %}}{body}{{% endfilter %}}|{{% filter b64_encode %}}{body}{{% endfilter %}}|{{% filter json_encode %}}{body}{{% endfilter %}}"
            )
        };
        let src_sect = sect("{{ s }}");
        let c = engine::render_str(tera, &src_sect, &ctx, false);
        if c != b {
            acc.violation(
                "filter-section-differs-from-expression",
                format!("`{src_sect}` gives {}, `{src_ctx}` gives {}", c.show(), b.show()),
                || json!({"template": src_sect, "s": s}),
            );
        }
        acc.case(nonempty, "filter-section:compared");
        let e = engine::render(tera, "nested/set-filter-include", &ctx);
        if e != b {
            acc.violation(
                "filter-section-differs-from-expression",
                format!("the codecs as filter sections in a set block around `{{% include \"payload\" %}}` (payload = `{{{{ s }}}}`) give {}, `{src_ctx}` gives {}", e.show(), b.show()),
                || json!({"template": "nested/set-filter-include", "s": s}),
            );
        }
        acc.case(nonempty, "filter-section-in-set-block-over-include:compared");
        for name in ["via/d0", "via/d2"] {
            let v = engine::render(tera, name, &ctx);
            if v != b {
                acc.violation(
                    "host-filter-call_filter-differs-from-expression",
                    format!("the codecs applied by a host filter through State::call_filter ({name}: include depth {}) give {}, `{src_ctx}` gives {}", if name == "via/d0" { 0 } else { 2 }, v.show(), b.show()),
                    || json!({"template": name, "s": s}),
                );
            }
            acc.case(nonempty, "host-filter-call_filter:compared");
        }
        let as_text = !s.contains("{{") && !s.contains("{%") && !s.contains("{#") && !s.ends_with('{');
        if as_text {
            let src_text = sect(s);
            let d = engine::render_str(tera, &src_text, &ctx, false);
            if d != b {
                acc.violation(
                    "filter-section-differs-from-expression",
                    format!("`{src_text}` gives {}, `{src_ctx}` with s = {s:?} gives {}", d.show(), b.show()),
                    || json!({"template": src_text, "s": s}),
                );
            }
            acc.case(true, if s.is_empty() { "filter-section-over-text:empty-body" } else { "filter-section-over-text:compared" });
        }
    }

    // ---- base64
    for u in [false, true] {
        for p in [false, true] {
            let name = format!("enc/{}/{}", tf(u), tf(p));
            let enc = engine::render(tera, &name, &ctx);
            let want = ref_b64_encode(s.as_bytes(), u, p);
            match &enc {
                Out::Ok(e) => {
                    if let Err(why) = alphabet_class_ok(e, u, p) {
                        acc.violation(format!("b64-alphabet:url_safe={u}:padded={p}"), format!("encoded text {e:?}: {why}"), || case(&name));
                    }
                    if *e != want {
                        acc.violation(
                            format!("b64-encode-mismatch:url_safe={u}:padded={p}"),
                            format!("encoded text is {e:?}, RFC 4648 gives {want:?}"),
                            || case(&name),
                        );
                    }
                }
                other => acc.violation(format!("b64-encode-{}", other.class()), format!("b64_encode gave {}", other.show()), || case(&name)),
            }
            acc.case(nonempty, if enc.is_ok() { "b64-encode:ok" } else { "b64-encode:not-ok" });

            let name = format!("rt/{}/{}", tf(u), tf(p));
            let rt = engine::render(tera, &name, &ctx);
            if rt.ok() != Some(s) {
                acc.violation(
                    format!("b64-roundtrip:url_safe={u}:padded={p}"),
                    format!("b64_decode(b64_encode(s)) gave {}, expected the input back", rt.show()),
                    || case(&name),
                );
            }
            acc.case(nonempty, if rt.is_ok() { "b64-roundtrip:ok" } else { "b64-roundtrip:not-ok" });

            // the same options spelled `True` / `False` (seeded change C20-13 lexed `True` as false)
            let cap = engine::render(tera, &format!("rt-cap/{}/{}", tf(u), tf(p)), &ctx);
            let want_cap = match (&enc, &rt) {
                (Out::Ok(e), Out::Ok(r)) => Some(format!("{e}|{r}")),
                _ => None,
            };
            if want_cap.is_some() && cap.ok() != want_cap.as_deref() {
                acc.violation(
                    "b64-options-capitalised-literals",
                    format!("options spelled True / False (url_safe={u}, padded={p}) gave {}, spelled true / false {:?}", cap.show(), want_cap),
                    || json!({"template": format!("{{{{ s | b64_encode(url_safe={}, padded={}) }}}}|...", if u { "True" } else { "False" }, if p { "True" } else { "False" }), "s": s}),
                );
            }
            acc.case(nonempty, "b64-options-capitalised-literals");
            // the same options passed as context variables
            let mut cv = ctx.clone();
            cv.insert_value("u", tera::Value::from(u));
            cv.insert_value("p", tera::Value::from(p));
            let ev = engine::render(tera, "enc/vars", &cv);
            if ev != enc {
                acc.violation(
                    "b64-options-as-variables",
                    format!("options given as variables (url_safe={u}, padded={p}) gave {}, as literals {}", ev.show(), enc.show()),
                    || case("enc/vars"),
                );
            }
            let rv = engine::render(tera, "rt/vars", &cv);
            if rv != rt {
                acc.violation(
                    "b64-options-as-variables",
                    format!("round trip with options given as variables (url_safe={u}, padded={p}) gave {}, as literals {}", rv.show(), rt.show()),
                    || case("rt/vars"),
                );
            }
            acc.case(nonempty, "b64-options-as-variables");
        }
    }
    // documented defaults: url_safe=false, padded=true
    let d = engine::render(tera, "enc/default", &ctx);
    let want = ref_b64_encode(s.as_bytes(), false, true);
    if d.ok() != Some(want.as_str()) {
        acc.violation("b64-defaults", format!("b64_encode without options gave {}, documented defaults give {want:?}", d.show()), || {
            case("enc/default")
        });
    }
    let d = engine::render(tera, "rt/default", &ctx);
    if d.ok() != Some(s) {
        acc.violation("b64-roundtrip:defaults", format!("b64_encode | b64_decode gave {}", d.show()), || case("rt/default"));
    }
    acc.case(nonempty, "b64-defaults");

    // ---- urlencode
    let must_escape = s.bytes().any(|b| !(is_unreserved(b) || b == b'/'));
    let out = engine::render(tera, "url", &ctx);
    match &out {
        Out::Ok(e) => {
            let mut bad_class = None;
            let eb = e.as_bytes();
            let mut i = 0;
            while i < eb.len() {
                if eb[i] == b'%' {
                    if i + 3 > eb.len() || !(eb[i + 1] as char).is_ascii_hexdigit() || !(eb[i + 2] as char).is_ascii_hexdigit() {
                        bad_class = Some(format!("malformed escape at byte {i}"));
                        break;
                    }
                    i += 3;
                } else if is_unreserved(eb[i]) || eb[i] == b'/' {
                    i += 1;
                } else {
                    bad_class = Some(format!("raw byte {:#04x} is neither unreserved nor `/`", eb[i]));
                    break;
                }
            }
            if let Some(why) = bad_class {
                acc.violation("urlencode-alphabet", format!("output {e:?}: {why}"), || case("url"));
            }
            match percent_decode(e) {
                Ok(back) if back == s => {}
                other => acc.violation("urlencode-roundtrip", format!("percent-decoding {e:?} gave {other:?}, expected the input"), || case("url")),
            }
            let want = ref_quote(s);
            if normalize_hex(e) != want {
                acc.violation("urlencode-vs-python-quote", format!("output {e:?}, Python's quote(s) gives {want:?}"), || case("url"));
            }
        }
        other => acc.violation(format!("urlencode-{}", other.class()), format!("urlencode gave {}", other.show()), || case("url")),
    }
    acc.case(must_escape, if out.is_ok() { "urlencode:ok" } else { "urlencode:not-ok" });

    let must_escape = s.bytes().any(|b| !b.is_ascii_alphanumeric());
    let out = engine::render(tera, "url_strict", &ctx);
    match &out {
        Out::Ok(e) => {
            let mut bad_class = None;
            let eb = e.as_bytes();
            let mut i = 0;
            while i < eb.len() {
                if eb[i] == b'%' {
                    if i + 3 > eb.len() || !(eb[i + 1] as char).is_ascii_hexdigit() || !(eb[i + 2] as char).is_ascii_hexdigit() {
                        bad_class = Some(format!("malformed escape at byte {i}"));
                        break;
                    }
                    i += 3;
                } else if eb[i].is_ascii_alphanumeric() {
                    i += 1;
                } else if is_unreserved(eb[i]) {
                    bad_class = Some(format!("raw {:?}: unreserved, but the strict form documents that every non-alphanumeric character is escaped", eb[i] as char));
                    break;
                } else {
                    bad_class = Some(format!("raw byte {:#04x} is not unreserved", eb[i]));
                    break;
                }
            }
            if let Some(why) = bad_class {
                acc.violation("urlencode_strict-alphabet", format!("output {e:?}: {why}"), || case("url_strict"));
            }
            match percent_decode(e) {
                Ok(back) if back == s => {}
                other => acc.violation("urlencode_strict-roundtrip", format!("percent-decoding {e:?} gave {other:?}, expected the input"), || {
                    case("url_strict")
                }),
            }
            let want = ref_quote_strict(s);
            if normalize_hex(e) != want {
                acc.violation("urlencode_strict-vs-doc", format!("output {e:?}, escaping every non-alphanumeric byte gives {want:?}"), || {
                    case("url_strict")
                });
            }
        }
        other => acc.violation(format!("urlencode_strict-{}", other.class()), format!("urlencode_strict gave {}", other.show()), || {
            case("url_strict")
        }),
    }
    acc.case(must_escape, if out.is_ok() { "urlencode_strict:ok" } else { "urlencode_strict:not-ok" });

    // ---- slug
    let out = engine::render(tera, "slug", &ctx);
    let transforms = s.chars().any(|c| !(c.is_ascii_lowercase() || c.is_ascii_digit()));
    let class = match &out {
        Out::Ok(e) => {
            let shape_ok = e.is_empty()
                || (e.bytes().all(|b| b.is_ascii_lowercase() || b.is_ascii_digit() || b == b'-')
                    && !e.starts_with('-')
                    && !e.ends_with('-')
                    && !e.contains("--"));
            if !shape_ok {
                acc.violation("slug-alphabet", format!("slug {e:?} is not empty and does not match ^[a-z0-9]+(-[a-z0-9]+)*$"), || case("slug"));
            }
            // the ASCII letters and digits of the input survive, lower-cased and in order
            let mut it = e.chars();
            let kept = s.chars().filter(|c| c.is_ascii_alphanumeric()).all(|c| {
                let c = c.to_ascii_lowercase();
                it.by_ref().any(|x| x == c)
            });
            if !kept {
                acc.violation("slug-drops-alphanumerics", format!("slug {e:?} lost ASCII letters / digits of the input"), || case("slug"));
            }
            if e.is_empty() { "slug:empty" } else { "slug:non-empty" }
        }
        other => {
            acc.violation(format!("slug-{}", other.class()), format!("slug gave {}", other.show()), || case("slug"));
            "slug:not-ok"
        }
    };
    acc.case(transforms, class);
    if sample {
        acc.sample(|| {
            json!({"s": s, "b64": ref_b64_encode(s.as_bytes(), false, true), "urlencode": ref_quote(s), "slug": out.show(),
                   "programs": ["{{ s | b64_encode(url_safe=U, padded=P) | b64_decode(url_safe=U) }}", "{{ s | urlencode }}", "{{ s | urlencode_strict }}", "{{ s | slug }}"]})
        });
    }
}

fn json_space() -> Vec<V> {
    let mut base: Vec<V> = vals::alphabet_v();
    // the 64-bit boundaries held in the 128-bit encodings (arithmetic results are always I128;
    // seeded change C20-3 narrowed I128 values just below i64::MIN through `as i64`)
    for i in [
        i64::MIN as i128,
        i64::MIN as i128 - 1,
        -(u64::MAX as i128),
        -(u64::MAX as i128) - 1,
        i64::MAX as i128,
        i64::MAX as i128 + 1,
        u64::MAX as i128,
        u64::MAX as i128 + 1,
    ] {
        base.push(V::I128(i));
    }
    for u in [i64::MAX as u128, i64::MAX as u128 + 1, u64::MAX as u128, u64::MAX as u128 + 1, i128::MAX as u128, i128::MAX as u128 + 1] {
        base.push(V::U128(u));
    }
    base.push(V::U64(u64::MAX));
    base.push(V::I64(i64::MAX));
    let mut out = base.clone();
    for v in &base {
        out.push(V::Arr(vec![v.clone()]));
        out.push(V::map(&[("k", v.clone())]));
    }
    for v in &base {
        for w in &base {
            out.push(V::Arr(vec![v.clone(), w.clone()]));
            out.push(V::map(&[("a", v.clone()), ("b", w.clone())]));
        }
    }
    // non-string keys next to each other, keys that need escaping
    out.push(V::Map(vec![(K::I64(-1), V::I64(1)), (K::U64(u64::MAX), V::I64(2)), (K::I128(i128::MIN), V::I64(3)), (K::U128(u128::MAX), V::I64(4))]));
    out.push(V::Map(vec![(K::Bool(true), V::I64(1)), (K::Bool(false), V::I64(2))]));
    out.push(V::Map(vec![(K::Str("a\"b\\c\n\u{1}\u{7f}é😀\u{2028}".into()), V::s("a\"b\\c\n\u{1}\u{7f}é😀\u{2028}/"))]));
    // keys that collide once stringified: skipped by the oracle (JSON cannot represent them), still no panic
    out.push(V::Map(vec![(K::I64(1), V::I64(1)), (K::Str("1".into()), V::I64(2))]));
    out.push(V::Map(vec![(K::Bool(true), V::I64(1)), (K::Str("true".into()), V::I64(2))]));
    out
}

fn main() {
    let mut run = Run::from_env("C20", "exploration");
    let thorough = run.tier.is_thorough();
    run.rule(
        "strings / long: one case per (string, program): b64_encode under each of the 4 option combinations, its round trip through b64_decode, \
         the same with options passed as variables, the defaults, urlencode, urlencode_strict, slug. Non-trivial = the codec has work to do on that \
         string: non-empty for base64, contains a byte that must be escaped for the two percent-encoders, contains a character outside [a-z0-9] for slug. \
         b64-decode: one case per (input, url_safe form); non-trivial = the input is not empty. json: one case per (value, program); non-trivial = the \
         value is not a bare scalar, or is a number / string needing exact digits or escapes. misuse: one case per (receiver or option value, filter). \
         Strings are enumerated in shortlex order over the alphabet, so cases are distinct by construction.",
    );
    run.assume("base64 / percent-encoding / serde_json / slug (deunicode) crates are exercised only through the contrib filters; the oracles (RFC 4648 tables, percent codec, RFC 8259 parser, class tables) are independent re-implementations");
    run.assume("`urlencode` is judged against its doc comment (Python urllib.parse.quote with `/` safe), `urlencode_strict` against 'every non-alphanumeric character is escaped'; the case of hex digits is not pinned");
    run.assume("base64 inputs with partial or excess padding may be refused or decoded (the engine's decoders are deliberately built padding-indifferent); a text whose last symbol carries non-zero unused bits is not the encoding of any byte string and counts as invalid input (strict reading of RFC 4648 section 3.5, the base64 crate's default, which the engine keeps); everything else is pinned");
    run.assume("json: non-finite floats are outside the statement (only 'no panic, valid JSON or error' is checked for them); bytes may appear as an array of byte values or, when valid UTF-8, as that string; floats are compared numerically");
    run.assume("slug: beyond the output alphabet, the ASCII letters and digits of the input must survive lower-cased and in order (the documented examples); transliteration of other characters is not pinned");

    let tera = build_tera();
    let alpha = alphabet();
    let n_alpha = alpha.len() as u64;
    let max_len: u32 = if thorough { 4 } else { 3 };
    let dec_max_len: u32 = if thorough { 6 } else { 5 };
    run.extra(
        "alphabets",
        json!({
            "string_alphabet": alpha.iter().map(|c| format!("{c:?}")).collect::<Vec<_>>().join(" "),
            "string_alphabet_size": n_alpha,
            "decoder_alphabet": DEC_ALPHABET.iter().map(|c| format!("{c:?}")).collect::<Vec<_>>().join(" "),
            "json_values": "mccore::vals::alphabet_v() + the 64-bit boundaries in the 128-bit encodings, alone, [v], {\"k\": v}, [v, w], {\"a\": v, \"b\": w} + 5 maps with non-string / escaping / colliding keys",
        }),
    );
    run.extra("bounds", json!({"string_max_len": max_len, "long_lengths": "0..=64 x 47 rotations, 4096-byte ASCII, 4 KiB multi-byte", "decoder_input_max_len": dec_max_len}));

    // ------------------------------------------------------------------ strings
    // work item = a prefix of length < max_len; the item runs prefix + c for every c (item 0 also runs "")
    let prefixes = count_upto(n_alpha, max_len - 1);
    run.family(
        Family::new(
            "strings",
            prefixes,
            &format!("all {} strings of length <= {max_len} over the 47-character alphabet x 21 renders (16 judged cases) each", count_upto(n_alpha, max_len)),
        )
        .describe(|i| json!({"prefix": nth_string(&alpha, i)})),
        |item, acc: &mut Acc| {
            let prefix = nth_string(&alpha, item);
            if item == 0 {
                judge_string(&tera, "", acc, true);
            }
            for (ci, c) in alpha.iter().enumerate() {
                let mut s = prefix.clone();
                s.push(*c);
                judge_string(&tera, &s, acc, item % 5000 == 7 && ci == 40);
            }
        },
    );

    // ------------------------------------------------------------------ long
    let long_items = 65 * n_alpha + 3;
    let long_string = |item: u64| -> String {
        if item < 65 * n_alpha {
            let (len, rot) = ((item / n_alpha) as usize, (item % n_alpha) as usize);
            (0..len).map(|i| alpha[(rot + i * 7) % alpha.len()]).collect()
        } else {
            match item - 65 * n_alpha {
                0 => (0..4096).map(|i| alpha[..39][i % 39]).collect(), // 4096 bytes of ASCII
                1 => alpha.iter().cycle().take(2500).collect(),        // ≈ 4 KiB with multi-byte characters
                _ => "Hello World! Ünïcödé ünd 日本語 — tera/contrib?x=1&y=2#frag".repeat(40),
            }
        }
    };
    run.family(
        Family::new(
            "long",
            long_items,
            "every length 0..=64 (3n, 3n+1, 3n+2 characters; byte lengths vary with the multi-byte characters) x 47 rotations of the alphabet, plus three ~4 KiB strings",
        )
        .describe(|i| json!({"s": long_string(i)})),
        |item, acc: &mut Acc| {
            let s = long_string(item);
            judge_string(&tera, &s, acc, item == 1000);
            acc.count(&format!("byte-length-mod-3={}", s.len() % 3), 1);
        },
    );

    // ------------------------------------------------------------------ decoder inputs
    let nd = DEC_ALPHABET.len() as u64;
    let dec_prefixes = count_upto(nd, dec_max_len - 1);
    run.family(
        Family::new(
            "b64-decode",
            dec_prefixes,
            &format!(
                "all {} strings of length <= {dec_max_len} over the 12-character decoder alphabet x (default, url_safe=false, url_safe=true, url_safe as variable false / true)",
                count_upto(nd, dec_max_len)
            ),
        )
        .describe(|i| json!({"prefix": nth_string(&DEC_ALPHABET, i)})),
        |item, acc: &mut Acc| {
            let prefix = nth_string(&DEC_ALPHABET, item);
            let mut inputs = vec![];
            if item == 0 {
                inputs.push(String::new());
            }
            for c in DEC_ALPHABET {
                let mut s = prefix.clone();
                s.push(c);
                inputs.push(s);
            }
            for s in inputs {
                let mut ctx = Context::new();
                ctx.insert_value("s", tera::Value::normal_string(&s));
                for (tpl, u) in [("dec/default", false), ("dec/false", false), ("dec/true", true), ("dec/vars", false), ("dec/vars", true)] {
                    let mut cx = ctx.clone();
                    if tpl == "dec/vars" {
                        cx.insert_value("u", tera::Value::from(u));
                    }
                    let out = engine::render(&tera, tpl, &cx);
                    let want = ref_b64_decode(&s, u);
                    let case = || json!({"template": source_of(tpl), "s": s, "u": u, "reference": format!("{want:?}")});
                    let class = match (&out, &want) {
                        (Out::Panic(p), _) => {
                            acc.violation("b64-decode-panic", format!("b64_decode panicked: {p}"), case);
                            "panic"
                        }
                        (Out::Ok(t), Dec::Valid(w)) => {
                            if t != w {
                                acc.violation(format!("b64-decode-wrong:url_safe={u}"), format!("decoded to {t:?}, RFC 4648 gives {w:?}"), case);
                            }
                            "valid:decoded"
                        }
                        (Out::Err(..), Dec::Valid(_)) => {
                            acc.violation(format!("b64-decode-refused-valid:url_safe={u}"), format!("canonical base64 was refused: {}", out.show()), case);
                            "valid:refused"
                        }
                        (Out::Ok(t), Dec::Invalid(why)) => {
                            acc.violation(
                                format!("b64-decode-accepted-invalid:url_safe={u}"),
                                format!("invalid input ({why}) was accepted and decoded to {t:?}"),
                                case,
                            );
                            "invalid:accepted"
                        }
                        (Out::Err(..), Dec::Invalid(_)) => "invalid:refused",
                        (Out::Err(..), Dec::Gray(..)) => "decoder's-choice:refused",
                        (Out::Ok(t), Dec::Gray(why, w)) => {
                            if w.as_deref() != Some(t.as_str()) {
                                acc.violation(
                                    format!("b64-decode-wrong:url_safe={u}"),
                                    format!("lenient input ({why}) decoded to {t:?}, its symbols carry {w:?}"),
                                    case,
                                );
                            }
                            "decoder's-choice:decoded"
                        }
                    };
                    acc.case(!s.is_empty(), class);
                    if item == 3 && tpl == "dec/true" && s.len() == 2 {
                        acc.sample(case);
                    }
                }
            }
        },
    );

    // ------------------------------------------------------------------ json
    let jvals = json_space();
    let nj = jvals.len() as u64;
    run.extra("json_value_count", json!(nj));
    run.family(
        Family::new("json", nj, &format!("{nj} values (alphabet V nested one level, all ordered pairs) x (default, pretty=true, pretty=false, pretty as variable)"))
            .describe(|i| json!({"v": jvals[i as usize].describe()})),
        |item, acc: &mut Acc| {
            let v = &jvals[item as usize];
            let ctx = vals::context(&[("v", v)]);
            let nonfinite = has_nonfinite(v);
            let collide = has_colliding_keys(v);
            let nontrivial = !matches!(v, V::Undef | V::None | V::Bool(_)) && !nonfinite && !collide;
            let mut texts: Vec<(String, Option<J>)> = vec![];
            for (tpl, pvar) in [("json/default", None), ("json/pretty", None), ("json/compact", None), ("json/var", Some(true)), ("json/var", Some(false))] {
                let mut cx = ctx.clone();
                if let Some(p) = pvar {
                    cx.insert_value("p", tera::Value::from(p));
                }
                let out = engine::render(&tera, tpl, &cx);
                let case = || json!({"template": source_of(tpl), "v": v.describe(), "p": pvar});
                let class = match &out {
                    Out::Panic(p) => {
                        acc.violation("json-panic", format!("json_encode panicked: {p}"), case);
                        "panic"
                    }
                    Out::Err(..) => {
                        if *v == V::Undef {
                            "undefined-receiver:err"
                        } else if nonfinite {
                            "non-finite:err"
                        } else if collide {
                            "colliding-keys:err"
                        } else {
                            acc.violation("json-refused", format!("json_encode refused a finite value: {}", out.show()), case);
                            "err"
                        }
                    }
                    Out::Ok(text) => match parse_json(text) {
                        Err(why) => {
                            acc.violation("json-invalid", format!("output is not valid JSON ({why}): {text:?}"), case);
                            "invalid-json"
                        }
                        Ok(j) => {
                            let class = if nonfinite {
                                "non-finite:valid-json"
                            } else if collide {
                                "colliding-keys:valid-json"
                            } else {
                                if let Err(why) = json_matches(&j, v, "v") {
                                    acc.violation("json-data-mismatch", format!("the JSON does not decode to the same data: {why}; text {text:?}"), case);
                                }
                                "same-data"
                            };
                            texts.push((tpl.to_string(), Some(j)));
                            class
                        }
                    },
                };
                acc.case(nontrivial, class);
            }
            // every spelling of the options yields the same document
            if texts.len() > 1 && texts.iter().any(|(_, j)| *j != texts[0].1) {
                acc.violation("json-pretty-differs", "pretty and compact outputs decode to different documents", || json!({"v": v.describe()}));
            }
            if item % 700 == 3 {
                acc.sample(|| json!({"v": v.describe(), "programs": ["{{ v | json_encode }}", "{{ v | json_encode(pretty=true) }}"]}));
            }
        },
    );

    // ------------------------------------------------------------------ misuse
    // (a) receivers of every kind through the string filters; (b) option values of every kind
    let recv = vals::alphabet_v();
    let opts = vals::alphabet_small();
    let string_tpls = ["enc/default", "dec/default", "url", "url_strict", "slug", "rt/default"];
    let n_misuse = recv.len() as u64 + opts.len() as u64;
    run.family(
        Family::new(
            "misuse",
            n_misuse,
            &format!("{} receivers x 6 string programs; {} option values x (url_safe, padded on encode; url_safe on decode; pretty)", recv.len(), opts.len()),
        ),
        |item, acc: &mut Acc| {
            if (item as usize) < recv.len() {
                let v = &recv[item as usize];
                let ctx = vals::context(&[("s", v)]);
                let is_str = matches!(v, V::Str(_) | V::Safe(_));
                for tpl in string_tpls {
                    let out = engine::render(&tera, tpl, &ctx);
                    let case = || json!({"template": source_of(tpl), "s": v.describe()});
                    let class = match (&out, is_str) {
                        (Out::Panic(p), _) => {
                            acc.violation("misuse-panic:receiver", format!("panicked: {p}"), case);
                            "panic"
                        }
                        (Out::Ok(t), false) => {
                            acc.violation(
                                "non-string-receiver-accepted",
                                format!("a {:?} receiver was accepted by a filter that takes a string and gave {t:?} (documented: anything else is an error)", v.kind()),
                                case,
                            );
                            "non-string:accepted"
                        }
                        (Out::Err(..), false) => "non-string:refused",
                        // b64_decode of an arbitrary string may legitimately fail
                        (Out::Err(..), true) if tpl == "dec/default" => "string:decode-refused",
                        (Out::Err(..), true) => {
                            acc.violation("string-receiver-refused", format!("a string receiver was refused: {}", out.show()), case);
                            "string:refused"
                        }
                        (Out::Ok(_), true) => "string:accepted",
                    };
                    acc.case(!is_str, class);
                }
            } else {
                let o = &opts[item as usize - recv.len()];
                let sv = V::s("a?b");
                for (tpl, binds) in [
                    ("enc/vars", vec![("s", &sv), ("u", o), ("p", &V::Bool(true))]),
                    ("enc/vars", vec![("s", &sv), ("u", &V::Bool(false)), ("p", o)]),
                    ("dec/vars", vec![("s", &V::s("YT9i")), ("u", o)]),
                    ("json/var", vec![("v", &sv), ("p", o)]),
                ] {
                    let ctx = vals::context(&binds);
                    let out = engine::render(&tera, tpl, &ctx);
                    let case = || json!({"template": source_of(tpl), "option_value": o.describe()});
                    let class = match (&out, o) {
                        (Out::Panic(p), _) => {
                            acc.violation("misuse-panic:option", format!("panicked: {p}"), case);
                            "panic"
                        }
                        (Out::Ok(_), V::Bool(_)) => "bool-option:accepted",
                        (Out::Err(..), V::Bool(_)) => {
                            acc.violation("bool-option-refused", format!("a boolean option was refused: {}", out.show()), case);
                            "bool-option:refused"
                        }
                        // none / undefined for an optional argument: not documented either way
                        (_, V::None | V::Undef) => "none-or-undefined-option",
                        (Out::Ok(t), _) => {
                            acc.violation(
                                "non-bool-option-accepted",
                                format!("a {:?} option value was accepted for a boolean option and gave {t:?} (documented: type mismatches are reported)", o.kind()),
                                case,
                            );
                            "non-bool-option:accepted"
                        }
                        (Out::Err(..), _) => "non-bool-option:refused",
                    };
                    acc.case(!matches!(o, V::Bool(_)), class);
                }
            }
        },
    );

    if run.is_supervisor() {
        for (fam, oc) in [
            ("strings", "b64-roundtrip:ok"),
            ("strings", "slug:empty"),
            ("strings", "slug:non-empty"),
            ("long", "b64-roundtrip:ok"),
            ("b64-decode", "valid:decoded"),
            ("b64-decode", "invalid:refused"),
            ("json", "same-data"),
            ("misuse", "non-string:refused"),
            ("misuse", "non-bool-option:refused"),
            ("misuse", "bool-option:accepted"),
        ] {
            let c = run.outcome(fam, oc);
            run.guard(&format!("{fam}:{oc}"), c > 0, format!("{c} cases"));
        }
        let gray = run.outcome("b64-decode", "decoder's-choice:refused") + run.outcome("b64-decode", "decoder's-choice:decoded");
        run.guard("b64-decode:decoder's-choice-inputs-present", gray > 0, format!("{gray} cases"));
        for m in 0..3 {
            let c = run.counter(&format!("byte-length-mod-3={m}"));
            run.guard(&format!("long:byte-length-mod-3={m}"), c > 100, format!("{c} strings"));
        }
    }
    run.finish();
}
