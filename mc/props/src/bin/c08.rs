//! C08 — template text is reproduced verbatim except whitespace next to `-` markers.
//!
//! A template is a list of *elements* (`El`): literal texts alternating with delimited pieces
//! (expressions, tags, comments, raw blocks).  The list is printed to source under a delimiter set
//! and a spelling (padded / tight), rendered by the real engine, and the output is compared with a
//! reference *printer* that works on the element list alone and is written from the documentation
//! ("Whitespace control", "Comments", "Raw" in docs/content/_index.md) and the property statement:
//!
//!   * text is copied verbatim;
//!   * a `-` marker removes the whitespace at the facing end of the element that is DIRECTLY
//!     adjacent in the source, and only if that element is a text or a raw block (whose body counts
//!     as literal text); it never reaches across a tag, an expression or a comment;
//!   * comments produce nothing; raw bodies are verbatim (the inner markers `{% raw -%}` /
//!     `{%- endraw %}` trim the body's own ends, the outer ones act on the neighbours);
//!   * the same element list printed with another delimiter set renders the same.
//!
//! Families (every one exhaustive over its stated product):
//!   identity   every string of length <= 4 (quick) / <= 5 (thorough) over the 28-character alphabet
//!              of DESIGN §C06 that contains no start delimiter renders to itself (3 delimiter sets)
//!   singles    Text · piece · Text over the full text and piece alphabets, 3 sets x 2 spellings,
//!              through `render_str` and through `add_raw_template` + `render`
//!   pairs      Text · open(l,r) · Text · close(l,r) · Text for every paired tag kind and all 16 flag
//!              combinations, full text alphabet, 3 sets x 2 spellings
//!   seq2       k = 2 delimited pieces alternating with 3 texts (sequence alphabets), 3 sets x 2 spellings
//!   seq3       k = 3, 4 texts, default delimiters: quick = 2-text alphabet; thorough = complete 5-text alphabet
//!   seq3-respelled (thorough) the same k = 3 space under D1 and D2 (budgeted)

use mccore::engine::{self, Out};
use mccore::vals::{self, V};
use mccore::{Acc, Family, Run, json};

// ------------------------------------------------------------------------------------------------
// delimiter sets
// ------------------------------------------------------------------------------------------------

#[derive(Clone, Copy, Debug)]
struct DSet {
    name: &'static str,
    bs: &'static str,
    be: &'static str,
    vs: &'static str,
    ve: &'static str,
    cs: &'static str,
    ce: &'static str,
}

/// D0 default; D1 ASCII pairs sharing their first character; D2 one two-byte character each (all
/// with the UTF-8 lead byte 0xC2, like U+00A0); D3 start delimiters with three DIFFERENT first
/// bytes, so that a text ending in one of them can directly precede another kind of tag (`<{{ x }}`;
/// seeded change C08-2: a start-marker search that skipped two bytes after a rejected candidate).
const DSETS: [DSet; 4] = [
    DSet { name: "D0", bs: "{%", be: "%}", vs: "{{", ve: "}}", cs: "{#", ce: "#}" },
    DSet { name: "D1", bs: "<%", be: "%>", vs: "<<", ve: ">>", cs: "<#", ce: "#>" },
    DSet { name: "D2", bs: "¶", be: "§", vs: "«", ve: "»", cs: "¿", ce: "¡" },
    DSet { name: "D3", bs: "<%", be: "%>", vs: "{{", ve: "}}", cs: "(#", ce: "#)" },
];
const ALL_D: u8 = 0b1111;
const ONLY_D0: u8 = 0b001;

impl DSet {
    fn starts(&self) -> [&'static str; 3] {
        [self.vs, self.bs, self.cs]
    }
    fn all(&self) -> [&'static str; 6] {
        [self.bs, self.be, self.vs, self.ve, self.cs, self.ce]
    }
    fn to_tera(self) -> tera::Delimiters {
        tera::Delimiters {
            block_start: self.bs.into(),
            block_end: self.be.into(),
            variable_start: self.vs.into(),
            variable_end: self.ve.into(),
            comment_start: self.cs.into(),
            comment_end: self.ce.into(),
        }
    }
    fn to_tera_ref(&self) -> tera::Delimiters {
        tera::Delimiters {
            block_start: self.bs.into(),
            block_end: self.be.into(),
            variable_start: self.vs.into(),
            variable_end: self.ve.into(),
            comment_start: self.cs.into(),
            comment_end: self.ce.into(),
        }
    }
    /// Leftmost position of any start delimiter — the documented reading of "where a tag begins".
    fn first_start(&self, s: &str) -> Option<usize> {
        self.starts().iter().filter_map(|d| s.find(d)).min()
    }
    fn json(&self) -> mccore::Json {
        json!({"name": self.name, "block": [self.bs, self.be], "variable": [self.vs, self.ve], "comment": [self.cs, self.ce]})
    }
}

// ------------------------------------------------------------------------------------------------
// alphabets (all literal: the same strings are used under every delimiter set)
// ------------------------------------------------------------------------------------------------

/// Texts. The first five are the sub-alphabet of the sequence families. 10..15 are partial D0
/// delimiters, 15..18 partial D1 delimiters, 18.. characters sharing UTF-8 bytes with D2.
const TEXTS: [&str; 28] = [
    "", "a", " ", " a ", " \n\t", // sequence sub-alphabet
    "\n", "é", " é ", "\u{a0}x", "x\u{a0}", // other whitespace, multi-byte, U+00A0 at either end
    "{", "%}", "}}", "#}", "{ {", // lone / partial default delimiters
    "<", "< <", "%>>>#>", // lone start character and the three end delimiters of D1
    "»§¡", "ëöÿ", // the end delimiters of D2; characters sharing the trailing byte with D2 starts
    "(", "a<", // first bytes of D3's start delimiters directly before a tag of another kind
    "\r\n", " \r", "\u{feff}a ", // CRLF, a lone CR after a blank, a BOM (not whitespace) in front
    "a\u{2003}", "\u{2003}a", "\u{301} ", // an em space at either end, a combining mark (not whitespace) in front of a blank
];
const SUB5: [u8; 5] = [0, 1, 2, 3, 4];
const SUB2: [u8; 2] = [0, 3];
const SUB8: [u8; 8] = [0, 1, 2, 3, 4, 8, 9, 10];

const COMMENT_BODIES: [&str; 9] = ["", " c ", "-", "{{ x }}", "%}", "<< x >>", "%>", "« x »", "§"];
const RAW_BODIES: [&str; 17] = [
    "", "  ", " a ", "\u{a0}b\u{a0}", "{{ x }}", "{% if %}", " {# #} ", "<< x >>", "<% if %>", " <# #> ", "« x »",
    "¶ if §", " ¿ ¡ ", " {%- endraw x %} ",
    // a look-alike end tag whose blank is Unicode whitespace the tag lexer does not accept: still body
    // (seeded change C08-9 recognised `endraw` after trim_start())
    "A{%\u{a0}endraw %}B", "A{%-\u{2003}endraw -%}B", "A<%\u{a0}endraw %>B",
];
const SEQ_COMMENT_BODY: &str = " c ";
const SEQ_RAW_BODIES: [&str; 2] = [" a ", "{{ x }}"];

/// The 28 characters of DESIGN §C06.
const CHARS28: [&str; 28] = [
    "{", "}", "%", "#", "-", "\"", "'", "\\", "`", "a", "1", ".", " ", "\n", "é", "日", "😀", "«", "|", "<", ">", "/",
    "[", "]", "(", ")", ":", "=",
];

// ------------------------------------------------------------------------------------------------
// elements, printer
// ------------------------------------------------------------------------------------------------

#[derive(Clone, Copy, Debug, PartialEq, Eq)]
enum Eff {
    Neutral,
    CapOpen,
    CapClose,
    /// `{% if false %}` .. `{% endif %}`: nothing in between is written (its `-` markers still act on
    /// the texts they face; seeded change C08-7 glued the text of a branch not taken to what follows)
    DeadOpen,
    DeadClose,
}

#[derive(Clone, Copy, Debug)]
enum El {
    Text(u8),
    /// `{{ x }}` with x = 1
    Expr { l: bool, r: bool },
    /// any `{% words %}` other than raw; all of them are neutral for the output except the capture pair
    Tag { l: bool, r: bool, words: &'static str, eff: Eff },
    /// flags as spelled; `comment_reading` decides what the spelling means
    Comment { l: bool, r: bool, body: &'static str },
    Raw { ol: bool, il: bool, ir: bool, or: bool, body: &'static str },
    /// `{{ cap }}`: prints what the set-block captured
    PrintCap,
}

fn dash(b: bool) -> &'static str {
    if b { "-" } else { "" }
}

fn tight_words(w: &'static str) -> &'static str {
    match w {
        "set v = 1" => "set v=1",
        "set_global v = 1" => "set_global v=1",
        "for i in [1]" => "for i in[1]",
        other => other,
    }
}

fn print_el(e: &El, d: &DSet, tight: bool, out: &mut String) {
    let pad = if tight { "" } else { " " };
    match *e {
        El::Text(t) => out.push_str(TEXTS[t as usize]),
        El::Expr { l, r } => {
            for s in [d.vs, dash(l), pad, "x", pad, dash(r), d.ve] {
                out.push_str(s);
            }
        }
        El::Tag { l, r, words, .. } => {
            let w = if tight { tight_words(words) } else { words };
            for s in [d.bs, dash(l), pad, w, pad, dash(r), d.be] {
                out.push_str(s);
            }
        }
        El::Comment { l, r, body } => {
            for s in [d.cs, dash(l), body, dash(r), d.ce] {
                out.push_str(s);
            }
        }
        El::Raw { ol, il, ir, or, body } => {
            for s in [d.bs, dash(ol), pad, "raw", pad, dash(il), d.be, body, d.bs, dash(ir), pad, "endraw", pad, dash(or), d.be] {
                out.push_str(s);
            }
        }
        El::PrintCap => {
            for s in [d.vs, pad, "cap", pad, d.ve] {
                out.push_str(s);
            }
        }
    }
}

fn print(els: &[El], d: &DSet, tight: bool) -> String {
    let mut s = String::with_capacity(96);
    for e in els {
        print_el(e, d, tight, &mut s);
    }
    s
}

fn describe_el(e: &El) -> String {
    match *e {
        El::Text(t) => format!("Text({:?})", TEXTS[t as usize]),
        El::Expr { l, r } => format!("Expr(left={:?}, right={:?})", dash(l), dash(r)),
        El::Tag { l, r, words, .. } => format!("Tag({words:?}, left={:?}, right={:?})", dash(l), dash(r)),
        El::Comment { l, r, body } => format!("Comment(body={body:?}, left={:?}, right={:?})", dash(l), dash(r)),
        El::Raw { ol, il, ir, or, body } => format!(
            "Raw(body={body:?}, outer-left={:?}, inner-left={:?}, inner-right={:?}, outer-right={:?})",
            dash(ol),
            dash(il),
            dash(ir),
            dash(or)
        ),
        El::PrintCap => "PrintCaptured".to_string(),
    }
}

/// Which start delimiter an element begins with (0 variable, 1 block, 2 comment).
fn start_kind(e: &El) -> Option<usize> {
    match e {
        El::Text(_) => None,
        El::Expr { .. } | El::PrintCap => Some(0),
        El::Tag { .. } | El::Raw { .. } => Some(1),
        El::Comment { .. } => Some(2),
    }
}

// ------------------------------------------------------------------------------------------------
// reference printer (the oracle)
// ------------------------------------------------------------------------------------------------

/// What a comment's spelling means according to the docs (`{#-` ... `-#}`): a `-` right after the
/// start delimiter is the left marker, a `-` right before the end delimiter is the right marker.
/// `{#-#}` has one dash that is both: genuinely ambiguous -> None.
fn comment_reading(l: bool, r: bool, body: &str) -> Option<(bool, bool)> {
    let len = l as usize + body.len() + r as usize;
    let starts = l || body.starts_with('-') || (body.is_empty() && r);
    let ends = r || body.ends_with('-') || (body.is_empty() && l);
    if len == 1 && starts {
        return None;
    }
    Some((starts, ends))
}

#[derive(Clone, Copy, PartialEq, Eq, Debug)]
struct Reading {
    /// is U+00A0 whitespace? The docs only say "whitespace": the class is read off the engine once,
    /// at one canonical site (`Judge::new`), and every other trimming site must then agree with it.
    nbsp_ws: bool,
    /// `{#-#}` read as a left marker (true) or as a right marker (false)
    ambig_left: bool,
    /// the F-ws defect model: a comment without `-#}` hands the pending right-trim on
    leaky: bool,
}

/// The Unicode White_Space set written out (what `-` removes in the engine as of this tree), or the
/// same without U+00A0... the alphabets only contain ' ', '\n', '\t' and U+00A0.
fn is_ws(c: char, nbsp_ws: bool) -> bool {
    match c {
        '\u{9}'..='\u{d}' | ' ' | '\u{85}' | '\u{1680}' | '\u{2000}'..='\u{200a}' | '\u{2028}' | '\u{2029}'
        | '\u{202f}' | '\u{205f}' | '\u{3000}' => true,
        '\u{a0}' => nbsp_ws,
        _ => false,
    }
}

fn cut_start(s: &str, nbsp_ws: bool) -> &str {
    for (i, c) in s.char_indices() {
        if !is_ws(c, nbsp_ws) {
            return &s[i..];
        }
    }
    ""
}

fn cut_end(s: &str, nbsp_ws: bool) -> &str {
    for (i, c) in s.char_indices().rev() {
        if !is_ws(c, nbsp_ws) {
            return &s[..i + c.len_utf8()];
        }
    }
    ""
}

fn markers(e: &El, rd: Reading) -> (bool, bool) {
    match *e {
        El::Text(_) | El::PrintCap => (false, false),
        El::Expr { l, r } | El::Tag { l, r, .. } => (l, r),
        El::Comment { l, r, body } => match comment_reading(l, r, body) {
            Some(x) => x,
            None => (rd.ambig_left, !rd.ambig_left),
        },
        El::Raw { ol, or, .. } => (ol, or),
    }
}

/// Expected output of an element list, and the number of bytes removed by markers.
fn reference(els: &[El], rd: Reading) -> (String, usize) {
    // source order: an empty text does not exist in the source
    let mut src: [Option<&El>; 24] = [None; 24];
    let mut lit: [Option<&str>; 24] = [None; 24];
    let mut n = 0;
    let mut removed = 0usize;
    for e in els {
        match *e {
            El::Text(0) => continue,
            El::Text(t) => lit[n] = Some(TEXTS[t as usize]),
            El::Raw { il, ir, body, .. } => {
                let mut b = body;
                if il {
                    b = cut_start(b, rd.nbsp_ws);
                }
                if ir {
                    b = cut_end(b, rd.nbsp_ws);
                }
                removed += body.len() - b.len();
                lit[n] = Some(b);
            }
            _ => {}
        }
        src[n] = Some(e);
        n += 1;
    }
    for i in 0..n {
        let (l, r) = markers(src[i].unwrap(), rd);
        if l && i > 0 {
            if let Some(s) = lit[i - 1] {
                let t = cut_end(s, rd.nbsp_ws);
                removed += s.len() - t.len();
                lit[i - 1] = Some(t);
            }
        }
        if r {
            let mut j = i + 1;
            if rd.leaky {
                while j < n && matches!(src[j].unwrap(), El::Comment { .. }) && !markers(src[j].unwrap(), rd).1 {
                    j += 1;
                }
            }
            if j < n {
                if let Some(s) = lit[j] {
                    let t = cut_start(s, rd.nbsp_ws);
                    removed += s.len() - t.len();
                    lit[j] = Some(t);
                }
            }
        }
    }
    // emit, with the one capture the space contains
    let mut out = String::with_capacity(64);
    let mut cap = String::new();
    let mut capturing = false;
    let mut dead = 0u32;
    for i in 0..n {
        let piece: &str = match *src[i].unwrap() {
            El::Text(_) | El::Raw { .. } => lit[i].unwrap(),
            El::Expr { .. } => "1",
            El::Comment { .. } => "",
            El::Tag { eff, .. } => {
                match eff {
                    Eff::Neutral => {}
                    Eff::CapOpen => capturing = true,
                    Eff::CapClose => capturing = false,
                    Eff::DeadOpen => dead += 1,
                    Eff::DeadClose => dead = dead.saturating_sub(1),
                }
                ""
            }
            El::PrintCap => {
                let c = std::mem::take(&mut cap);
                out.push_str(&c);
                cap = c;
                ""
            }
        };
        if dead > 0 {
            continue;
        }
        if capturing {
            cap.push_str(piece);
        } else {
            out.push_str(piece);
        }
    }
    (out, removed)
}

// ------------------------------------------------------------------------------------------------
// pieces: paired tag kinds, sequence alphabets
// ------------------------------------------------------------------------------------------------

#[derive(Clone, Copy, Debug, PartialEq, Eq)]
enum Kind {
    If,
    For,
    Filter,
    /// `{% if false %}{% else %}` ... `{% endif %}`: left marker on the `if`, right marker on the `else`
    ElseBranch,
    /// `{% set cap %}` ... `{% endset %}` + `{{ cap }}` at the very end of the template
    SetBlock,
    /// only through add_raw_template + render (render_str refuses blocks)
    Block,
    /// `{% if false %}` ... `{% endif %}`: the branch is not taken
    DeadIf,
}
const PAIR_KINDS: [Kind; 7] = [Kind::If, Kind::For, Kind::Filter, Kind::ElseBranch, Kind::SetBlock, Kind::Block, Kind::DeadIf];

fn tag(l: bool, r: bool, words: &'static str) -> El {
    El::Tag { l, r, words, eff: Eff::Neutral }
}

fn open_els(k: Kind, l: bool, r: bool, out: &mut Vec<El>) {
    match k {
        Kind::If => out.push(tag(l, r, "if true")),
        Kind::For => out.push(tag(l, r, "for i in [1]")),
        Kind::Filter => out.push(tag(l, r, "filter safe")),
        Kind::ElseBranch => {
            out.push(tag(l, false, "if false"));
            out.push(tag(false, r, "else"));
        }
        Kind::SetBlock => out.push(El::Tag { l, r, words: "set cap", eff: Eff::CapOpen }),
        Kind::Block => out.push(tag(l, r, "block b")),
        Kind::DeadIf => out.push(El::Tag { l, r, words: "if false", eff: Eff::DeadOpen }),
    }
}

fn close_els(k: Kind, l: bool, r: bool, out: &mut Vec<El>) {
    match k {
        Kind::If | Kind::ElseBranch => out.push(tag(l, r, "endif")),
        Kind::For => out.push(tag(l, r, "endfor")),
        Kind::Filter => out.push(tag(l, r, "endfilter")),
        Kind::SetBlock => out.push(El::Tag { l, r, words: "endset", eff: Eff::CapClose }),
        Kind::Block => out.push(tag(l, r, "endblock")),
        Kind::DeadIf => out.push(El::Tag { l, r, words: "endif", eff: Eff::DeadClose }),
    }
}

/// One piece of a sequence.
#[derive(Clone, Copy, Debug)]
enum SP {
    Expr(bool, bool),
    Set(bool, bool),
    Open(Kind, bool, bool),
    /// closes the innermost open tag; if there is none, a plain `{% if true %}` is put in front of
    /// the whole template
    Close(bool, bool),
    Comment(bool, bool),
    Raw(bool, bool, bool, bool, &'static str),
}

fn describe_sp(p: &SP) -> String {
    format!("{p:?}")
}

fn seq_alphabet(kinds: &[Kind]) -> Vec<SP> {
    let mut v = vec![];
    let flags = [(false, false), (true, false), (false, true), (true, true)];
    for (l, r) in flags {
        v.push(SP::Expr(l, r));
    }
    for (l, r) in flags {
        v.push(SP::Set(l, r));
    }
    for k in kinds {
        for (l, r) in flags {
            v.push(SP::Open(*k, l, r));
        }
    }
    for (l, r) in flags {
        v.push(SP::Close(l, r));
    }
    for (l, r) in flags {
        v.push(SP::Comment(l, r));
    }
    for body in SEQ_RAW_BODIES {
        for f in 0..16u8 {
            v.push(SP::Raw(f & 1 != 0, f & 2 != 0, f & 4 != 0, f & 8 != 0, body));
        }
    }
    v
}

/// A template skeleton: `groups[0] T groups[1] T ... T groups[k]` where every group is a run of
/// delimited elements and a text goes into every gap.
struct Skeleton {
    groups: Vec<Vec<El>>,
}

impl Skeleton {
    fn fill(&self, texts: &[u8], out: &mut Vec<El>) {
        out.clear();
        for (i, g) in self.groups.iter().enumerate() {
            if i > 0 {
                out.push(El::Text(texts[i - 1]));
            }
            out.extend_from_slice(g);
        }
    }
}

/// T0 p1 T1 p2 ... pk Tk, completed to a well-nested template by plain tags at the two far ends.
fn realize(seq: &[SP]) -> Skeleton {
    let mut prefix: Vec<El> = vec![];
    let mut mids: Vec<Vec<El>> = vec![];
    let mut stack: Vec<Kind> = vec![];
    for p in seq {
        let mut g = vec![];
        match *p {
            SP::Expr(l, r) => g.push(El::Expr { l, r }),
            SP::Set(l, r) => g.push(tag(l, r, "set v = 1")),
            SP::Open(k, l, r) => {
                stack.push(k);
                open_els(k, l, r, &mut g);
            }
            SP::Close(l, r) => {
                let k = stack.pop().unwrap_or_else(|| {
                    open_els(Kind::If, false, false, &mut prefix);
                    Kind::If
                });
                close_els(k, l, r, &mut g);
            }
            SP::Comment(l, r) => g.push(El::Comment { l, r, body: SEQ_COMMENT_BODY }),
            SP::Raw(ol, il, ir, or, body) => g.push(El::Raw { ol, il, ir, or, body }),
        }
        mids.push(g);
    }
    let mut suffix = vec![];
    while let Some(k) = stack.pop() {
        close_els(k, false, false, &mut suffix);
    }
    // groups: prefix | mids[0] , mids[1], ..., mids[k-1] | suffix  with texts T0..Tk in the k+1 gaps
    let mut groups = vec![prefix];
    for m in mids {
        groups.push(m);
    }
    groups.push(suffix);
    // the first gap is between groups[0] (prefix) and groups[1] (p1): k+2 groups, k+1 gaps — as wanted
    Skeleton { groups }
}

struct Single {
    name: String,
    skel: Skeleton, // 3 groups: prefix, core, suffix -> 2 gaps
    add_only: bool,
}

fn single_pieces() -> Vec<Single> {
    let flags = [(false, false), (true, false), (false, true), (true, true)];
    let mut v = vec![];
    let mut push = |name: String, prefix: Vec<El>, core: Vec<El>, suffix: Vec<El>, add_only: bool| {
        v.push(Single { name, skel: Skeleton { groups: vec![prefix, core, suffix] }, add_only });
    };
    for (l, r) in flags {
        push(format!("expr({},{})", dash(l), dash(r)), vec![], vec![El::Expr { l, r }], vec![], false);
    }
    for words in ["set v = 1", "set_global v = 1"] {
        for (l, r) in flags {
            push(format!("tag[{words}]({},{})", dash(l), dash(r)), vec![], vec![tag(l, r, words)], vec![], false);
        }
    }
    for k in PAIR_KINDS {
        let tail = if k == Kind::SetBlock { vec![El::PrintCap] } else { vec![] };
        for (l, r) in flags {
            // the opening half carries the flags, closed by a plain tag after the second text
            let mut core = vec![];
            open_els(k, l, r, &mut core);
            let mut suffix = vec![];
            close_els(k, false, false, &mut suffix);
            suffix.extend_from_slice(&tail);
            push(format!("open[{k:?}]({},{})", dash(l), dash(r)), vec![], core, suffix, k == Kind::Block);
            // the closing half carries the flags, opened by a plain tag before the first text
            let mut prefix = vec![];
            open_els(k, false, false, &mut prefix);
            let mut core = vec![];
            close_els(k, l, r, &mut core);
            push(format!("close[{k:?}]({},{})", dash(l), dash(r)), prefix, core, tail.clone(), k == Kind::Block);
        }
    }
    // comments: distinct spellings only (e.g. body "-" without markers and an empty body with one
    // marker are the same source text)
    let mut seen: Vec<String> = vec![];
    for body in COMMENT_BODIES {
        for (l, r) in flags {
            let inner = format!("{}{}{}", dash(l), body, dash(r));
            if seen.contains(&inner) {
                continue;
            }
            seen.push(inner.clone());
            push(format!("comment[{inner:?}]"), vec![], vec![El::Comment { l, r, body }], vec![], false);
        }
    }
    for body in RAW_BODIES {
        for f in 0..16u8 {
            let (ol, il, ir, or) = (f & 1 != 0, f & 2 != 0, f & 4 != 0, f & 8 != 0);
            push(
                format!("raw[{body:?}]({},{},{},{})", dash(ol), dash(il), dash(ir), dash(or)),
                vec![],
                vec![El::Raw { ol, il, ir, or, body }],
                vec![],
                false,
            );
        }
    }
    v
}

// ------------------------------------------------------------------------------------------------
// judge
// ------------------------------------------------------------------------------------------------

#[derive(Clone, Copy, PartialEq, Eq)]
enum Entry {
    Str,
    Add,
    Both,
}

struct Judge {
    teras: Vec<tera::Tera>,
    ctx: tera::Context,
    /// junction[d][text][start kind]: text directly followed by that start delimiter would be read
    /// with a tag starting *inside* the text (e.g. "{" + "{%" = "{{%")
    junction: Vec<Vec<[bool; 3]>>,
    /// text_delims[text]: bit d set = the text contains one of the six delimiters of set d
    text_delims: Vec<u8>,
    /// the reading every case is judged by: whitespace class as probed, `{#-#}` as a left marker
    primary: Reading,
    probe: String,
}

fn delim_mask(s: &str) -> u8 {
    let mut m = 0;
    for (i, d) in DSETS.iter().enumerate() {
        if d.all().iter().any(|x| s.contains(x)) {
            m |= 1 << i;
        }
    }
    m
}

impl Judge {
    fn new() -> Judge {
        let teras: Vec<tera::Tera> = DSETS
            .iter()
            .map(|d| {
                let mut t = tera::Tera::default();
                t.set_delimiters(d.to_tera()).expect("delimiter set is accepted");
                t
            })
            .collect();
        let junction = DSETS
            .iter()
            .map(|d| {
                TEXTS
                    .iter()
                    .map(|t| {
                        let mut a = [false; 3];
                        for (k, sd) in d.starts().iter().enumerate() {
                            let joined = format!("{t}{sd}");
                            a[k] = d.first_start(&joined) != Some(t.len());
                        }
                        a
                    })
                    .collect()
            })
            .collect();
        let ctx = vals::context(&[("x", &V::I64(1))]);
        // The one point the docs leave open — is U+00A0 "whitespace"? — is read off the engine at the
        // canonical site (text after `-}}`, default delimiters). Deterministic, so workers agree.
        let probe = engine::render_str(&teras[0], "{{ x -}}\u{a0}y", &ctx, false);
        let nbsp_ws = match probe.ok() {
            Some("1y") => true,
            Some("1\u{a0}y") => false,
            _ => true, // broken beyond this question: the cases themselves will report it
        };
        Judge {
            teras,
            ctx,
            junction,
            text_delims: TEXTS.iter().map(|t| delim_mask(t)).collect(),
            primary: Reading { nbsp_ws, ambig_left: true, leaky: false },
            probe: probe.show(),
        }
    }

    fn render(&self, d: usize, src: &str, entry: Entry) -> Out {
        match entry {
            Entry::Str | Entry::Both => engine::render_str(&self.teras[d], src, &self.ctx, false),
            Entry::Add => {
                let mut t = self.teras[d].clone();
                match engine::add_templates(&mut t, &[("t".to_string(), src.to_string())]) {
                    Out::Ok(_) => {
                        let out = engine::render(&t, "t", &self.ctx);
                        // "written to the output byte-for-byte": also into a writer that takes ONE
                        // byte per call (a legal short write; seeded change C08-8 wrote literal
                        // text with `write` instead of `write_all`)
                        struct OneByte(Vec<u8>);
                        impl std::io::Write for OneByte {
                            fn write(&mut self, buf: &[u8]) -> std::io::Result<usize> {
                                match buf.first() {
                                    Some(b) => {
                                        self.0.push(*b);
                                        Ok(1)
                                    }
                                    None => Ok(0),
                                }
                            }
                            fn flush(&mut self) -> std::io::Result<()> {
                                Ok(())
                            }
                        }
                        let mut w = OneByte(vec![]);
                        let wr = engine::guarded(|| t.render_to("t", &self.ctx, &mut w));
                        // the same template reached through an include, from a page that has a block
                        // of the name the pairs family uses: its text is still its own (seeded change
                        // C08-10 resolved the blocks of an included template in the including one)
                        if let Out::Ok(text) = &out {
                            let ds = &DSETS[d];
                            let page = format!(
                                "{bs} block b {be}PAGE{bs} endblock {be}|{bs} include \"t\" {be}",
                                bs = ds.bs,
                                be = ds.be
                            );
                            let included = match engine::add_templates(&mut t, &[("page".to_string(), page)]) {
                                Out::Ok(_) => engine::render(&t, "page", &self.ctx),
                                other => other,
                            };
                            let want = format!("PAGE|{text}");
                            if !matches!(&included, Out::Ok(s) if *s == want) {
                                return Out::Err(
                                    "IncludeMismatch".into(),
                                    format!("render gives {}, a page `[block b]PAGE[endblock]|[include t]` gives {} instead of {want:?}", out.show(), included.show()),
                                );
                            }
                        }
                        // the same element list as the body of a component - defined in a template of
                        // its own, and in a template that also extends another one (whose top-level
                        // text is never rendered, but whose components are: seeded change C08-11
                        // dropped the literal text of such components) - and called from a page
                        if let Out::Ok(text) = &out {
                            let ds = &DSETS[d];
                            for (lib, head) in [("lib0", String::new()), ("lib1", format!("{} extends \"t\" {}", ds.bs, ds.be))] {
                                let lib_src = format!("{head}{bs} component C(x=1) {be}{src}{bs} endcomponent C {be}", bs = ds.bs, be = ds.be);
                                let page = format!("{} <C/> {}", ds.vs, ds.ve);
                                let mut t2 = t.clone();
                                match engine::add_templates(&mut t2, &[(lib.to_string(), lib_src.clone()), ("cpage".to_string(), page)]) {
                                    Out::Ok(_) => {
                                        let got = engine::render(&t2, "cpage", &self.ctx);
                                        if !matches!(&got, Out::Ok(s) if s == text) {
                                            return Out::Err(
                                                "ComponentBodyMismatch".into(),
                                                format!("render gives {}, the same source as the body of a component ({lib}: `{lib_src}`) called from a page gives {}", out.show(), got.show()),
                                            );
                                        }
                                    }
                                    // constructs a component body cannot hold (blocks): not this check's business
                                    _ => {}
                                }
                            }
                        }
                        match (&out, wr) {
                            (Out::Ok(text), Ok(Ok(()))) if w.0 == text.as_bytes() => out,
                            (Out::Err(..), Ok(Err(_))) => out,
                            (_, other) => Out::Err(
                                "WriterMismatch".into(),
                                format!(
                                    "render gives {}, render_to into a one-byte-per-call writer {} and wrote {:?}",
                                    out.show(),
                                    match other { Ok(Ok(())) => "returns Ok".to_string(), Ok(Err(e)) => format!("returns Err({})", engine::kind_tag(e.kind())), Err(p) => format!("panics ({p})") },
                                    String::from_utf8_lossy(&w.0)
                                ),
                            ),
                        }
                    }
                    other => other,
                }
            }
        }
    }

    /// Renders one element list under every requested delimiter set and judges every output.
    fn check(&self, acc: &mut Acc, fam: &str, els: &[El], tight: bool, dmask: u8, entry: Entry) {
        // ---- what the case contains
        let mut has_nbsp = false;
        let mut ambiguous_comment = false;
        let mut leak_shape = false;
        let mut special = false; // comment / raw / partial-delimiter text
        let mut lit_delims = 0u8;
        let mut prev_right = false;
        for e in els {
            match *e {
                El::Text(0) => continue,
                El::Text(t) => {
                    has_nbsp |= t == 8 || t == 9;
                    special |= t >= 10;
                    lit_delims |= self.text_delims[t as usize];
                }
                El::Comment { l, r, body } => {
                    special = true;
                    let rd = comment_reading(l, r, body);
                    ambiguous_comment |= rd.is_none();
                    if prev_right && matches!(rd, Some((_, false))) {
                        leak_shape = true;
                    }
                    if dmask != ONLY_D0 {
                        lit_delims |= delim_mask(body);
                    }
                }
                El::Raw { body, .. } => {
                    special = true;
                    has_nbsp |= body.contains('\u{a0}');
                    if dmask != ONLY_D0 {
                        lit_delims |= delim_mask(body);
                    }
                }
                _ => {}
            }
            // a comment without its own right marker keeps the predecessor's state in the defect model
            if !matches!(e, El::Comment { .. }) || markers(e, self.primary).1 {
                prev_right = markers(e, self.primary).1;
            }
        }
        let (exp, removed) = reference(els, self.primary);
        let nontrivial = removed > 0 || special;
        if leak_shape && reference(els, Reading { leaky: true, ..self.primary }).0 != exp {
            acc.count("cases-discriminating-F-ws", 1);
        }

        let mut outs: [Option<Out>; 4] = [None, None, None, None];
        for (di, d) in DSETS.iter().enumerate() {
            if dmask & (1 << di) == 0 {
                continue;
            }
            // a text that together with the following start delimiter spells an earlier start
            // delimiter is not a faithful print of the element list: outside the statement
            let mut ambiguous_junction = false;
            for w in els.windows(2) {
                if let (El::Text(t), Some(k)) = (w[0], start_kind(&w[1])) {
                    ambiguous_junction |= self.junction[di][t as usize][k];
                }
            }
            if ambiguous_junction {
                acc.count("skipped:text-plus-start-delimiter-spells-an-earlier-delimiter", 1);
                continue;
            }
            let src = print(els, d, tight);
            let entries: &[Entry] = match entry {
                Entry::Str => &[Entry::Str],
                Entry::Add => &[Entry::Add],
                Entry::Both => &[Entry::Str, Entry::Add],
            };
            for en in entries {
                let out = self.render(di, &src, *en);
                self.judge_one(acc, fam, els, d, tight, *en, &src, &out, &exp, nontrivial, removed > 0 && special, has_nbsp, ambiguous_comment);
                if *en == entries[0] {
                    outs[di] = Some(out);
                } else if !same_out(outs[di].as_ref().unwrap(), &out) {
                    acc.violation(
                        "entrypoint-mismatch:render_str-vs-add+render",
                        format!(
                            "render_str gave {}, add_raw_template + render gave {}",
                            outs[di].as_ref().unwrap().show(),
                            out.show()
                        ),
                        || self.case_json(fam, els, d, tight, *en, &src, &exp, &out),
                    );
                }
            }
        }
        // ---- re-spelling invariance (only where no delimiter of either set occurs in a literal)
        for a in 0..DSETS.len() {
            for b in a + 1..DSETS.len() {
                if let (Some(oa), Some(ob)) = (&outs[a], &outs[b]) {
                    if lit_delims & (1 << a) != 0 || lit_delims & (1 << b) != 0 {
                        acc.count("respell-not-compared:literal-contains-a-delimiter", 1);
                        continue;
                    }
                    acc.count("respell-comparisons", 1);
                    if !same_out(oa, ob) {
                        acc.violation(
                            format!("respell-mismatch:{}/{}", DSETS[a].name, DSETS[b].name),
                            format!(
                                "the same element list renders {} under {} and {} under {}",
                                oa.show(),
                                DSETS[a].name,
                                ob.show(),
                                DSETS[b].name
                            ),
                            || {
                                json!({
                                    "family": fam,
                                    "pieces": els.iter().map(describe_el).collect::<Vec<_>>(),
                                    "spelling": if tight { "tight" } else { "padded" },
                                    "template_a": print(els, &DSETS[a], tight), "delimiters_a": DSETS[a].json(),
                                    "template_b": print(els, &DSETS[b], tight), "delimiters_b": DSETS[b].json(),
                                    "context": "x = I64(1)",
                                    "expected": exp,
                                })
                            },
                        );
                    }
                }
            }
        }
    }

    #[allow(clippy::too_many_arguments)]
    fn case_json(&self, fam: &str, els: &[El], d: &DSet, tight: bool, en: Entry, src: &str, exp: &str, out: &Out) -> mccore::Json {
        json!({
            "family": fam,
            "template": src,
            "delimiters": d.json(),
            "spelling": if tight { "tight" } else { "padded" },
            "entry": if en == Entry::Add { "add_raw_template(\"t\") + render(\"t\")" } else { "render_str(autoescape = false)" },
            "context": "x = I64(1)",
            "pieces": els.iter().map(describe_el).collect::<Vec<_>>(),
            "expected": exp,
            "observed": out.show(),
        })
    }

    #[allow(clippy::too_many_arguments)]
    fn judge_one(
        &self,
        acc: &mut Acc,
        fam: &str,
        els: &[El],
        d: &DSet,
        tight: bool,
        en: Entry,
        src: &str,
        out: &Out,
        exp: &str,
        nontrivial: bool,
        sample_worthy: bool,
        has_nbsp: bool,
        ambiguous_comment: bool,
    ) {
        let other_class = Reading { nbsp_ws: !self.primary.nbsp_ws, ..self.primary };
        if let Out::Ok(s) = out {
            if s == exp {
                if has_nbsp && reference(els, other_class).0 != exp {
                    acc.count("ws-class-discriminating-cases", 1);
                }
                if ambiguous_comment && reference(els, Reading { ambig_left: false, ..self.primary }).0 != exp {
                    acc.count("ambiguous-comment:read-as-left-marker", 1);
                }
                acc.case(nontrivial, "ok");
                if sample_worthy && acc.wants_sample() {
                    acc.sample(|| self.case_json(fam, els, d, tight, en, src, exp, out));
                }
                return;
            }
            // `{#-#}`: one dash in both marker positions; the right-marker reading is accepted too
            if ambiguous_comment && reference(els, Reading { ambig_left: false, ..self.primary }).0 == *s {
                acc.count("ambiguous-comment:read-as-right-marker", 1);
                acc.case(nontrivial, "ok");
                return;
            }
        }
        let kinds = {
            let mut k: Vec<&str> = els
                .iter()
                .filter_map(|e| match e {
                    El::Text(_) | El::PrintCap => None,
                    El::Expr { .. } => Some("expr"),
                    El::Tag { .. } => Some("tag"),
                    El::Comment { .. } => Some("comment"),
                    El::Raw { .. } => Some("raw"),
                })
                .collect();
            k.sort();
            k.dedup();
            k.join("+")
        };
        let (sig, msg) = match out {
            Out::Ok(s) => {
                if has_nbsp
                    && (reference(els, other_class).0 == *s
                        || (ambiguous_comment && reference(els, Reading { ambig_left: false, ..other_class }).0 == *s))
                {
                    (
                        format!("whitespace-class-inconsistent:{kinds}"),
                        format!(
                            "rendered {s:?}, expected {exp:?}: U+00A0 is {} here but {} after `-}}}}` (probe {})",
                            if self.primary.nbsp_ws { "kept" } else { "removed" },
                            if self.primary.nbsp_ws { "removed" } else { "kept" },
                            self.probe
                        ),
                    )
                } else if *s == reference(els, Reading { leaky: true, ..self.primary }).0 {
                    (
                        "trim-leaks-through-comment".to_string(),
                        format!(
                            "rendered {s:?}, expected {exp:?}: the `-` of the delimiter before the comment removed whitespace of the text after the comment"
                        ),
                    )
                } else {
                    (format!("output-mismatch:{kinds}"), format!("rendered {s:?}, expected {exp:?}"))
                }
            }
            Out::Err(k, m) => (format!("render-error:{k}:{kinds}"), format!("a valid template was refused: {m}; expected {exp:?}")),
            Out::Panic(m) => (format!("panic:{kinds}"), format!("panic: {m}")),
        };
        acc.case(nontrivial, match out {
            Out::Ok(_) => "ok-but-wrong-output",
            Out::Err(..) => "err",
            Out::Panic(_) => "panic",
        });
        acc.violation(sig, msg, || self.case_json(fam, els, d, tight, en, src, exp, out));
    }
}

/// Equality of two observations: same text, or errors of the same kind (messages may name delimiters).
fn same_out(a: &Out, b: &Out) -> bool {
    match (a, b) {
        (Out::Ok(x), Out::Ok(y)) => x == y,
        (Out::Err(k1, _), Out::Err(k2, _)) => k1 == k2,
        (Out::Panic(_), Out::Panic(_)) => true,
        _ => false,
    }
}

/// Calls `f` with every tuple of `n` digits over `alphabet`.
fn tuples(alphabet: &[u8], n: usize, mut f: impl FnMut(&[u8])) {
    let mut idx = vec![0usize; n];
    let mut cur: Vec<u8> = vec![alphabet[0]; n];
    loop {
        f(&cur);
        let mut p = n;
        loop {
            if p == 0 {
                return;
            }
            p -= 1;
            idx[p] += 1;
            if idx[p] < alphabet.len() {
                cur[p] = alphabet[idx[p]];
                break;
            }
            idx[p] = 0;
            cur[p] = alphabet[0];
        }
    }
}

fn main() {
    let mut run = Run::from_env("C08", "exploration");
    let thorough = run.tier.is_thorough();
    run.rule(
        "A case is one element list (texts alternating with expressions / tags / comments / raw blocks, every `-` \
         marker independent) printed under one delimiter set and one spelling (padded `{%- if true -%}` or tight \
         `{%-if true-%}`) and rendered through one entry point; the identity family's case is one string under one \
         delimiter set. Cases are distinct by construction (mixed-radix decoding of the item index; comment spellings \
         that coincide are kept once). Non-trivial = a marker actually removes at least one byte in the expected \
         output, or the list contains a comment, a raw block or a text holding a partial delimiter / multi-byte \
         look-alike; for identity: the string is non-empty. Lists whose printed form is not faithful (a text such as \
         `{` directly followed by a start delimiter spells an earlier `{{`) and strings containing a start delimiter \
         are outside the statement: they are counted under `skipped:*` and not executed.",
    );
    run.assume(
        "the docs say only \"whitespace\": whether U+00A0 belongs to it is read off the engine once (`{{ x -}}\\u{a0}y`, \
         see whitespace_class_probe; this tree: Unicode White_Space, U+00A0 removed) and every other trimming site (text \
         start / end, raw body start / end through inner and outer markers, every delimiter set) must use the same class",
    );
    run.assume(
        "`-` directly next to a raw block acts on the raw body when nothing lies between (property statement: \"a raw \
         block's body counts as literal text here\"); the spelling `{#-#}` is ambiguous (one dash, both positions): \
         reading it as a left or as a right marker is accepted",
    );
    run.assume(
        "paired tags are semantically neutral (`if true`, `for i in [1]`, `filter safe`, `if false`/`else`, `block b`); \
         the set-block pair captures and `{{ cap }}` is appended at the very end; expression = `{{ x }}` with x = 1; \
         custom delimiter sets D1, D2 stand for \"any accepted set\"; texts are bounded by the alphabets in `alphabets`",
    );

    let j = Judge::new();
    run.extra(
        "whitespace_class_probe",
        json!({"template": "{{ x -}}\u{a0}y", "observed": j.probe, "U+00A0_is_whitespace": j.primary.nbsp_ws}),
    );
    run.extra(
        "alphabets",
        json!({
            "delimiter_sets": DSETS.iter().map(|d| d.json()).collect::<Vec<_>>(),
            "texts": TEXTS,
            "sequence_texts": SUB5.iter().map(|t| TEXTS[*t as usize]).collect::<Vec<_>>(),
            "comment_bodies": COMMENT_BODIES,
            "raw_bodies": RAW_BODIES,
            "sequence_comment_body": SEQ_COMMENT_BODY,
            "sequence_raw_bodies": SEQ_RAW_BODIES,
            "identity_characters": CHARS28,
            "paired_tag_kinds": PAIR_KINDS.iter().map(|k| format!("{k:?}")).collect::<Vec<_>>(),
            "spellings": ["padded", "tight"],
        }),
    );

    // ---------------------------------------------------------------- identity
    let maxlen: usize = if thorough { 5 } else { 4 };
    let n2 = (CHARS28.len() * CHARS28.len()) as u64;
    run.family(
        Family::new(
            "identity",
            n2 + 1,
            &format!("every string of length 0..={maxlen} over the 28-character alphabet, under D0, D1, D2, D3"),
        ),
        |item, acc: &mut Acc| {
            let one = |s: &str, acc: &mut Acc| {
                for (di, d) in DSETS.iter().enumerate() {
                    if d.first_start(s).is_some() {
                        acc.count("skipped:string-contains-a-start-delimiter", 1);
                        continue;
                    }
                    let out = engine::render_str(&j.teras[di], s, &j.ctx, false);
                    acc.case(!s.is_empty(), out.class());
                    if out.ok() != Some(s) {
                        let what = match &out {
                            Out::Ok(_) => "identity-mismatch",
                            Out::Err(..) => "identity-error",
                            Out::Panic(_) => "identity-panic",
                        };
                        acc.violation(
                            format!("{what}:{}", d.name),
                            format!("a source without start delimiter must render to itself; got {}", out.show()),
                            || json!({"family": "identity", "template": s, "delimiters": d.json(), "entry": "render_str(autoescape = false)", "context": "x = I64(1)", "expected": s, "observed": out.show()}),
                        );
                    } else if s.len() == 4 && acc.wants_sample() {
                        acc.sample(|| json!({"template": s, "delimiters": d.name, "observed": out.show()}));
                    }
                }
            };
            if item == n2 {
                one("", acc);
                for c in CHARS28 {
                    one(c, acc);
                }
                return;
            }
            let mut s = String::new();
            s.push_str(CHARS28[(item / 28) as usize]);
            s.push_str(CHARS28[(item % 28) as usize]);
            let base = s.len();
            let all: Vec<u8> = (0..28u8).collect();
            for extra in 0..=(maxlen - 2) {
                if extra == 0 {
                    one(&s, acc);
                    continue;
                }
                tuples(&all, extra, |t| {
                    s.truncate(base);
                    for c in t {
                        s.push_str(CHARS28[*c as usize]);
                    }
                    one(&s, acc);
                });
            }
        },
    );

    // ---------------------------------------------------------------- singles
    let singles = single_pieces();
    let all_texts: Vec<u8> = (0..TEXTS.len() as u8).collect();
    run.extra("single_pieces", json!(singles.len()));
    run.family(
        Family::new(
            "singles",
            singles.len() as u64,
            &format!(
                "Text · piece · Text for all {}^2 texts x {} pieces (4 expr, 8 standalone tags, {} paired-tag halves, distinct comment spellings, {} raws) x 3 delimiter sets x 2 spellings x 2 entry points",
                TEXTS.len(),
                singles.len(),
                PAIR_KINDS.len() * 8,
                RAW_BODIES.len() * 16
            ),
        )
        .describe(|i| json!({"family": "singles", "piece": singles[i as usize].name})),
        |item, acc: &mut Acc| {
            let p = &singles[item as usize];
            let mut els = Vec::with_capacity(8);
            tuples(&all_texts, 2, |t| {
                p.skel.fill(t, &mut els);
                for tight in [false, true] {
                    j.check(acc, "singles", &els, tight, ALL_D, if p.add_only { Entry::Add } else { Entry::Both });
                }
            });
        },
    );

    // ---------------------------------------------------------------- pairs
    let nt = TEXTS.len() as u64;
    let pair_spellings: &[bool] = if thorough { &[false, true] } else { &[false] };
    run.family(
        Family::new(
            "pairs",
            PAIR_KINDS.len() as u64 * 16 * nt,
            &format!(
                "Text · open(l,r) · Text · close(l,r) · Text for {} paired tag kinds x 16 flag combinations x {}^3 texts x 3 delimiter sets x {}",
                PAIR_KINDS.len(),
                TEXTS.len(),
                if thorough { "2 spellings" } else { "padded spelling" }
            ),
        ),
        |item, acc: &mut Acc| {
            let t0 = (item % nt) as u8;
            let f = (item / nt) % 16;
            let k = PAIR_KINDS[(item / nt / 16) as usize];
            let mut open = vec![];
            open_els(k, f & 1 != 0, f & 2 != 0, &mut open);
            let mut close = vec![];
            close_els(k, f & 4 != 0, f & 8 != 0, &mut close);
            let mut groups = vec![vec![], open, close];
            groups.push(if k == Kind::SetBlock { vec![El::PrintCap] } else { vec![] });
            let skel = Skeleton { groups };
            let mut els = Vec::with_capacity(8);
            tuples(&all_texts, 2, |t| {
                skel.fill(&[t0, t[0], t[1]], &mut els);
                for tight in pair_spellings.iter().copied() {
                    j.check(acc, "pairs", &els, tight, ALL_D, if k == Kind::Block { Entry::Add } else { Entry::Str });
                }
            });
        },
    );

    // ---------------------------------------------------------------- sequences
    let alpha2 = seq_alphabet(&[Kind::If, Kind::For, Kind::Filter, Kind::ElseBranch, Kind::DeadIf]);
    let alpha3 = seq_alphabet(&[Kind::If, Kind::DeadIf]);
    run.extra(
        "sequence_pieces",
        json!({"k2": alpha2.len(), "k3": alpha3.len(), "k3_list": alpha3.iter().map(describe_sp).collect::<Vec<_>>()}),
    );
    let n2p = alpha2.len() as u64;
    let seq2_texts: &[u8] = if thorough { &SUB8 } else { &SUB5 };
    run.family(
        Family::new(
            "seq2",
            n2p * n2p,
            &format!(
                "k = 2: all {}^2 ordered piece pairs x {}^3 texts x 3 delimiter sets x 2 spellings",
                alpha2.len(),
                seq2_texts.len()
            ),
        )
        .describe(|i| json!({"family": "seq2", "pieces": [describe_sp(&alpha2[(i / n2p) as usize]), describe_sp(&alpha2[(i % n2p) as usize])]})),
        |item, acc: &mut Acc| {
            let skel = realize(&[alpha2[(item / n2p) as usize], alpha2[(item % n2p) as usize]]);
            let mut els = Vec::with_capacity(12);
            tuples(seq2_texts, 3, |t| {
                skel.fill(t, &mut els);
                for tight in [false, true] {
                    j.check(acc, "seq2", &els, tight, ALL_D, Entry::Str);
                }
            });
        },
    );

    let n3p = alpha3.len() as u64;
    let seq3_texts: &[u8] = if thorough { &SUB5 } else { &SUB2 };
    // thorough: the complete k = 3 space under the default delimiters first (the bound DESIGN asks
    // for), then the same space re-spelled under D1 and D2 as a separate family so that a loaded
    // machine still completes the first. Measured 3.7 us of CPU per case: 88 M cases = 20 s and
    // 176 M = 40 s on 16 free cores; the budgets only bound the wall time on an oversubscribed
    // machine (a capped family is reported as such, never as exhaustive).
    let seq3_fams: &[(&str, u8, &str, Option<f64>)] = if thorough {
        &[
            ("seq3", ONLY_D0, "default delimiters", Some(480.0)),
            ("seq3-respelled", 0b110, "delimiter sets D1 and D2", Some(240.0)),
        ]
    } else {
        &[("seq3", ONLY_D0, "default delimiters", None)]
    };
    for (name, dmask, dwords, budget) in seq3_fams.iter().copied() {
        let mut fam = Family::new(
            name,
            n3p * n3p * n3p,
            &format!(
                "k = 3: all {}^3 ordered piece triples x {}^4 texts {:?} x {dwords}, padded spelling",
                alpha3.len(),
                seq3_texts.len(),
                seq3_texts.iter().map(|t| TEXTS[*t as usize]).collect::<Vec<_>>(),
            ),
        )
        .describe(|i| {
            json!({"family": name, "pieces": [describe_sp(&alpha3[(i / n3p / n3p) as usize]), describe_sp(&alpha3[(i / n3p % n3p) as usize]), describe_sp(&alpha3[(i % n3p) as usize])]})
        });
        if let Some(b) = budget {
            fam = fam.budget(b);
        }
        run.family(fam, |item, acc: &mut Acc| {
            let skel = realize(&[
                alpha3[(item / n3p / n3p) as usize],
                alpha3[(item / n3p % n3p) as usize],
                alpha3[(item % n3p) as usize],
            ]);
            let mut els = Vec::with_capacity(16);
            tuples(seq3_texts, 4, |t| {
                skel.fill(t, &mut els);
                j.check(acc, name, &els, false, dmask, Entry::Str);
            });
        });
    }

    // ------------------------------------------------------------------ rejected delimiter sets
    // "under any ACCEPTED custom delimiter set": a set that set_delimiters refuses must not take
    // effect. Every way validate() refuses a set (each of the six delimiters one byte too short and
    // one too long, each pair of equal start delimiters), tried on an instance configured with
    // each valid set; afterwards the instance must render a battery - which contains the refused
    // set's delimiters as literal text and tags spelled in the set in force - exactly like an
    // instance that never saw the refused call. Also: set_delimiters after a template was added
    // must fail and change nothing.
    let bad_sets: Vec<(String, [&'static str; 6])> = {
        // [bs, be, vs, ve, cs, ce]
        let base: [&'static str; 6] = ["[%", "%]", "[[", "]]", "[#", "#]"];
        let mut v: Vec<(String, [&'static str; 6])> = vec![];
        let names = ["block_start", "block_end", "variable_start", "variable_end", "comment_start", "comment_end"];
        let short: [&'static str; 6] = ["[", "]", "$", "]", "~", "]"];
        let long: [&'static str; 6] = ["[[[", "]]]", "[[[", "]]]", "[##", "##]"];
        for k in 0..6 {
            let mut s = base;
            s[k] = short[k];
            v.push((format!("{}-one-byte", names[k]), s));
            let mut l = base;
            l[k] = long[k];
            v.push((format!("{}-three-bytes", names[k]), l));
        }
        v.push(("block_start=variable_start".into(), ["[[", "%]", "[[", "]]", "[#", "#]"]));
        v.push(("block_start=comment_start".into(), ["[#", "%]", "[[", "]]", "[#", "#]"]));
        v.push(("variable_start=comment_start".into(), ["[%", "%]", "[#", "]]", "[#", "#]"]));
        // sets that would lex ordinary text if they took effect
        v.push(("letters-block_start-one-byte".into(), ["a", " b", "x ", " y", "c ", " d"]));
        v
    };
    let n_bad = bad_sets.len() as u64;
    run.extra("refused_delimiter_sets", json!(bad_sets.iter().map(|(n, s)| json!({"name": n, "set": s})).collect::<Vec<_>>()));
    run.family(
        Family::new(
            "rejected-delimiters",
            n_bad * DSETS.len() as u64,
            &format!("{n_bad} delimiter sets validate() refuses x {} valid sets in force: after the refused call (on an empty instance, and on one holding a template, where any set_delimiters call must fail) a battery of sources spelled in the set in force, with the refused set's delimiters as literal text, renders as on an instance that never saw the call; both entry points", DSETS.len()),
        ),
        |item, acc: &mut Acc| {
            let (bi, di) = ((item / DSETS.len() as u64) as usize, (item % DSETS.len() as u64) as usize);
            let (bname, bad) = &bad_sets[bi];
            let d = &DSETS[di];
            let bad_tera = || tera::Delimiters {
                block_start: bad[0].into(),
                block_end: bad[1].into(),
                variable_start: bad[2].into(),
                variable_end: bad[3].into(),
                comment_start: bad[4].into(),
                comment_end: bad[5].into(),
            };
            // battery: tags of the set in force; literal text made of the refused set's delimiters
            let mut battery: Vec<String> = vec![
                format!("{} if true {}yes{} endif {}", d.bs, d.be, d.bs, d.be),
                format!("a {}- x -{} b", d.vs, d.ve),
                format!("[{} c {}]", d.cs, d.ce),
                format!("{} raw {}{} x {}{} endraw {}", d.bs, d.be, bad[2], bad[3], d.bs, d.be),
                "plain text a b x y c d".to_string(),
            ];
            for k in 0..3 {
                // refused start / end pair around a word, as literal text
                battery.push(format!("t{} x {}u", bad[2 * k], bad[2 * k + 1]));
                battery.push(format!("{} if true {}{}{} endif {}", d.bs, d.be, bad[2 * k], d.bs, d.be));
            }
            // the battery must not contain delimiters of the set in force by accident
            let usable = |s: &str, extra_ok: bool| extra_ok || !d.all().iter().any(|x| s.contains(x));
            let plain = &j.teras[di];
            for (variant, with_template) in [("empty-instance", false), ("instance-with-template", true)] {
                let mut t = plain.clone();
                if with_template {
                    t.add_raw_template("keep", "K").expect("plain template registers");
                }
                let r = engine::guarded(|| t.set_delimiters(bad_tera()));
                let case = |src: &str| json!({"set_in_force": d.json(), "refused_set": {"name": bname, "set": bad}, "history": variant, "source": src});
                match r {
                    Ok(Err(_)) => {}
                    Ok(Ok(())) => {
                        acc.violation(format!("rejected-delimiters:accepted:{variant}"), format!("set_delimiters accepted the set `{bname}`"), || case(""));
                        continue;
                    }
                    Err(p) => {
                        acc.violation("rejected-delimiters:panic".to_string(), format!("set_delimiters panicked: {p}"), || case(""));
                        continue;
                    }
                }
                if with_template {
                    // a VALID set is refused too once templates exist, and must not take effect either
                    let other = DSETS[(di + 1) % DSETS.len()].to_tera_ref();
                    match engine::guarded(|| t.set_delimiters(other)) {
                        Ok(Err(_)) => {}
                        _ => acc.violation("rejected-delimiters:valid-set-accepted-after-templates".to_string(), "set_delimiters succeeded (or panicked) on an instance that holds templates".to_string(), || case("")),
                    }
                }
                for (bidx, src) in battery.iter().enumerate() {
                    // the first four sources contain delimiters of the set in force on purpose
                    if !usable(src, bidx < 4 || src.contains(d.bs)) {
                        acc.case(false, "rejected-delimiters:source-contains-a-delimiter-in-force");
                        continue;
                    }
                    let want = engine::render_str(plain, src, &j.ctx, false);
                    let got = engine::render_str(&t, src, &j.ctx, false);
                    let mut t2 = t.clone();
                    let got_add = match engine::add_templates(&mut t2, &[("zz".to_string(), src.clone())]) {
                        Out::Ok(_) => engine::render(&t2, "zz", &j.ctx),
                        other => other,
                    };
                    for (entry, g) in [("render_str", &got), ("add+render", &got_add)] {
                        if !same_out(g, &want) {
                            acc.violation(
                                format!("rejected-delimiters:took-effect:{entry}"),
                                format!("after the refused set_delimiters call {entry} gives {} where an untouched instance gives {}", g.show(), want.show()),
                                || case(src),
                            );
                        }
                    }
                    acc.case(true, &format!("rejected-delimiters:{variant}:{}", want.class()));
                }
            }
        },
    );

    if run.is_supervisor() {
        let id_ok = run.outcome("identity", "ok");
        let id_skipped = run.counter("skipped:string-contains-a-start-delimiter");
        run.guard(
            "identity-both-sides",
            id_ok > 1000 && id_skipped > 1000,
            format!("{id_ok} strings rendered, {id_skipped} (string, set) combinations skipped for containing a start delimiter"),
        );
        let disc = run.counter("cases-discriminating-F-ws");
        run.guard(
            "comment-after-right-marker-cases-exist",
            disc > 100,
            format!("{disc} cases where a trim leaking through a comment (F-ws) would change the output"),
        );
        let cmp = run.counter("respell-comparisons");
        run.guard("respelling-compared", cmp > 1000, format!("{cmp} pairwise output comparisons between delimiter sets"));
        let wsd = run.counter("ws-class-discriminating-cases");
        run.guard(
            "whitespace-class-discriminated",
            wsd > 100,
            format!("{wsd} cases put U+00A0 at an end that a `-` marker faces (text start / end, raw body start / end, inner and outer markers)"),
        );
        let (al, ar) = (
            run.counter("ambiguous-comment:read-as-left-marker"),
            run.counter("ambiguous-comment:read-as-right-marker"),
        );
        run.extra("ambiguous_comment_reading", json!({"as_left_marker": al, "as_right_marker": ar}));
        let ok_wrong = run.outcome_any("ok-but-wrong-output") + run.outcome_any("err") + run.outcome_any("panic");
        run.extra("cases_not_matching_reference", json!(ok_wrong));
    }
    run.finish();
}
