//! The fault catalogue: every entry is a snippet that is the only fault of its template set, with
//! a KNOWN PLANTED EXTENT — the snippet itself (the `{{ .. }}` / `{% .. %}` construct) and, inside
//! it, the *culprit* tokens marked with `⟦ ⟧`: the span of the report has to lie inside the
//! snippet and contain at least one whole culprit (lenient reading of "covers the offending token
//! or expression"). Several marks are alternatives. Where the engine's own message names one
//! operand (its type, its value) the culprit is that operand; where it speaks of the operation
//! (`<`, `+`, overflow) the culprit is the operator token (any span that covers the operation
//! covers it); where nothing more precise can be demanded, the whole snippet.

use crate::sites::*;
use std::ops::Range;

#[derive(Clone, Copy, PartialEq, Eq, Debug)]
pub enum Class {
    /// fails while rendering entry.html: `RenderingError`
    Render,
    /// fails in `add_raw_templates`: `SyntaxError`
    Syntax,
    /// fails in `add_raw_templates` with a `Msg` holding a report (unknown filter / test / ...)
    AddTime,
}

#[derive(Clone, Copy, PartialEq, Eq, Debug)]
pub enum Extent {
    /// the span lies inside the snippet
    Snippet,
    /// unclosed constructs: the parser may only notice later — the span lies between the start
    /// of the snippet and the end of the source
    ToEnd,
}

#[derive(Clone, Debug)]
pub struct Fault {
    pub id: String,
    pub class: Class,
    pub text: String,
    /// byte ranges inside `text`; empty = any token of the snippet
    pub culprits: Vec<Range<usize>>,
    pub extent: Extent,
    /// bit mask of the sites where the snippet is this fault
    pub sites: u32,
    /// a render failure the engine documents as position-less (listed, not judged)
    pub unpositioned: bool,
    /// planted as the very end of its file (no tail text after the snippet)
    pub at_eof: bool,
}

pub fn parse_marked(s: &str) -> (String, Vec<Range<usize>>) {
    let mut text = String::new();
    let mut culprits = vec![];
    let mut open = None;
    for c in s.chars() {
        match c {
            '⟦' => open = Some(text.len()),
            '⟧' => culprits.push(open.take().expect("⟧ without ⟦")..text.len()),
            _ => text.push(c),
        }
    }
    assert!(open.is_none(), "unclosed ⟦ in {s:?}");
    (text, culprits)
}

struct B {
    v: Vec<Fault>,
}

impl B {
    fn add(&mut self, class: Class, id: &str, marked: &str, sites: u32, extent: Extent) {
        let (text, culprits) = parse_marked(marked);
        assert!(!self.v.iter().any(|f| f.id == id), "duplicate fault id {id}");
        let sites = match class {
            Class::Render => sites & RENDERED,
            _ => sites,
        };
        self.v.push(Fault { id: id.to_string(), class, text, culprits, extent, sites, unpositioned: false, at_eof: false });
    }
    fn r(&mut self, id: &str, marked: &str) {
        self.add(Class::Render, id, marked, ALL, Extent::Snippet);
    }
    fn r_at(&mut self, id: &str, marked: &str, sites: u32) {
        self.add(Class::Render, id, marked, sites, Extent::Snippet);
    }
    fn s(&mut self, id: &str, marked: &str) {
        self.add(Class::Syntax, id, marked, ALL, Extent::Snippet);
    }
    fn s_at(&mut self, id: &str, marked: &str, sites: u32) {
        self.add(Class::Syntax, id, marked, sites, Extent::Snippet);
    }
    fn s_end(&mut self, id: &str, marked: &str, sites: u32) {
        self.add(Class::Syntax, id, marked, sites, Extent::ToEnd);
    }
    /// unclosed at the very end of the file
    fn s_eof(&mut self, id: &str, marked: &str, sites: u32) {
        self.add(Class::Syntax, id, marked, sites & FILE_END, Extent::ToEnd);
        self.v.last_mut().unwrap().at_eof = true;
    }
    fn a(&mut self, id: &str, marked: &str, sites: u32) {
        self.add(Class::AddTime, id, marked, sites, Extent::Snippet);
    }
}

/// Rendering errors: one (or several) per error site of `vm/interpreter.rs`.
fn render_faults(b: &mut B) {
    // ---- undefined variable printed / used
    b.r("undef/print-fused", "{{ ⟦u⟧ }}");
    b.r("undef/print-unfused", "{{ t and ⟦u⟧ }}");
    b.r("undef/print-ternary", "{{ ⟦u⟧ if t else 1 }}");
    b.r("undef/print-index-oob", "{{ ⟦arr⟧[⟦9⟧] }}");
    b.r("undef/print-map-miss", "{{ ⟦m⟧[⟦\"zz\"⟧] }}");
    // ---- undefined field on a path: fused WritePath / LoadPath and unfused spellings
    b.r("field/writepath-last", "{{ m.⟦nope⟧ }}");
    b.r("field/writepath-deep-last", "{{ m.k.⟦nope⟧ }}");
    b.r("field/writepath-mid", "{{ m.⟦nope⟧.deeper }}");
    b.r("field/writepath-on-string", "{{ s.⟦x⟧ }}");
    b.r("field/writepath-root-undefined", "{{ ⟦u⟧.x.y }}");
    b.r("field/loadpath-mid", "{{ m.⟦nope⟧.x | default(value=1) }}");
    b.r("field/loadpath-mid-deep", "{{ m.k.⟦nope⟧.x | default(value=1) }}");
    b.r("field/loadpath-root-undefined", "{{ ⟦u⟧.x | default(value=1) }}");
    b.r("field/loadpath-on-int", "{{ n.⟦x⟧.y | default(value=1) }}");
    b.r("field/loadpath-in-math", "{{ 1 + m.⟦nope⟧.x }}");
    b.r("field/loadpath-in-if", "{% if m.⟦nope⟧.x %}a{% endif %}");
    b.r("field/loadpath-in-for", "{% for q in m.⟦nope⟧.x %}a{% endfor %}");
    b.r("field/loadpath-in-set", "{% set v = m.⟦nope⟧.x %}");
    b.r("field/unfused-after-subscript", "{{ arr[0].⟦x⟧.⟦y⟧ }}");
    b.r("field/unfused-after-subscript-print", "{{ arr[0].⟦x⟧ }}");
    b.r("field/unfused-after-optional", "{{ m?.⟦nope⟧.⟦zz⟧ }}");
    b.r("field/of-undefined-subscript", "{{ m[⟦\"zz\"⟧].⟦x⟧ | default(value=1) }}");
    // ---- subscripts
    b.r("subscript/of-undefined", "{{ ⟦u⟧[0] }}");
    b.r("subscript/of-undefined-field", "{{ ⟦m⟧.⟦nope⟧[0] }}");
    b.r("subscript/index-undefined", "{{ arr[⟦u⟧] }}");
    b.r("subscript/array-index-string", "{{ arr[⟦\"a\"⟧] }}");
    b.r("subscript/array-index-float", "{{ arr[⟦1.5⟧] }}");
    b.r("subscript/string-index-string", "{{ s[⟦\"a\"⟧] }}");
    b.r("subscript/map-key-array", "{{ m[⟦arr⟧] }}");
    b.r("subscript/map-key-float", "{{ m[⟦f⟧] }}");
    b.r("subscript/optional-bad-index", "{{ arr?[⟦\"a\"⟧] }}");
    b.r("subscript/index-expr", "{{ arr[⟦s⟧ ~ ⟦\"x\"⟧] }}");
    // ---- slices
    b.r("slice/of-undefined", "{{ ⟦u⟧[1:2] }}");
    b.r("slice/of-int", "{{ ⟦n⟧[1:2] }}");
    b.r("slice/of-map", "{{ ⟦m⟧[:1] }}");
    b.r("slice/start-undefined", "{{ arr[⟦u⟧:2] }}");
    b.r("slice/start-string", "{{ arr[⟦\"a\"⟧:2] }}");
    b.r("slice/end-undefined", "{{ arr[1:⟦u⟧] }}");
    b.r("slice/end-float", "{{ arr[1:⟦1.5⟧] }}");
    b.r("slice/step-undefined", "{{ arr[::⟦u⟧] }}");
    b.r("slice/step-string", "{{ s[1:2:⟦\"b\"⟧] }}");
    b.r("slice/step-zero", "{{ arr[::⟦0⟧] }}");
    b.r("slice/step-zero-var", "{{ s[0:2:⟦z⟧] }}");
    b.r("slice/optional-start-string", "{{ arr?[⟦\"a\"⟧:] }}");
    // ---- math on non-numbers, per operator and operand
    for (name, op) in [("mul", "*"), ("div", "/"), ("floordiv", "//"), ("mod", "%"), ("sub", "-"), ("pow", "**")] {
        b.r(&format!("math/{name}-lhs-string"), &format!("{{{{ ⟦s⟧ {op} 2 }}}}"));
        b.r(&format!("math/{name}-rhs-string"), &format!("{{{{ 2 {op} ⟦s⟧ }}}}"));
        b.r(&format!("math/{name}-both"), &format!("{{{{ ⟦arr⟧ {op} ⟦m⟧ }}}}"));
        b.r(&format!("math/{name}-rhs-undefined"), &format!("{{{{ n {op} ⟦u⟧ }}}}"));
        b.r(&format!("math/{name}-lhs-none"), &format!("{{{{ ⟦nul⟧ {op} n }}}}"));
        b.r(&format!("math/{name}-lhs-bool-literal"), &format!("{{{{ ⟦true⟧ {op} 1 }}}}"));
    }
    b.r("math/plus-lhs-string", "{{ ⟦s⟧ ⟦+⟧ 1 }}");
    b.r("math/plus-rhs-string", "{{ 1 ⟦+⟧ ⟦s⟧ }}");
    b.r("math/plus-rhs-undefined", "{{ n ⟦+⟧ ⟦u⟧ }}");
    b.r("math/plus-strings", "{{ ⟦\"a\"⟧ ⟦+⟧ ⟦\"b\"⟧ }}");
    b.r("math/neg-string", "{{ -⟦s⟧ }}");
    b.r("math/neg-array", "{{ -⟦arr⟧ }}");
    b.r("math/lhs-concat", "{{ (⟦s⟧ ~ ⟦\"x\"⟧) * 2 }}");
    b.r("math/lhs-path", "{{ ⟦m⟧.⟦k⟧ * 2 }}");
    b.r("math/rhs-path-undefined-tail", "{{ 2 * ⟦m⟧.⟦a⟧.⟦b⟧ }}");
    b.r("math/lhs-filter-result", "{{ (⟦s⟧ | ⟦upper⟧) * 2 }}");
    b.r("math/rhs-function-result", "{{ 2 - ⟦range(end=2)⟧ }}");
    b.r("math/rhs-subscript", "{{ 2 * ⟦s⟧[⟦0⟧] }}");
    b.r("math/rhs-array-literal", "{{ 2 * ⟦[1, n]⟧ }}");
    b.r("math/rhs-test-result", "{{ 2 * (⟦n⟧ is ⟦odd⟧) }}");
    // ---- an error blamed on the RESULT of a slice with omitted parts (the compiler fills them with
    // constants that have no source position; seeded change C12-6 widened the result's span over
    // them and every later error on that value had no span to report)
    for (sname, slice) in [
        ("from", "⟦s⟧[⟦1⟧:]"),
        ("to", "⟦s⟧[:⟦2⟧]"),
        ("from-to", "⟦s⟧[⟦1⟧:⟦2⟧]"),
        ("array-from", "⟦arr⟧[⟦1⟧:]"),
        ("all", "⟦arr⟧[:]"),
        ("optional-from", "⟦s⟧?[⟦1⟧:]"),
        ("explicit-step", "⟦s⟧[⟦0⟧:⟦2⟧:⟦1⟧]"),
    ] {
        b.r(&format!("slice-result/{sname}/times"), &format!("{{{{ {slice} * 2 }}}}"));
        b.r(&format!("slice-result/{sname}/rhs-minus"), &format!("{{{{ 2 - {slice} }}}}"));
        b.r(&format!("slice-result/{sname}/negated"), &format!("{{{{ -{slice} }}}}"));
        b.r(&format!("slice-result/{sname}/rhs-plus"), &format!("{{{{ 1 ⟦+⟧ {slice} }}}}"));
        b.r(&format!("slice-result/{sname}/filter-type"), &format!("{{{{ {slice} | ⟦abs⟧ }}}}"));
        b.r(&format!("slice-result/{sname}/for-kv"), &format!("{{% for k, v in {slice} %}}x{{% endfor %}}"));
        b.r(&format!("slice-result/{sname}/map-spread"), &format!("{{{{ {{...{slice}}} }}}}"));
    }
    b.r("math/nested-inner", "{{ 1 + 2 * (3 - ⟦s⟧) }}");
    b.r("math/chain-middle", "{{ 1 * ⟦s⟧ * 3 }}");
    // ---- divide by zero: the divisor
    b.r("div0/div-literal", "{{ 1 / ⟦0⟧ }}");
    b.r("div0/floordiv-literal", "{{ n // ⟦0⟧ }}");
    b.r("div0/mod-literal", "{{ n % ⟦0⟧ }}");
    b.r("div0/div-var", "{{ n / ⟦z⟧ }}");
    b.r("div0/div-expr", "{{ 1 / (⟦n⟧ - ⟦3⟧) }}");
    b.r("div0/mod-path", "{{ 7 % (⟦m⟧.⟦a⟧ - ⟦1⟧) }}");
    // ---- overflow: the operation
    b.r("overflow/pow", "{{ 10 ⟦**⟧ 40 }}");
    b.r("overflow/mul-chain", "{{ 9223372036854775807 * 9223372036854775807 ⟦*⟧ 9223372036854775807 }}");
    b.r("overflow/add-of-pows", "{{ 10 ** 38 ⟦+⟧ 10 ** 38 }}");
    b.r("overflow/sub", "{{ 0 - 10 ** 38 ⟦-⟧ 10 ** 38 }}");
    b.r("overflow/pow-exponent", "{{ 2 ⟦**⟧ 4294967296 }}");
    // `huge` (u128::MAX) only exists in the context, not in the defaults of the host component
    let ctx_only = RENDERED & !m(&[COMP_BODY, COMP_FROM_INCLUDE, DEEP, COMP_IN_CAPTURE, COMP_REENTRY, OWN_COMP]);
    b.r_at("overflow/operand-out-of-i128-mul", "{{ huge ⟦*⟧ 2 }}", ctx_only);
    b.r_at("overflow/operand-out-of-i128-plus", "{{ 1 ⟦+⟧ huge }}", ctx_only);
    b.r_at("overflow/negate", "{{ -⟦huge⟧ }}", ctx_only);
    // ---- incomparable operands: the comparison
    for (name, op) in [("lt", "<"), ("gt", ">"), ("lte", "<="), ("gte", ">=")] {
        b.r(&format!("compare/{name}-string-int"), &format!("{{{{ s ⟦{op}⟧ 1 }}}}"));
        b.r(&format!("compare/{name}-array-map"), &format!("{{{{ arr ⟦{op}⟧ m }}}}"));
        b.r(&format!("compare/{name}-int-none"), &format!("{{{{ 1 ⟦{op}⟧ nul }}}}"));
    }
    b.r("compare/lt-undefined", "{{ n ⟦<⟧ u }}");
    b.r("compare/lt-paths", "{{ m.k ⟦<⟧ m.a }}");
    b.r("compare/lt-in-if", "{% if s ⟦<⟧ 1 %}a{% endif %}");
    b.r("compare/lt-in-elif", "{% if false %}a{% elif s ⟦<⟧ 1 %}b{% else %}c{% endif %}");
    b.r("compare/lt-under-not", "{{ not (s ⟦<⟧ 1) }}");
    b.r("compare/lt-in-and", "{{ t and s ⟦<⟧ 1 }}");
    b.r("compare/lt-in-or", "{{ false or 1 ⟦>⟧ s }}");
    b.r("compare/lt-in-ternary-cond", "{{ 1 if s ⟦<⟧ 1 else 2 }}");
    b.r("compare/lt-in-ternary-arm", "{{ (s ⟦<⟧ 1) if t else 2 }}");
    // ---- `in` on a non-container: the container
    b.r("in/int", "{{ 1 in ⟦n⟧ }}");
    b.r("in/bool", "{{ \"a\" in ⟦t⟧ }}");
    b.r("in/none", "{{ 1 in ⟦nul⟧ }}");
    b.r("in/undefined", "{{ 1 in ⟦u⟧ }}");
    b.r("in/not-in-float", "{{ 1 not in ⟦f⟧ }}");
    b.r("in/path", "{{ 1 in ⟦m⟧.⟦a⟧ }}");
    b.r("in/in-if", "{% if 1 in ⟦n⟧ %}a{% endif %}");
    // ---- iteration
    b.r("iter/int", "{% for x in ⟦n⟧ %}{{ x }}{% endfor %}");
    b.r("iter/undefined", "{% for x in ⟦u⟧ %}{{ x }}{% endfor %}");
    b.r("iter/none", "{% for x in ⟦nul⟧ %}a{% endfor %}");
    b.r("iter/bool-with-else", "{% for x in ⟦t⟧ %}a{% else %}b{% endfor %}");
    b.r("iter/path", "{% for x in ⟦m⟧.⟦a⟧ %}a{% endfor %}");
    b.r("iter/filter-result", "{% for x in ⟦arr⟧ | ⟦length⟧ %}a{% endfor %}");
    b.r("iter/kv-on-array", "{% for k, v in ⟦arr⟧ %}a{% endfor %}");
    b.r("iter/kv-on-string", "{% for k, v in ⟦s⟧ %}a{% endfor %}");
    b.r("iter/kv-on-array-literal", "{% for k, v in ⟦[1, 2]⟧ %}a{% endfor %}");
    b.r("iter/comprehension-int", "{{ [x for x in ⟦n⟧] }}");
    b.r("iter/comprehension-kv-on-array", "{{ [k for k, v in ⟦arr⟧] }}");
    b.r("iter/comprehension-cond", "{{ [x for x in arr if x ⟦<⟧ \"a\"] }}");
    b.r("iter/comprehension-expr", "{{ [x * ⟦s⟧ for x in arr] }}");
    b.r("iter/body-second-round", "{% for x in arr %}{{ 6 // (⟦x⟧ - ⟦2⟧) }}{% endfor %}");
    b.r("iter/body-nested", "{% for x in arr %}{% for y in ⟦x⟧ %}a{% endfor %}{% endfor %}");
    b.r("iter/else-body", "{% for x in [] %}a{% else %}{{ ⟦u⟧ }}{% endfor %}");
    // ---- spread
    b.r("spread/array-int", "{{ [1, ...⟦n⟧] }}");
    b.r("spread/array-map", "{{ [...⟦m⟧, 2] }}");
    b.r("spread/array-undefined", "{{ [...arr, ...⟦u⟧] }}");
    b.r("spread/map-array", "{{ {\"a\": 1, ...⟦arr⟧} }}");
    b.r("spread/map-string", "{{ {...⟦s⟧} }}");
    b.r("spread/map-path", "{{ {...m, ...⟦m⟧.⟦a⟧} }}");
    b.r("spread/component-args", "{{ <Need a={1} {...⟦arr⟧} /> }}");
    // ---- filters: InvalidArgument (the value) vs other kinds (the filter)
    b.r("filter/value-type-int", "{{ ⟦n⟧ | upper }}");
    b.r("filter/value-type-array", "{{ ⟦arr⟧ | trim }}");
    b.r("filter/value-type-undefined", "{{ ⟦u⟧ | upper }}");
    b.r("filter/value-type-literal", "{{ ⟦1.5⟧ | lower }}");
    b.r("filter/value-type-path", "{{ ⟦m⟧.⟦a⟧ | upper }}");
    b.r("filter/value-type-chained", "{{ s | ⟦length⟧ | ⟦upper⟧ }}");
    b.r("filter/value-type-expr", "{{ (⟦n⟧ + ⟦1⟧) | upper }}");
    b.r("filter/missing-arg", "{{ s | ⟦truncate⟧ }}");
    b.r("filter/missing-arg-default", "{{ u | ⟦default⟧ }}");
    b.r("filter/missing-arg-with-others", "{{ s | ⟦replace(from=\"a\")⟧ }}");
    b.r("filter/message-pluralize", "{{ m | ⟦pluralize⟧ }}");
    b.r("filter/value-type-join", "{{ ⟦m⟧ | join(sep=\",\") }}");
    b.r("filter/message-round-method", "{{ f | ⟦round(method=\"zz\")⟧ }}");
    b.r("filter/message-int", "{{ s | ⟦int⟧ }}");
    b.r("filter/kwarg-out-of-range", "{{ s | ⟦truncate(length=-1)⟧ }}");
    b.r("filter/kwarg-type", "{{ s | ⟦truncate(length=\"x\")⟧ }}");
    b.r("filter/kwarg-type-bool", "{{ u | ⟦default(value=1, boolean=\"x\")⟧ }}");
    b.r("filter/kwarg-expr-fails", "{{ s | truncate(length=1 * ⟦s⟧) }}");
    b.r("filter/section-missing-arg", "{% filter ⟦truncate⟧ %}abc{% endfilter %}");
    b.r("filter/section-value-type", "{% filter ⟦round⟧ %}abc{% endfilter %}");
    b.r("filter/section-body-fails", "{% filter upper %}a{{ 1 * ⟦s⟧ }}{% endfilter %}");
    b.r("filter/setblock-value-type", "{% set v | ⟦round⟧ %}abc{% endset %}");
    // the filter that fails is the culprit, not an earlier one of the same block (seeded change
    // C12-8 gave every filter of a set block the first filter's span)
    // (a value-type refusal is blamed on the value, whose last token is the PREVIOUS filter: both
    // readings pass; an error of the filter's own - conversion, missing argument - sits on the filter)
    b.r("filter/setblock-second", "{% set v | ⟦upper⟧ | ⟦round⟧ %}abc{% endset %}");
    b.r("filter/setblock-second-conversion", "{% set v | upper | ⟦int⟧ %}abc{% endset %}");
    b.r("filter/setblock-third", "{% set v | upper | trim | ⟦int⟧ %}abc{% endset %}");
    b.r("filter/setblock-second-missing-arg", "{% set v | lower | ⟦truncate⟧ %}abc{% endset %}");
    b.r("filter/setblock-global-second", "{% set_global v | upper | ⟦int⟧ %}abc{% endset %}");
    b.r("filter/setblock-second-on-next-line", "{% set v | upper\n   | ⟦int⟧ %}abc{% endset %}");
    b.r("filter/chain-third", "{{ s | upper | trim | ⟦int⟧ }}");
    b.r("filter/section-in-section-inner", "{% filter upper %}{% filter ⟦round⟧ %}abc{% endfilter %}{% endfilter %}");
    b.r("filter/setblock-missing-arg", "{% set v | ⟦truncate⟧ %}abc{% endset %}");
    // ---- tests
    b.r("test/value-type-string", "{{ ⟦s⟧ is odd }}");
    b.r("test/value-type-in-if", "{% if ⟦arr⟧ is even %}a{% endif %}");
    b.r("test/value-type-negated", "{{ ⟦s⟧ is not odd }}");
    b.r("test/value-type-starting-with", "{{ ⟦n⟧ is starting_with(pat=\"a\") }}");
    b.r("test/message-float-odd", "{{ f is ⟦odd⟧ }}");
    b.r("test/message-negated", "{{ f is not ⟦even⟧ }}");
    b.r("test/message-containing", "{{ n is ⟦containing(pat=1)⟧ }}");
    b.r("test/missing-arg", "{{ n is ⟦divisible_by⟧ }}");
    b.r("test/kwarg-type", "{{ n is ⟦divisible_by(divisor=\"x\")⟧ }}");
    b.r("test/kwarg-type-str", "{{ s is ⟦starting_with(pat=1)⟧ }}");
    b.r("test/kwarg-expr-fails", "{{ n is divisible_by(divisor=1 * ⟦s⟧) }}");
    // ---- functions
    b.r("function/missing-arg", "{{ ⟦range()⟧ }}");
    b.r("function/kwarg-type", "{{ ⟦range(end=\"a\")⟧ }}");
    b.r("function/message", "{{ ⟦range(end=1, step_by=0)⟧ }}");
    b.r("function/message-start-gt-end", "{% for x in ⟦range(start=3, end=1)⟧ %}a{% endfor %}");
    b.r("function/kwarg-expr-fails", "{{ range(end=1 * ⟦s⟧) }}");
    b.r("function/throw", "{{ ⟦throw(message=\"boom\")⟧ }}");
    b.r("function/throw-in-if", "{% if t %}x{{ ⟦throw(message=\"boom é\")⟧ }}{% endif %}");
    b.r("function/throw-in-set", "{% set v = ⟦throw(message=\"boom\")⟧ %}");
    b.r("function/throw-missing-arg", "{{ ⟦throw()⟧ }}");
    b.r("function/throw-multiline", "{{ ⟦throw(\n    message=\"boom\"\n  )⟧ }}");
    // ---- super() without ancestor
    b.r_at(
        "super/outside-block",
        "{{ ⟦super()⟧ }}",
        // inside a block of the child it is a legal call; in the parent's block it is the
        // "top level block" error of the next entry
        ALL & !m(&[BLOCK]),
    );
    b.r_at("super/top-level-block", "{% block zz %}{{ ⟦super()⟧ }}{% endblock zz %}", BLOCK_OK);
    b.r_at("super/in-parent-block", "{{ ⟦super()⟧ }}x", m(&[SUPER]));
    // ---- component binding errors: the call
    b.r("component/missing-required", "{{ ⟦<Need />⟧ }}");
    b.r("component/missing-required-with-other", "{{ ⟦<Need b={2} />⟧ }}");
    b.r("component/missing-required-typed", "{{ ⟦<Typed />⟧ }}");
    b.r("component/unknown-arg", "{{ ⟦<Need a={1} zzz={2} />⟧ }}");
    b.r("component/wrong-type", "{{ ⟦<Need a={1} b=\"x\" />⟧ }}");
    b.r("component/wrong-type-expr", "{{ ⟦<Need a={1} b={s} />⟧ }}");
    b.r("component/wrong-type-shorthand", "{% set b = \"x\" %}{{ ⟦<Need a={1} b />⟧ }}");
    b.r("component/body-form-missing", "{% ⟦<Need b={2}>⟧ %}body{% </Need> %}");
    b.r("component/body-form-unknown-multiline", "{% ⟦<Need a={1}\n   zzz=\"é\">⟧ %}\nbody é\n{% </Need> %}");
    b.r("component/arg-expr-fails", "{{ <Need a={1 * ⟦s⟧} /> }}");
    b.r("component/box-body-fails", "{% <Box> %}x{{ 1 * ⟦s⟧ }}{% </Box> %}");
    // ---- statements around a failing expression
    b.r("stmt/set", "{% set v = 1 * ⟦s⟧ %}");
    b.r("stmt/set-global-in-for", "{% for x in arr %}{% set_global v = x * ⟦s⟧ %}{% endfor %}");
    b.r("stmt/elif", "{% if false %}a{% elif ⟦s⟧ * 2 %}b{% endif %}");
    b.r("stmt/else-branch", "{% if false %}a{% else %}{{ ⟦u⟧ }}{% endif %}");
    b.r("stmt/ternary-cond", "{{ 1 if ⟦s⟧ * 2 else 3 }}");
    b.r("stmt/ternary-else-arm", "{{ 1 if false else ⟦s⟧ * 2 }}");
    b.r("stmt/and-rhs", "{{ t and 1 * ⟦s⟧ }}");
    b.r("stmt/or-rhs", "{{ false or ⟦s⟧ * 1 }}");
    b.r("stmt/concat-operand", "{{ \"a\" ~ (1 * ⟦s⟧) }}");
    b.r("stmt/concat-then-mul", "{{ ⟦\"a\"⟧ ~ ⟦1⟧ * n }}");
    b.r("stmt/array-element", "{{ [1, 2 * ⟦s⟧] }}");
    b.r("stmt/map-value", "{{ {\"k\": 2 * ⟦s⟧} }}");
    b.r("stmt/second-of-two-tags", "{{ n }}{{ 2 * ⟦s⟧ }}");
    b.r("stmt/after-raw-and-comment", "{% raw %}{{ é }}{% endraw %}{# 日 #}{{ 2 * ⟦s⟧ }}");
    b.r("stmt/ws-control", "{{- 2 * ⟦s⟧ -}}");
    // ---- multi-line and non-ASCII inside the construct itself
    b.r("multiline/operand-next-line", "{{ 1 *\n   ⟦s⟧ }}");
    b.r("multiline/operator-own-line", "{{ s\n ⟦<⟧\n 1 }}");
    b.r("multiline/crlf-inside", "{{ s\r\n ⟦<⟧\r\n 1 }}");
    b.r("multiline/multibyte-before-operator", "{{ \"é日\" ~ \"😀\" ⟦<⟧ 1 }}");
    b.r("multiline/string-with-newline", "{{ \"é\n日\" ⟦<⟧\r\n 1 }}");
    b.r("multiline/multibyte-operand", "{{ 2 * ⟦\"é日😀\"⟧ }}");
    b.r("multiline/tag-after-multibyte-text", "é{{ 2 * ⟦\"日\"⟧ }}😀");
    b.r("multiline/for-target-next-line", "{% for x in\n\t⟦n⟧ %}a{% endfor %}");
    b.r("multiline/tab-indented", "\t\t{{ 2 * ⟦s⟧ }}");
    // ---- documented position-less render failures (listed in the evidence, not judged)
    let before = b.v.len();
    b.r("unpositioned/component-recursion", "{{ <Rec /> }}");
    for f in &mut b.v[before..] {
        f.unpositioned = true;
    }
}

/// A representative of every error the lexer and the parser can raise.
fn syntax_faults(b: &mut B) {
    // ---- lexer
    b.s("lex/unexpected-char", "{{ 1 ⟦#⟧ 2 }}");
    b.s("lex/unexpected-char-dollar", "{{ a ⟦$⟧ }}");
    b.s("lex/unexpected-char-multibyte", "{{ ⟦é⟧ }}");
    b.s("lex/unexpected-char-after-multibyte-string", "{{ \"é日\" ~ ⟦😀⟧ }}");
    b.s("lex/unexpected-char-in-tag", "{% if a ⟦&⟧& b %}{% endif %}");
    b.s_end("lex/unterminated-string-backtick", "{{ ⟦`abc⟧ }}", ALL);
    b.s_end("lex/unterminated-string-single", "{{ a ~ ⟦'abc é⟧ }}", ALL);
    b.s("lex/bad-escape", "{{ ⟦'a\\qb'⟧ }}");
    b.s("lex/invalid-integer", "{{ ⟦99999999999999999999⟧ }}");
    b.s("lex/invalid-integer-in-tag", "{% set v = ⟦123456789012345678901234567890⟧ %}");
    b.s_end("lex/unterminated-comment", "⟦{#⟧ abc", ALL);
    b.s_end("lex/unterminated-comment-ws", "⟦{#-⟧ é\nabc", ALL);
    b.s_end("lex/unterminated-raw", "⟦{%⟧ raw %}abc {{ x }}", ALL);
    b.s_end("lex/unterminated-raw-ws", "⟦{%-⟧ raw -%}\nabc", ALL);
    // ---- expressions
    b.s("expr/missing-operand", "{{ 1 + ⟦}}⟧");
    b.s("expr/empty", "{{ ⟦}}⟧");
    b.s("expr/stray-paren", "{{ ⟦)⟧ }}");
    b.s("expr/two-idents", "{{ a ⟦b⟧ }}");
    b.s("expr/unclosed-paren", "{{ (1 + 2 ⟦}}⟧");
    b.s("expr/unclosed-array", "{{ [1, 2 ⟦}}⟧");
    b.s("expr/array-missing-comma", "{{ [1 ⟦2⟧] }}");
    b.s("expr/map-missing-colon", "{{ {\"a\" ⟦1⟧} }}");
    b.s("expr/map-ident-key", "{{ {⟦a⟧: 1} }}");
    b.s("expr/map-unclosed", "{{ {\"a\": 1 ⟦}}⟧");
    b.s("expr/single-closing-brace", "{{ a ⟦}⟧ x");
    b.s("expr/tag-end-in-variable", "{{ a ⟦%⟧⟦}⟧ x");
    b.s("expr/consecutive-minus", "{{ - ⟦-⟧ 1 }}");
    b.s("expr/consecutive-not", "{{ not ⟦not⟧ a }}");
    b.s("expr/not-without-in", "{{ a ⟦not⟧ b }}");
    b.s("expr/unary-after-tilde-minus", "{{ \"a\" ~ ⟦-⟧⟦1⟧ }}");
    b.s("expr/unary-after-tilde-not", "{{ s ~ ⟦not⟧ ⟦t⟧ }}");
    b.s("expr/dot-integer", "{{ a.⟦1⟧ }}");
    b.s("expr/dot-nothing", "{{ a.⟦}}⟧");
    b.s("expr/call-in-chain", "{{ a.⟦b⟧⟦(⟧) }}");
    b.s("expr/too-many-brackets", "{{ a[b[c[d[e⟦[⟧f]]]]] }}");
    b.s("expr/array-three-dimensions", "{{ [[⟦[⟧1]]] }}");
    b.s("expr/ternary-missing-else", "{{ a if b ⟦}}⟧");
    b.s("expr/ternary-missing-cond", "{{ a if ⟦else⟧ ⟦b⟧ }}");
    b.s("expr/subscript-unclosed", "{{ a[1 ⟦}}⟧");
    b.s("expr/slice-double-step", "{{ a[1:2:3⟦:⟧4] }}");
    b.s("expr/slice-empty-step", "{{ a[1:2:⟦]⟧ }}");
    b.s("expr/filter-not-ident", "{{ a | ⟦1⟧ }}");
    b.s("expr/filter-positional-arg", "{{ a | f(⟦1⟧) }}");
    b.s("expr/filter-arg-missing-assign", "{{ a | f(x ⟦1⟧) }}");
    b.s("expr/filter-arg-missing-comma", "{{ a | f(x=1 ⟦y⟧=2) }}");
    b.s("expr/filter-duplicate-kwarg", "{{ a | f(x=1, ⟦x⟧=2) }}");
    b.s("expr/filter-unclosed-args", "{{ a | f(x=1 ⟦}}⟧");
    b.s("expr/test-not-ident", "{{ a is ⟦1⟧ }}");
    b.s("expr/test-duplicate-kwarg", "{{ a is f(pat=1, ⟦pat⟧=2) }}");
    b.s("expr/function-duplicate-kwarg", "{{ f(x=1, y=2, ⟦x⟧=3) }}");
    b.s("expr/comprehension-reserved-var", "{{ [x for ⟦and⟧ in arr] }}");
    b.s("expr/comprehension-reserved-key", "{{ [x for k, ⟦loop⟧ in m] }}");
    b.s("expr/comprehension-two-fors", "{{ [x for x in arr ⟦for⟧ y in arr] }}");
    b.s("expr/comprehension-missing-in", "{{ [x for x ⟦arr⟧] }}");
    b.s("expr/spread-without-operand", "{{ [...⟦]⟧ }}");
    b.s_at(
        "expr/too-complex",
        &format!("{{{{ {}1{} }}}}", "(".repeat(41), ")".repeat(41)),
        // 41 levels on their own; deeper statement nesting at the site only lowers the threshold
        ALL,
    );
    b.s("expr/lt-without-ident", "{{ ⟦<⟧ 1 }}");
    b.s("expr/component-unclosed", "{{ <⟦Card⟧ ⟦}}⟧");
    b.s("expr/component-with-body-in-variable", "{{ <Card⟦>⟧ }}");
    b.s("expr/component-attr-bare-value", "{{ <Card n=⟦1⟧ /> }}");
    b.s("expr/component-attr-no-spread", "{{ <Card {⟦n⟧} /> }}");
    b.s("expr/component-attr-unclosed-expr", "{{ <Card n={1 ⟦/⟧⟦>⟧ }}");
    b.s("expr/component-slash-without-gt", "{{ <Card /⟦}}⟧");
    b.s("expr/component-dotted-name", "{{ <Card.⟦1⟧ /> }}");
    // ---- tags
    b.s("tag/unknown", "{% ⟦foo⟧ %}");
    b.s("tag/unknown-multibyte-around", "é{% ⟦日⟧ %}");
    // (inside the `if` of site for-if these two are legal or close the wrong construct)
    b.s_at("tag/stray-endif", "{% ⟦endif⟧ %}", ALL & !m(&[FOR_IF]));
    b.s_at("tag/stray-else", "{% ⟦else⟧ %}", ALL & !m(&[FOR_IF]));
    b.s("tag/stray-endfor", "a{% ⟦endfor⟧ %}");
    b.s("tag/empty", "{% ⟦%}⟧");
    b.s("tag/not-ident", "{% ⟦1⟧ %}");
    b.s("tag/trailing-junk", "{% if t ⟦t⟧ %}a{% endif %}");
    b.s("tag/endif-trailing-junk", "{% if t %}a{% endif ⟦x⟧ %}");
    b.s("tag/if-without-cond", "{% if ⟦%}⟧a{% endif %}");
    b.s("tag/if-closed-by-endfor", "{% if t %}a{% ⟦endfor⟧ %}");
    b.s("tag/for-closed-by-endif", "{% for x in arr %}a{% ⟦endif⟧ %}");
    b.s("tag/else-twice", "{% if t %}a{% else %}b{% ⟦else⟧ %}c{% endif %}");
    b.s("tag/elif-after-else", "{% if t %}a{% else %}b{% ⟦elif⟧ t %}c{% endif %}");
    b.s("tag/set-not-ident", "{% set ⟦1⟧ = 2 %}");
    b.s("tag/set-bad-operator", "{% set ⟦a⟧ ⟦+⟧ 1 %}");
    b.s("tag/set-reserved-loop", "{% set ⟦loop⟧ = 1 %}");
    b.s("tag/set-reserved-none", "{% set_global ⟦none⟧ = 1 %}");
    b.s("tag/set-bool-name", "{% set ⟦true⟧ = 1 %}");
    b.s("tag/set-missing-value", "{% set a = ⟦%}⟧");
    b.s("tag/setblock-filter-not-ident", "{% set a | ⟦1⟧ %}x{% endset %}");
    b.s("tag/for-reserved-var", "{% for ⟦self⟧ in arr %}{% endfor %}");
    b.s("tag/for-reserved-key", "{% for k, ⟦not⟧ in m %}{% endfor %}");
    b.s("tag/for-missing-in", "{% for x ⟦of⟧ arr %}{% endfor %}");
    b.s("tag/for-not-ident", "{% for ⟦1⟧ in arr %}{% endfor %}");
    b.s("tag/for-missing-target", "{% for x in ⟦%}⟧{% endfor %}");
    b.s("tag/include-not-string", "{% include ⟦a⟧ %}");
    b.s("tag/include-trailing", "{% include \"leaf.html\" ⟦x⟧ %}");
    b.s("tag/extends-not-string", "{% extends ⟦a⟧ %}");
    b.s("tag/extends-not-first", "x{% extends ⟦\"base.html\"⟧ %}");
    b.s("tag/extends-nested", "{% if t %}{% extends ⟦\"base.html\"⟧ %}{% endif %}");
    b.s_at("tag/extends-twice", "{% extends ⟦\"base.html\"⟧ %}", m(&[CHILD_TOP]));
    b.s_at("tag/block-not-ident", "{% block ⟦1⟧ %}{% endblock %}", BLOCK_OK | m(&[CHILD_TOP]));
    b.s_at(
        "tag/block-duplicate",
        "{% block dd %}a{% endblock %}{% block ⟦dd⟧ %}b{% endblock %}",
        BLOCK_OK | m(&[CHILD_TOP]),
    );
    b.s_at(
        "tag/block-duplicate-nested",
        "{% block dd %}a{% block ⟦dd⟧ %}b{% endblock %}{% endblock %}",
        BLOCK_OK | m(&[CHILD_TOP]),
    );
    b.s_at("tag/endblock-name", "{% block dd %}a{% endblock ⟦ee⟧ %}", BLOCK_OK | m(&[CHILD_TOP]));
    b.s_at(
        "tag/endblock-name-multiline",
        "{% block dd %}\né\n{% endblock\n  ⟦ee⟧ %}",
        BLOCK_OK | m(&[CHILD_TOP]),
    );
    b.s("tag/block-in-for", "{% for x in arr %}{% ⟦block⟧ dd %}{% endblock %}{% endfor %}");
    b.s("tag/block-in-if", "{% if t %}{% ⟦block⟧ dd %}{% endblock %}{% endif %}");
    b.s_at("tag/break-outside-loop", "{% ⟦break⟧ %}", ALL & !m(&[FOR_IF]));
    b.s_at("tag/continue-outside-loop", "{% if t %}{% ⟦continue⟧ %}{% endif %}", ALL & !m(&[FOR_IF]));
    b.s("tag/continue-in-capture", "{% for x in arr %}{% filter upper %}{% ⟦continue⟧ %}{% endfilter %}{% endfor %}");
    b.s("tag/break-in-setblock", "{% for x in arr %}{% set v %}{% ⟦break⟧ %}{% endset %}{% endfor %}");
    b.s("tag/loop-bad-field", "{% for x in arr %}{{ loop.⟦bad⟧ }}{% endfor %}");
    b.s("tag/filter-not-ident", "{% filter ⟦1⟧ %}a{% endfilter %}");
    b.s("tag/filter-section-duplicate-kwarg", "{% filter f(a=1, ⟦a⟧=2) %}a{% endfilter %}");
    b.s("tag/component-call-not-ident", "{% ⟦<⟧ ⟦1⟧ %}");
    b.s("tag/component-call-self-closing", "{% <Box ⟦/⟧> %}");
    b.s("tag/component-call-closing-mismatch", "{% <Box> %}a{% </⟦Card⟧> %}");
    b.s("tag/component-call-closing-unterminated", "{% <Box> %}a{% </Box ⟦%}⟧");
    b.s_at(
        "tag/nesting-too-deep",
        &format!("{}a{}", "{% if t %}".repeat(41), "{% endif %}".repeat(41)),
        ALL,
    );
    b.s_at(
        "tag/nesting-too-deep-filters",
        &format!("{}a{}", "{% filter upper %}".repeat(41), "{% endfilter %}".repeat(41)),
        ALL,
    );
    // ---- component definitions (top level of a file only)
    b.s_at("def/name-not-ident", "{% component ⟦1⟧ %}{% endcomponent %}", FILE_TOP);
    b.s_at(
        "def/duplicate",
        "{% component Loc() %}a{% endcomponent %}\n{% component ⟦Loc⟧() %}b{% endcomponent %}",
        FILE_TOP,
    );
    b.s_at("def/arg-body", "{% component Loc(⟦body⟧) %}{% endcomponent %}", FILE_TOP);
    b.s_at("def/arg-duplicate", "{% component Loc(a, ⟦a⟧) %}{% endcomponent %}", FILE_TOP);
    b.s_at("def/arg-bad-type", "{% component Loc(a: ⟦foo⟧) %}{% endcomponent %}", FILE_TOP);
    b.s_at("def/arg-type-not-ident", "{% component Loc(a: ⟦1⟧) %}{% endcomponent %}", FILE_TOP);
    b.s_at("def/arg-default-ident", "{% component Loc(a=⟦x⟧) %}{% endcomponent %}", FILE_TOP);
    b.s_at("def/arg-default-nonliteral-array", "{% component Loc(a=⟦[x]⟧) %}{% endcomponent %}", FILE_TOP);
    b.s_at("def/arg-default-nonliteral-map", "{% component Loc(a=⟦{\"k\": x}⟧) %}{% endcomponent %}", FILE_TOP);
    b.s_at("def/arg-missing-comma", "{% component Loc(a ⟦b⟧) %}{% endcomponent %}", FILE_TOP);
    b.s_at("def/rest-not-last", "{% component Loc(...⟦r⟧⟦,⟧ a) %}{% endcomponent %}", FILE_TOP);
    b.s_at("def/rest-named-body", "{% component Loc(...⟦body⟧) %}{% endcomponent %}", FILE_TOP);
    b.s_at("def/rest-conflict", "{% component Loc(a, ...⟦a⟧) %}{% endcomponent %}", FILE_TOP);
    b.s_at("def/metadata-nonliteral", "{% component Loc() ⟦{\"k\": x}⟧ %}{% endcomponent %}", FILE_TOP);
    b.s_at("def/missing-parens", "{% component Loc ⟦%}⟧{% endcomponent %}", FILE_TOP);
    b.s_at("def/endcomponent-name", "{% component Loc() %}a{% endcomponent ⟦Lok⟧ %}", FILE_TOP);
    b.s("def/nested-in-if", "{% if t %}{% ⟦component⟧ Loc() %}{% endcomponent %}{% endif %}");
    b.s_at(
        "def/nested-in-def",
        "{% component Loc() %}{% ⟦component⟧ Loc2() %}{% endcomponent %}{% endcomponent %}",
        FILE_TOP,
    );
    // ---- unexpected end of input / unclosed constructs: noticed at, or after, the construct
    b.s_end("eoi/variable-start", "{{", ALL);
    b.s_end("eoi/variable-open", "{{ a", ALL);
    b.s_end("eoi/variable-open-operator", "{{ a +", ALL);
    b.s_end("eoi/variable-open-pipe", "{{ a |", ALL);
    b.s_end("eoi/variable-open-paren", "{{ (1", ALL);
    b.s_end("eoi/variable-open-bracket", "{{ a[", ALL);
    b.s_end("eoi/variable-open-call", "{{ f(x=", ALL);
    b.s_end("eoi/tag-start", "{%", ALL);
    b.s_end("eoi/tag-open", "{% if t", ALL);
    b.s_end("eoi/tag-open-multibyte-lines", "{% if \"é\n日\"\r\n ~ t", ALL);
    b.s_end("eoi/if-unclosed", "{% if t %}a", ALL);
    b.s_end("eoi/if-else-unclosed", "{% if t %}a{% else %}b", ALL);
    b.s_end("eoi/for-unclosed", "{% for x in arr %}{{ x }}", ALL);
    b.s_end("eoi/filter-unclosed", "{% filter upper %}a", ALL);
    b.s_end("eoi/setblock-unclosed", "{% set v %}abc", ALL);
    b.s_end("eoi/block-unclosed", "{% block dd %}a", BLOCK_OK | m(&[CHILD_TOP]));
    b.s_end("eoi/component-call-unclosed", "{% <Box> %}abc", ALL);
    b.s_end("eoi/component-def-unclosed", "{% component Loc() %}abc", FILE_TOP);
    b.s_end("eoi/nested-unclosed", "{% if t %}{% for x in arr %}a{% endfor %}", ALL);
    // ---- the same with nothing after the snippet: the input really ends inside the construct
    b.s_eof("eof/variable-start", "{{", ALL);
    b.s_eof("eof/variable-open", "{{ a", ALL);
    b.s_eof("eof/variable-open-trailing-blanks", "{{ a  \n ", ALL);
    b.s_eof("eof/variable-open-operator", "{{ a +", ALL);
    b.s_eof("eof/variable-open-multibyte", "{{ \"é日\" ~", ALL);
    b.s_eof("eof/variable-open-multiline", "{{ a\r\n  | upper\r\n  |", ALL);
    b.s_eof("eof/variable-open-call", "{{ a | f(x=1,", ALL);
    b.s_eof("eof/variable-open-array", "{{ [1, 2", ALL);
    b.s_eof("eof/variable-open-map", "{{ {\"a\": 1", ALL);
    b.s_eof("eof/variable-open-component", "{{ <Card n={n}", ALL);
    b.s_eof("eof/variable-open-ternary", "{{ a if b", ALL);
    b.s_eof("eof/tag-start", "{%", ALL);
    b.s_eof("eof/tag-start-ws", "{%- ", ALL);
    b.s_eof("eof/tag-open-if", "{% if t", ALL);
    b.s_eof("eof/tag-open-elif", "{% if t %}a{% elif", ALL);
    b.s_eof("eof/tag-open-else", "{% if t %}a{% else", ALL);
    b.s_eof("eof/tag-open-endif", "{% if t %}a{% endif", ALL);
    b.s_eof("eof/tag-open-for", "{% for x in", ALL);
    b.s_eof("eof/tag-open-for-key", "{% for k,", ALL);
    b.s_eof("eof/tag-open-set", "{% set v =", ALL);
    b.s_eof("eof/tag-open-set-name", "{% set", ALL);
    b.s_eof("eof/tag-open-include", "{% include", ALL);
    b.s_eof("eof/tag-open-include-name", "{% include \"leaf.html\"", ALL);
    b.s_eof("eof/tag-open-filter", "{% filter upper(", ALL);
    b.s_eof("eof/tag-open-block", "{% block", ALL);
    b.s_eof("eof/tag-open-endblock", "{% block dd %}a{% endblock", ALL);
    b.s_eof("eof/tag-open-component-call", "{% <Box", ALL);
    b.s_eof("eof/tag-open-component-close", "{% <Box> %}a{% </Box", ALL);
    b.s_eof("eof/tag-open-component-def", "{% component Loc(a: integer =", ALL);
    b.s_eof("eof/tag-open-component-def-type", "{% component Loc(a:", ALL);
    b.s_eof("eof/tag-open-endcomponent", "{% component Loc() %}a{% endcomponent", ALL);
    b.s_eof("eof/body-if", "{% if t %}a é", ALL);
    b.s_eof("eof/body-if-no-text", "{% if t %}", ALL);
    b.s_eof("eof/body-if-multiline", "{% if t %}\né日\r\n😀 x", ALL);
    b.s_eof("eof/body-for", "{% for x in arr %}{{ x }}", ALL);
    b.s_eof("eof/body-for-else", "{% for x in arr %}a{% else %}", ALL);
    b.s_eof("eof/body-filter", "{% filter upper %}a", ALL);
    b.s_eof("eof/body-setblock", "{% set v %}a\n", ALL);
    b.s_eof("eof/body-block", "{% block dd %}", ALL);
    b.s_eof("eof/body-component-def", "{% component Loc() %}a", ALL);
    b.s_eof("eof/body-after-comment", "{% if t %}{# é #}", ALL);
    b.s_eof("eof/body-after-raw", "{% if t %}{% raw %}é{% endraw %}", ALL);
}

/// Add-time reference errors: `Msg` whose text is a report.
fn addtime_faults(b: &mut B) {
    b.a("ref/unknown-filter", "{{ s | ⟦nope⟧ }}", ALL);
    b.a("ref/unknown-filter-with-args", "{{ s | ⟦nope(a=1)⟧ }}", ALL);
    b.a("ref/unknown-filter-chained", "{{ s | upper | ⟦nope⟧ | lower }}", ALL);
    b.a("ref/unknown-filter-multibyte-before", "{{ \"é日😀\" | ⟦nope⟧ }}", ALL);
    b.a("ref/unknown-filter-section", "{% filter ⟦nope⟧ %}a{% endfilter %}", ALL);
    b.a("ref/unknown-filter-setblock", "{% set v | ⟦nope⟧ %}a{% endset %}", ALL);
    b.a("ref/unknown-filter-next-line", "{{ s\n  | ⟦nope⟧ }}", ALL);
    b.a("ref/unknown-test", "{{ s is ⟦nope⟧ }}", ALL);
    b.a("ref/unknown-test-in-if", "{% if s is not ⟦nope(a=1)⟧ %}a{% endif %}", ALL);
    b.a("ref/unknown-function", "{{ ⟦nope()⟧ }}", ALL);
    b.a("ref/unknown-function-in-for", "{% for x in ⟦nope(a=1)⟧ %}a{% endfor %}", ALL);
    b.a("ref/unknown-component", "{{ ⟦<Nope />⟧ }}", ALL);
    b.a("ref/unknown-component-body-form", "{% ⟦<Nope>⟧ %}a{% </Nope> %}", ALL);
    b.a("ref/unknown-include", "{% include ⟦\"nope.html\"⟧ %}", ALL);
    b.a("ref/unknown-include-in-if", "{% if t %}{% include ⟦\"nope/é.html\"⟧ %}{% endif %}", ALL);
    b.a("ref/orphan-block", "{% block ⟦orphan⟧ %}a{% endblock orphan %}", m(&[CHILD_TOP]));
    b.a("ref/orphan-block-multiline", "{% block\n   ⟦orphan⟧ %}a{% endblock %}", m(&[CHILD_TOP]));
}

pub fn faults() -> Vec<Fault> {
    let mut b = B { v: vec![] };
    render_faults(&mut b);
    syntax_faults(&mut b);
    addtime_faults(&mut b);
    // distinct cases by construction: no two entries plant the same text the same way
    let mut seen = std::collections::HashSet::new();
    for f in &b.v {
        assert!(seen.insert((f.text.clone(), f.at_eof)), "two catalogue entries plant {:?}", f.text);
    }
    b.v
}

/// Small valid templates, written as token lists (tokens separated by `·`, a token carries its
/// leading blank). Used for the single-token-deletion faults and the two-deviation space.
/// (marked, sites)
pub fn base_templates() -> Vec<(Vec<String>, u32)> {
    let any = ALL;
    let src: Vec<(&str, u32)> = vec![
        ("{{· s· }}", any),
        ("{{· s· |· upper· }}", any),
        ("{{· s· |· truncate·(·length·=·2·)· }}", any),
        ("{{· n· +· 1· *· 2· }}", any),
        ("{{· (·n· +· 1·)· *· 2· }}", any),
        ("{{· arr·[·0·]· }}", any),
        ("{{· arr·[·1·:·2·]· }}", any),
        ("{{· m·.·k·.·x· }}", any),
        ("{{· [·1·,· 2·]· }}", any),
        ("{{· {·\"a\"·:· 1·}· }}", any),
        ("{{· s· if· t· else· n· }}", any),
        ("{{· n· is· odd· }}", any),
        ("{{· n· is· not· divisible_by·(·divisor·=·2·)· }}", any),
        ("{{· 1· not· in· arr· }}", any),
        ("{{· t· and· not· nul· or· n· }}", any),
        ("{{· \"é\"· ~· s· }}", any),
        ("{{· [·x· for· x· in· arr· if· x· >· 1·]· }}", any),
        ("{{· range·(·end·=·3·)· }}", any),
        ("{{· -·n· }}", any),
        ("{%· if· t· %}·a·{%· elif· n· %}·b·{%· else· %}·c·{%· endif· %}", any),
        ("{%· for· x· in· arr· %}·{{· x· }}·{%· endfor· %}", any),
        ("{%· for· k·,· v· in· m· %}·{{· k· }}·{%· else· %}·e·{%· endfor· %}", any),
        ("{%· set· v· =· 1· %}", any),
        ("{%· set· v· %}·a·{%· endset· %}", any),
        ("{%· filter· upper· %}·a·{%· endfilter· %}", any),
        ("{%· raw· %}·{{ x }}·{%· endraw· %}", any),
        ("{#· é· #}", any),
        ("{{· <·Card· n·=·{·n·}· /·>· }}", any),
        ("{%· <·Box·>· %}·b·{%· </·Box·>· %}", any),
        ("{%· include· \"leaf.html\"· %}", any),
        ("{%· for· x· in· arr· %}·{%· if· x· >· 1· %}·{%· break· %}·{%· endif· %}·{%· endfor· %}", any),
        ("{{-· s· -}}", any),
        ("{{· [·1·,· ...·arr·]· }}", any),
        ("{{· m·?.·k·?[·\"x\"·]· }}", any),
        ("{{· 'a'· ~· `b`· }}", any),
        ("{%· block· bb· %}·a·{%· endblock· bb· %}", BLOCK_OK),
        (
            "{%· component· Loc·(·a·:· integer· =· 1·,· ...·r·)· {·\"k\"·:· 1·}· %}·{{· a· }}·{%· endcomponent· Loc· %}",
            FILE_TOP,
        ),
    ];
    src.into_iter()
        .map(|(s, sites)| (s.split('·').map(|t| t.to_string()).collect(), sites))
        .collect()
}

/// Replacement tokens of the two-deviation space (thorough tier).
pub const ALPHABET: [&str; 24] = [
    "{{", " }}", "{%", " %}", "(", ")", "[", "]", " |", ".", ",", "=", " `é", " x", " 1", " if", " for", " in",
    " not", " -", " <", " é", "\n", " #}",
];
