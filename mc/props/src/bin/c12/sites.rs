//! The multi-template set and the places ("sites") where a fault snippet is planted.
//!
//! Every site builds a complete, otherwise valid template set in which the snippet is the only
//! fault, and knows: which template holds the snippet, at which byte offset, and which chain of
//! include / component call sites leads from the rendered template to it (innermost first) —
//! that chain is what the `note: called from` lines of a rendering error must name.

use std::ops::Range;

pub const TOP: usize = 0;
pub const BLOCK: usize = 1;
pub const SUPER: usize = 2;
pub const PARENT_TOP: usize = 3;
pub const INCLUDE: usize = 4;
pub const INCLUDE2: usize = 5;
pub const COMP_BODY: usize = 6;
pub const COMP_FROM_INCLUDE: usize = 7;
pub const CALL_BODY: usize = 8;
pub const FOR_IF: usize = 9;
pub const CAPTURE: usize = 10;
pub const DEEP: usize = 11;
pub const CHILD_TOP: usize = 12;
pub const INC_IN_SET: usize = 13;
pub const INC_IN_FILTER: usize = 14;
pub const INC_IN_CALL_BODY: usize = 15;
pub const COMP_IN_CAPTURE: usize = 16;
pub const COMP_REENTRY: usize = 17;
pub const OWN_COMP: usize = 18;
pub const INCLUDE2_SAME_POS: usize = 19;

pub const SITES: [&str; 20] = [
    "top",               // entry template, top level
    "block",             // inside a block of the entry template (which extends base.html)
    "super",             // block of the parent, reached through super() of the entry template
    "parent-top",        // top level of the parent, rendered through the child
    "include",           // included template
    "include2",          // include inside an include
    "comp-body",         // body of a component defined in comps.html, called from the entry template
    "comp-from-include", // the same component called from an included template
    "call-body",         // body passed to a component call `{% <Box> %}..{% </Box> %}` (caller's chunk, captured)
    "for-if",            // inside `for` + `if` at top level (jump-remapped region)
    "capture",           // inside a filter section (capture buffer)
    "deep",              // component body <- include <- parent block <- super() of the child
    "child-top",         // top level of a child template, outside blocks (parsed and validated, never rendered)
    // the call site itself sits inside a capture (seeded change C12-2: the `called from` note of an
    // include was dropped while a capture was open)
    "include-in-set-block",     // included template, the include tag inside `{% set v %}..{% endset %}`
    "include-in-filter",        // included template, the include tag inside a filter section
    "include-in-call-body",     // included template, the include tag inside the body of a component call
    "comp-in-capture",          // component body, the call inside a filter section
    // the call chain passes through the template that holds the fault a SECOND time: entry.html calls
    // a component of comps.html, whose body includes inc1.html, which calls the host component of
    // comps.html (seeded change C12-9: the line table used for the `called from` notes was switched
    // to another template and never switched back)
    "comp-reentry",
    // body of a component that the entry template defines itself and calls further down (the
    // component-defining template IS the entry; rendered on the fly, it is the one template of the
    // set that no registry lookup by name can find: seeded change C12-10)
    "own-comp",
    // include inside an include, the two include tags at the SAME line, column and byte range of
    // their templates (seeded change C12-14 dropped a `called from` note that looked like the
    // previous one - same label, same span - forgetting that it names another template)
    "include2-same-position",
];

/// bit masks over sites
pub const fn m(sites: &[usize]) -> u32 {
    let mut r = 0u32;
    let mut i = 0;
    while i < sites.len() {
        r |= 1 << sites[i];
        i += 1;
    }
    r
}
pub const ALL: u32 = (1 << 20) - 1;
/// sites whose code is executed by rendering entry.html
pub const RENDERED: u32 = ALL & !m(&[CHILD_TOP]);
/// sites where a `{% block %}` may be written (not inside a component definition / for / if)
pub const BLOCK_OK: u32 = m(&[TOP, BLOCK, SUPER, PARENT_TOP, INCLUDE, INCLUDE2, CALL_BODY, CAPTURE, INC_IN_SET, INC_IN_FILTER, INC_IN_CALL_BODY, INCLUDE2_SAME_POS]);
/// sites at the top level of a file, where a component definition / `extends` may be written
pub const FILE_TOP: u32 = m(&[TOP, PARENT_TOP, INCLUDE, INCLUDE2, CHILD_TOP, INC_IN_SET, INC_IN_FILTER, INC_IN_CALL_BODY, INCLUDE2_SAME_POS]);

/// What precedes the snippet (DESIGN §4 C12 paddings, plus one mixed form).
pub const PADS: [(&str, &str); 6] = [
    ("none", ""),
    ("ascii-same-line", "abc "),
    ("multibyte-same-line", "é日😀 "),
    ("two-lines-before", "l1\nl2\n"),
    ("multibyte-crlf-lines-before", "é日\r\n😀\r\n"),
    ("crlf-lines-then-multibyte-same-line", "é\r\n\r\n日😀 \t"),
];

pub const TAIL: &str = " tail é\n";

/// The variables every snippet may use. The same values are the defaults of the component that
/// hosts the snippet at the component sites (a component body only sees its arguments).
pub const CARD_ARGS: &str =
    r#"s="str", n=3, z=0, f=1.5, t=true, arr=[1, 2, 3], m={"a": 1, "k": {"x": 1}}, nul=none"#;

pub struct Planted {
    /// in registration order
    pub templates: Vec<(String, String)>,
    pub entry: &'static str,
    /// the template whose source contains the snippet
    pub file: &'static str,
    /// byte offset of the snippet in that source
    pub offset: usize,
    /// innermost first: (calling template, byte range of the calling tag in its source)
    pub calls: Vec<(&'static str, Range<usize>)>,
}

impl Planted {
    /// The same set with the entry template not registered but rendered on the fly (`render_str`):
    /// the engine calls it `__tera_one_off`.
    pub fn on_the_fly(mut self) -> Planted {
        let rename = |n: &'static str| if n == "entry.html" { ONE_OFF } else { n };
        for (n, _) in self.templates.iter_mut() {
            if n == "entry.html" {
                *n = ONE_OFF.to_string();
            }
        }
        self.entry = rename(self.entry);
        self.file = rename(self.file);
        for c in self.calls.iter_mut() {
            c.0 = rename(c.0);
        }
        self
    }
    pub fn source(&self, name: &str) -> Option<&str> {
        self.templates.iter().find(|(n, _)| n == name).map(|(_, s)| s.as_str())
    }
}

fn tag_range(src: &str, tag: &str) -> Range<usize> {
    let p = src.find(tag).expect("scaffolding tag present");
    debug_assert!(src[p + 1..].find(tag).is_none());
    p..p + tag.len()
}

const INC1_TAG: &str = r#"{% include "inc1.html" %}"#;
const INC2_TAG: &str = r#"{% include "inc2.html" %}"#;
const CARD_TAG: &str = "{{ <Card /> }}";

/// sites whose entry template neither extends nor holds a block: it can be given to `render_str`
pub const ON_THE_FLY_OK: u32 = m(&[
    TOP, INCLUDE, INCLUDE2, COMP_BODY, COMP_FROM_INCLUDE, CALL_BODY, FOR_IF, CAPTURE, INC_IN_SET, INC_IN_FILTER,
    INC_IN_CALL_BODY, COMP_IN_CAPTURE, COMP_REENTRY, OWN_COMP, INCLUDE2_SAME_POS,
]);
/// the name the engine gives to a template rendered on the fly
pub const ONE_OFF: &str = "__tera_one_off";

/// sites where the planted text runs to the end of its file (so that a snippet planted without
/// tail is followed by the end of input)
pub const FILE_END: u32 = m(&[TOP, INCLUDE, INCLUDE2, INC_IN_SET, INC_IN_FILTER, INC_IN_CALL_BODY, INCLUDE2_SAME_POS]);

pub fn plant(site: usize, pad: &str, snippet: &str, tail: bool) -> Planted {
    assert!(tail || FILE_END & (1 << site) != 0);
    let body = format!("{pad}{snippet}{}", if tail { TAIL } else { "" });
    let at = |prefix: &str| prefix.len() + pad.len();
    let mut card_body = "card".to_string();
    let mut tpls: Vec<(&'static str, String)> = vec![("leaf.html", "leaf".to_string())];
    let entry_inc = format!("top é\n  {INC1_TAG}\nend\n");
    let file: &'static str;
    let offset: usize;
    let mut calls: Vec<(&'static str, Range<usize>)> = vec![];
    match site {
        TOP => {
            file = "entry.html";
            offset = at("");
            tpls.push(("entry.html", body));
        }
        BLOCK => {
            let pre = "{% extends \"base.html\" %}\n{% block main %}";
            file = "entry.html";
            offset = at(pre);
            tpls.push(("base.html", "B0\n{% block main %}base{% endblock main %}\nB1\n".into()));
            tpls.push(("entry.html", format!("{pre}{body}{{% endblock main %}}\n")));
        }
        SUPER => {
            let pre = "é head\n{% block main %}";
            file = "base.html";
            offset = at(pre);
            tpls.push(("base.html", format!("{pre}{body}{{% endblock main %}}\nfoot\n")));
            tpls.push((
                "entry.html",
                "{% extends \"base.html\" %}{% block main %}[{{ super() }}]{% endblock main %}".into(),
            ));
        }
        PARENT_TOP => {
            file = "base.html";
            offset = at("");
            tpls.push(("base.html", format!("{body}{{% block main %}}x{{% endblock main %}}\n")));
            tpls.push((
                "entry.html",
                "{% extends \"base.html\" %}{% block main %}y{% endblock main %}".into(),
            ));
        }
        INCLUDE => {
            file = "inc1.html";
            offset = at("");
            tpls.push(("inc1.html", body));
            calls.push(("entry.html", tag_range(&entry_inc, INC1_TAG)));
            tpls.push(("entry.html", entry_inc));
        }
        INCLUDE2 => {
            file = "inc2.html";
            offset = at("");
            let inc1 = format!("日 {INC2_TAG}\n");
            tpls.push(("inc2.html", body));
            calls.push(("inc1.html", tag_range(&inc1, INC2_TAG)));
            calls.push(("entry.html", tag_range(&entry_inc, INC1_TAG)));
            tpls.push(("inc1.html", inc1));
            tpls.push(("entry.html", entry_inc));
        }
        INCLUDE2_SAME_POS => {
            file = "inc2.html";
            offset = at("");
            let inc1 = format!("{INC2_TAG}\n");
            let entry = format!("{INC1_TAG}\n");
            tpls.push(("inc2.html", body));
            calls.push(("inc1.html", tag_range(&inc1, INC2_TAG)));
            calls.push(("entry.html", tag_range(&entry, INC1_TAG)));
            tpls.push(("inc1.html", inc1));
            tpls.push(("entry.html", entry));
        }
        COMP_BODY => {
            file = "comps.html";
            offset = 0; // fixed below
            card_body = body;
            let entry = format!("a\n😀 {CARD_TAG}\n");
            calls.push(("entry.html", tag_range(&entry, CARD_TAG)));
            tpls.push(("entry.html", entry));
        }
        COMP_FROM_INCLUDE => {
            file = "comps.html";
            offset = 0;
            card_body = body;
            let inc1 = format!("x\n é {CARD_TAG}\n");
            calls.push(("inc1.html", tag_range(&inc1, CARD_TAG)));
            calls.push(("entry.html", tag_range(&entry_inc, INC1_TAG)));
            tpls.push(("inc1.html", inc1));
            tpls.push(("entry.html", entry_inc));
        }
        CALL_BODY => {
            let pre = "{% <Box> %}";
            file = "entry.html";
            offset = at(pre);
            tpls.push(("entry.html", format!("{pre}{body}{{% </Box> %}}\n")));
        }
        FOR_IF => {
            let pre = "{% for i in [1] %}{% if true %}";
            file = "entry.html";
            offset = at(pre);
            tpls.push(("entry.html", format!("{pre}{body}{{% endif %}}{{% endfor %}}\n")));
        }
        CAPTURE => {
            let pre = "{% filter upper %}";
            file = "entry.html";
            offset = at(pre);
            tpls.push(("entry.html", format!("{pre}{body}{{% endfilter %}}\n")));
        }
        DEEP => {
            file = "comps.html";
            offset = 0;
            card_body = body;
            let base = format!("{{% block main %}}é {INC1_TAG}{{% endblock main %}}\n");
            let inc1 = format!("\n\n  {CARD_TAG}");
            calls.push(("inc1.html", tag_range(&inc1, CARD_TAG)));
            calls.push(("base.html", tag_range(&base, INC1_TAG)));
            tpls.push(("base.html", base));
            tpls.push(("inc1.html", inc1));
            tpls.push((
                "entry.html",
                "{% extends \"base.html\" %}{% block main %}<{{ super() }}>{% endblock main %}".into(),
            ));
        }
        INC_IN_SET | INC_IN_FILTER | INC_IN_CALL_BODY => {
            file = "inc1.html";
            offset = at("");
            let (open, close) = match site {
                INC_IN_SET => ("{% set v %}", "{% endset %}{{ v }}"),
                INC_IN_FILTER => ("{% filter upper %}", "{% endfilter %}"),
                _ => ("{% <Box> %}", "{% </Box> %}"),
            };
            let entry = format!("top é\n  {open}x{INC1_TAG}y{close}\nend\n");
            tpls.push(("inc1.html", body));
            calls.push(("entry.html", tag_range(&entry, INC1_TAG)));
            tpls.push(("entry.html", entry));
        }
        COMP_IN_CAPTURE => {
            file = "comps.html";
            offset = 0;
            card_body = body;
            let entry = format!("a\n😀 {{% filter upper %}}{CARD_TAG}{{% endfilter %}}\n");
            calls.push(("entry.html", tag_range(&entry, CARD_TAG)));
            tpls.push(("entry.html", entry));
        }
        COMP_REENTRY => {
            file = "comps.html";
            offset = 0;
            card_body = body;
            let inc1 = format!("x\n é {CARD_TAG}\n");
            let entry = "a\n\n 😀 {{ <Wrap2 /> }}\n".to_string();
            calls.push(("inc1.html", tag_range(&inc1, CARD_TAG)));
            // the middle call site (the include inside Wrap2, in comps.html) is filled in below
            calls.push(("comps.html", 0..0));
            calls.push(("entry.html", tag_range(&entry, "{{ <Wrap2 /> }}")));
            tpls.push(("inc1.html", inc1));
            tpls.push(("entry.html", entry));
        }
        OWN_COMP => {
            let pre = format!("{{% component Own({CARD_ARGS}) %}}");
            const OWN_TAG: &str = "{{ <Own /> }}";
            file = "entry.html";
            offset = at(&pre);
            let entry = format!("{pre}{body}{{% endcomponent Own %}}\na\n😀 {OWN_TAG}\n");
            calls.push(("entry.html", tag_range(&entry, OWN_TAG)));
            tpls.push(("entry.html", entry));
        }
        CHILD_TOP => {
            let pre = "{% extends \"base.html\" %}\n";
            file = "entry.html";
            offset = at(pre);
            tpls.push(("base.html", "{% block main %}x{% endblock main %}".into()));
            tpls.push(("entry.html", format!("{pre}{body}{{% block main %}}y{{% endblock main %}}")));
        }
        _ => unreachable!("site index"),
    }
    // comps.html is part of every set: the helper components and the host component `Card`
    let card_pre = format!(
        "{{# components é #}}\n{{% component Box() %}}[{{{{ body }}}}]{{% endcomponent Box %}}\n\
         {{% component Need(a, b: integer = 1) %}}{{{{ a }}}}{{{{ b }}}}{{% endcomponent Need %}}\n\
         {{% component Rec() %}}{{{{ <Rec /> }}}}{{% endcomponent Rec %}}\n\
         {{% component Typed(q: string) %}}{{{{ q }}}}{{% endcomponent Typed %}}\n\
         {}{{% component Card({CARD_ARGS}) %}}",
        if site == COMP_REENTRY { format!("{{% component Wrap2() %}}w é\n  {INC1_TAG} w{{% endcomponent Wrap2 %}}\n") } else { String::new() }
    );
    let comps = format!("{card_pre}{card_body}{{% endcomponent Card %}}\n");
    let offset = if file == "comps.html" { card_pre.len() + pad.len() } else { offset };
    if site == COMP_REENTRY {
        let r = tag_range(&card_pre, INC1_TAG);
        calls[1] = ("comps.html", r);
    }
    let mut templates: Vec<(String, String)> = vec![("comps.html".to_string(), comps)];
    templates.extend(tpls.into_iter().map(|(n, s)| (n.to_string(), s)));
    let p = Planted { templates, entry: "entry.html", file, offset, calls };
    assert_eq!(
        &p.source(file).unwrap()[offset..offset + snippet.len()],
        snippet,
        "snippet offset bookkeeping"
    );
    p
}
