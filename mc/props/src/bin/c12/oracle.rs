//! Independent position arithmetic and report parsing for C12.
//!
//! Conventions checked (documented in `/repo/tera/src/utils.rs` `Span` and
//! `/repo/tera/src/reporting.rs`): lines are separated by `\n` and numbered from 1; columns are
//! counted in *characters* from 0 (a `\r` is an ordinary character); the byte range is half-open;
//! the displayed locus is `file:line:col+1`.
//!
//! Nothing in here calls the engine: `linecol` is a from-scratch recomputation from the byte
//! offset and `parse_report` only reads the text the engine printed.

use std::ops::Range;

/// (line 1-based, column 0-based in chars) of byte offset `off` in `src`.
/// `off` must be <= src.len() and on a char boundary (the caller checks that first).
pub fn linecol(src: &str, off: usize) -> (usize, usize) {
    let before = &src[..off];
    let line = 1 + before.bytes().filter(|b| *b == b'\n').count();
    let line_start = before.rfind('\n').map(|i| i + 1).unwrap_or(0);
    let col = before[line_start..].chars().count();
    (line, col)
}

/// The text of 1-based line `line` without its terminating `\n` (a trailing `\r` stays).
/// A source ending in `\n` has a last, empty line (that is where an end-of-input position is).
pub fn line_text(src: &str, line: usize) -> Option<&str> {
    if line == 0 {
        return None;
    }
    src.split('\n').nth(line - 1)
}

/// Byte offset of (line, col) if that is a real position of `src`: the line exists and the
/// column is at most the number of characters of the line (== means "just after the last char").
pub fn offset_of(src: &str, line: usize, col: usize) -> Option<usize> {
    if line == 0 {
        return None;
    }
    let mut start = 0usize;
    for _ in 1..line {
        start += src[start..].find('\n')? + 1;
    }
    let text = src[start..].split('\n').next().unwrap_or("");
    let mut off = start;
    let mut it = text.chars();
    for _ in 0..col {
        off += it.next()?.len_utf8();
    }
    Some(off)
}

#[derive(Clone, Debug, PartialEq, Eq)]
pub struct Locus {
    pub file: String,
    /// as printed: 1-based line, 1-based column
    pub line: usize,
    pub col1: usize,
}

#[derive(Clone, Debug)]
pub struct Excerpt {
    /// text after "error: " / "note: "
    pub head: String,
    pub locus: Locus,
    /// the source line quoted under the locus
    pub quoted: String,
    /// the `   ^^^` line, without the gutter
    pub underline: String,
}

#[derive(Clone, Debug)]
pub struct ParsedReport {
    pub main: Excerpt,
    /// (label, excerpt) of every `note: <label> file:line:col` section
    pub notes: Vec<(String, Excerpt)>,
}

fn parse_locus(s: &str) -> Option<Locus> {
    let mut it = s.rsplitn(3, ':');
    let col1 = it.next()?.trim().parse().ok()?;
    let line = it.next()?.trim().parse().ok()?;
    let file = it.next()?.to_string();
    Some(Locus { file, line, col1 })
}

/// Reads the three lines after a locus line: ` |`, `N | text`, `  | ^^^`.
fn parse_excerpt_body(lines: &[&str], i: usize, locus: &Locus) -> Result<(String, String), String> {
    let gutter = lines.get(i).ok_or("report ends after the locus line")?;
    if gutter.trim() != "|" {
        return Err(format!("expected an empty gutter line after the locus, found {gutter:?}"));
    }
    let q = lines.get(i + 1).ok_or("report has no quoted source line")?;
    let prefix = format!("{} | ", locus.line);
    let quoted = q
        .strip_prefix(&prefix)
        .ok_or_else(|| format!("quoted line {q:?} does not start with {prefix:?}"))?
        .to_string();
    let u = lines.get(i + 2).ok_or("report has no underline line")?;
    let underline = match u.find("| ") {
        Some(p) if u[..p].trim().is_empty() => u[p + 2..].to_string(),
        _ => return Err(format!("underline line {u:?} has no gutter")),
    };
    if !underline.trim_start().chars().all(|c| c == '^') || !underline.contains('^') {
        return Err(format!("underline {underline:?} is not blanks followed by carets"));
    }
    Ok((quoted, underline))
}

/// Parses one report as printed by `Error`'s `Display` (also the text of add-time `Msg` reports).
pub fn parse_report(text: &str) -> Result<ParsedReport, String> {
    let lines: Vec<&str> = text.split('\n').collect();
    let head = lines
        .first()
        .and_then(|l| l.strip_prefix("error: "))
        .ok_or("report does not start with `error: `")?;
    // the message may in principle span lines: the locus line is the first `  --> ` line
    let li = lines
        .iter()
        .position(|l| l.trim_start().starts_with("--> "))
        .ok_or("report has no `-->` line")?;
    let mut message = head.to_string();
    for l in &lines[1..li] {
        message.push('\n');
        message.push_str(l);
    }
    let locus = parse_locus(lines[li].trim_start().strip_prefix("--> ").unwrap())
        .ok_or_else(|| format!("cannot read file:line:col from {:?}", lines[li]))?;
    let (quoted, underline) = parse_excerpt_body(&lines, li + 1, &locus)?;
    let main = Excerpt { head: message, locus, quoted, underline };
    let mut notes = vec![];
    let mut i = li + 4;
    while i < lines.len() {
        let l = lines[i];
        if let Some(rest) = l.strip_prefix("note: ") {
            // "<label words> file:line:col" — the locus is the last blank-separated field
            let (label, loc) = rest.rsplit_once(' ').ok_or_else(|| format!("bad note line {l:?}"))?;
            let locus = parse_locus(loc).ok_or_else(|| format!("cannot read the locus of note {l:?}"))?;
            let (quoted, underline) = parse_excerpt_body(&lines, i + 1, &locus)?;
            notes.push((label.to_string(), Excerpt { head: rest.to_string(), locus, quoted, underline }));
            i += 4;
        } else {
            i += 1;
        }
    }
    Ok(ParsedReport { main, notes })
}

/// `a` contains `b` entirely.
pub fn contains(a: &Range<usize>, b: &Range<usize>) -> bool {
    a.start <= b.start && b.end <= a.end
}

/// A (possibly empty) span touches a culprit: it contains the whole culprit, or — for an empty
/// span, which the report prints as one caret — it sits on a character of the culprit.
pub fn covers(span: &Range<usize>, culprit: &Range<usize>) -> bool {
    if span.start == span.end {
        culprit.start <= span.start && span.start < culprit.end.max(culprit.start + 1)
    } else {
        contains(span, culprit)
    }
}

#[cfg(test)]
mod tests {
    use super::*;
    #[test]
    fn lc() {
        let s = "ab\né日😀 x\r\nq";
        assert_eq!(linecol(s, 0), (1, 0));
        assert_eq!(linecol(s, 3), (2, 0));
        let off = s.find('x').unwrap();
        assert_eq!(linecol(s, off), (2, 4));
        assert_eq!(offset_of(s, 2, 4), Some(off));
        assert_eq!(linecol(s, s.len()), (3, 1));
        assert_eq!(offset_of(s, 3, 1), Some(s.len()));
        assert_eq!(offset_of(s, 3, 2), None);
        assert_eq!(offset_of(s, 4, 0), None);
        assert_eq!(line_text(s, 2), Some("é日😀 x\r"));
    }
}
