//! C12 — errors identify the right template and source position and always display.
//!
//! Fault enumeration with a known planted extent, executed on the real engine:
//!   render-faults    every rendering-error site of vm/interpreter.rs (catalogue.rs) x every site of a
//!                    multi-template set (sites.rs) x 6 paddings
//!   syntax-faults    a representative of every lexer / parser error x sites x paddings
//!   addtime-faults   unknown filter / test / function / component / include target, orphan block
//!                    (`Msg` whose text is a report) x sites x paddings
//!   token-deletions  every single-token deletion of 37 small valid templates x sites x paddings
//!   two-deviations   (thorough) every pair of token deletions / substitutions of the same templates,
//!                    structure checks only
//!
//! A token edit is judged like an unclosed construct: the span lies between the start of the edited
//! text and the end of its source (the parser may only notice later; a lexer error for a construct
//! left open points back at its opening delimiter).
//!
//! Oracle (oracle.rs, independent of the engine): the report names the template that holds the
//! planted snippet; the byte range lies in that source on char boundaries; line/column recomputed
//! from the byte range equal the stored ones; the span lies inside the snippet and contains a
//! marked culprit token; Display does not panic, prints `--> file:line:col+1` and quotes the
//! line the span starts on; the `note: called from` lines are exactly the include / component
//! call chain of the site, innermost first.

mod catalogue;
mod errsites;
mod oracle;
mod sites;

use catalogue::{Class, Extent, Fault};
use mccore::engine::{self, kind_tag};
use mccore::{Acc, Family, Run, json};
use oracle::{contains, covers, line_text, linecol, offset_of, parse_report};
use sites::{PADS, Planted, SITES, plant};
use std::ops::Range;
use tera::{ErrorKind, ReportError};

fn context() -> tera::Context {
    let mut c = tera::Context::new();
    c.insert("s", "str");
    c.insert("n", &3);
    c.insert("z", &0);
    c.insert("f", &1.5);
    c.insert("t", &true);
    c.insert("arr", &vec![1, 2, 3]);
    c.insert_value("m", {
        let mut k = tera::Map::new();
        k.insert("x".into(), tera::Value::from(1));
        let mut m = tera::Map::new();
        m.insert("a".into(), tera::Value::from(1));
        m.insert("k".into(), tera::Value::from(k));
        tera::Value::from(m)
    });
    c.insert_value("nul", tera::Value::none());
    c.insert("huge", &u128::MAX);
    c
}

const CONTEXT_DESCRIPTION: &str = r#"s="str" n=3 z=0 f=1.5 t=true arr=[1,2,3] m={"a":1,"k":{"x":1}} nul=none huge=u128::MAX; u unbound"#;

/// What the engine answered for one planted case.
enum Observed {
    NoError,
    Panic { phase: &'static str, msg: String },
    Error { phase: &'static str, err: tera::Error },
}

thread_local! {
    /// Set by the family `render-faults-at-end-of-file`: the snippet is the last thing in its file
    /// (no text after it, no trailing newline).
    static NO_TAIL: std::cell::Cell<bool> = const { std::cell::Cell::new(false) };
}

thread_local! {
    /// Set by the family `render-faults-after-refused-readd`.
    static AFTER_REFUSED_READD: std::cell::Cell<bool> = const { std::cell::Cell::new(false) };
}

thread_local! {
    /// Set by the family `render-faults-on-the-fly`: the entry template is not registered but given
    /// to `render_str`.
    static ON_THE_FLY: std::cell::Cell<bool> = const { std::cell::Cell::new(false) };
}

thread_local! {
    /// (refused after parsing, refused by the parser, not refused) re-registrations
    static READD_STATS: std::cell::Cell<(u64, u64, u64)> = const { std::cell::Cell::new((0, 0, 0)) };
}

/// The same template with everything (after a leading `{% extends %}` tag) moved down three lines.
fn moved_down(src: &str) -> String {
    let pad = "\n\n\n{# moved #}  ";
    if src.trim_start().starts_with("{% extends")
        && let Some(end) = src.find("%}")
    {
        return format!("{}{pad}{}", &src[..end + 2], &src[end + 2..]);
    }
    format!("{pad}{src}")
}

fn execute(p: &Planted, render: bool, ctx: &tera::Context) -> Observed {
    execute_with(p, render, ctx, None)
}

fn execute_with(p: &Planted, render: bool, ctx: &tera::Context, delims: Option<tera::Delimiters>) -> Observed {
    let mut tera = tera::Tera::default();
    if let Some(d) = delims {
        tera.set_delimiters(d).expect("delimiter set is accepted");
    }
    let added = engine::guarded(|| {
        tera.add_raw_templates(p.templates.iter().filter(|(a, _)| a != sites::ONE_OFF).map(|(a, b)| (a.as_str(), b.as_str())))
    });
    match added {
        Err(msg) => return Observed::Panic { phase: "add", msg },
        Ok(Err(err)) => return Observed::Error { phase: "add", err },
        Ok(Ok(())) => {}
    }
    if !render {
        return Observed::NoError;
    }
    if AFTER_REFUSED_READD.with(|c| c.get()) {
        // Every template is offered again with its text moved down three lines, in one batch with a
        // template that uses an unknown filter: the batch is refused at validation time (after
        // parsing and compiling), and nothing of it may show in a later report.
        let mut batch: Vec<(String, String)> = p.templates.iter().map(|(n, s)| (n.clone(), moved_down(s))).collect();
        // ... and a second time, moved down again: a batch may name a template twice, and undoing it
        // must go through both replacements in reverse (seeded change C12-15: undone front to back,
        // the first replacement stayed registered under chunks compiled from the original)
        let again: Vec<(String, String)> = batch.iter().map(|(n, s)| (n.clone(), moved_down(s))).collect();
        batch.extend(again);
        batch.push(("zz-refused".to_string(), "{{ 1 | zz_no_such_filter }}".to_string()));
        match engine::guarded(|| tera.add_raw_templates(batch.iter().map(|(a, b)| (a.as_str(), b.as_str())))) {
            Ok(Err(e)) => READD_STATS.with(|c| {
                let mut v = c.get();
                if matches!(e.kind(), ErrorKind::SyntaxError(_)) { v.1 += 1 } else { v.0 += 1 }
                c.set(v);
            }),
            // not this check's business (C07 / C10 judge acceptance): fall back to the plain case
            _ => return AFTER_REFUSED_READD.with(|c| {
                READD_STATS.with(|c| {
                    let mut v = c.get();
                    v.2 += 1;
                    c.set(v);
                });
                c.set(false);
                let o = execute_with(p, render, ctx, None);
                c.set(true);
                o
            }),
        }
    }
    if p.entry == sites::ONE_OFF {
        let src = p.source(sites::ONE_OFF).unwrap();
        return match engine::guarded(|| tera.render_str(src, ctx, true)) {
            Err(msg) => Observed::Panic { phase: "render", msg },
            Ok(Err(err)) => Observed::Error { phase: "render", err },
            Ok(Ok(_)) => Observed::NoError,
        };
    }
    match engine::guarded(|| tera.render(p.entry, ctx)) {
        Err(msg) => Observed::Panic { phase: "render", msg },
        Ok(Err(err)) => Observed::Error { phase: "render", err },
        Ok(Ok(_)) => Observed::NoError,
    }
}

/// How much of the position is judged.
#[derive(Clone, Copy, PartialEq)]
enum Judge {
    /// structure + snippet extent + culprit + call notes
    Full,
    /// structure only
    Structure,
}

struct CaseInfo<'a> {
    id: &'a str,
    site: usize,
    pad: usize,
    planted: &'a Planted,
    snippet: Range<usize>,
    culprits: Vec<Range<usize>>,
    extent: Extent,
    expect_calls: bool,
}

impl CaseInfo<'_> {
    fn json(&self, observed: serde_json::Value) -> serde_json::Value {
        let src = self.planted.source(self.planted.file).unwrap();
        json!({
            "fault": self.id,
            "site": SITES[self.site],
            "padding": PADS[self.pad].0,
            "templates": self.planted.templates.iter().map(|(n, s)| json!({"name": n, "source": s})).collect::<Vec<_>>(),
            "render": self.planted.entry,
            "context": CONTEXT_DESCRIPTION,
            "history": if self.planted.entry == sites::ONE_OFF {
                "every other template registered, then the source listed as __tera_one_off given to render_str(.., autoescape = true)"
            } else if AFTER_REFUSED_READD.with(|c| c.get()) {
                "registered; then add_raw_templates(every template moved down three lines + every template moved down six lines + a template using an unknown filter) was refused; then rendered"
            } else {
                "registered, then rendered"
            },
            "fault_template": self.planted.file,
            "snippet_bytes": [self.snippet.start, self.snippet.end],
            "snippet": &src[self.snippet.clone()],
            "culprits": self.culprits.iter().map(|c| json!({"bytes": [c.start, c.end], "text": &src[c.clone()]})).collect::<Vec<_>>(),
            "expected_call_chain": self.planted.calls.iter().map(|(f, r)| json!({"template": f, "tag_bytes": [r.start, r.end]})).collect::<Vec<_>>(),
            "observed": observed,
        })
    }
}

fn span_json(r: &ReportError) -> serde_json::Value {
    let s = r.span();
    json!({
        "filename": r.filename(),
        "message": r.message(),
        "start": [s.start_line, s.start_col],
        "end": [s.end_line, s.end_col],
        "bytes": [s.range.start, s.range.end],
    })
}

/// Judges a `SyntaxError` / `RenderingError`. Returns the precision class of the span.
fn judge_report(
    r: &ReportError,
    errclass: &str,
    display: Result<String, String>,
    c: &CaseInfo<'_>,
    judge: Judge,
    acc: &mut Acc,
) -> &'static str {
    let span = r.span();
    let observed = || {
        let mut o = span_json(r);
        o["kind"] = json!(errclass);
        o["display"] = match &display {
            Ok(d) => json!(d),
            Err(p) => json!(format!("PANIC: {p}")),
        };
        o
    };
    let flag = |acc: &mut Acc, sig: String, msg: String| {
        acc.violation(sig, msg, || c.json(observed()));
    };
    let site = SITES[c.site];

    // 1. the template
    let file_ok = r.filename() == c.planted.file;
    if !file_ok {
        flag(
            acc,
            format!("wrong-template:{site}"),
            format!(
                "the report names template {:?}, the offending code is in {:?}",
                r.filename(),
                c.planted.file
            ),
        );
    }
    // 5a. display must not panic, whatever else is wrong
    if let Err(p) = &display {
        flag(acc, format!("display-panic:{errclass}"), format!("formatting the error panicked: {p}"));
    }
    // the span is judged against the source of the template the report names
    let Some(src) = c.planted.source(r.filename()) else {
        return "bad";
    };
    // 2. the byte range
    let rg = span.range.clone();
    if rg.start > rg.end || rg.end > src.len() {
        flag(
            acc,
            format!("span-out-of-source:{errclass}"),
            format!("byte range {rg:?} is not inside the {}-byte source of {:?}", src.len(), r.filename()),
        );
        return "bad";
    }
    if !src.is_char_boundary(rg.start) || !src.is_char_boundary(rg.end) {
        flag(
            acc,
            format!("span-not-on-char-boundary:{errclass}"),
            format!("byte range {rg:?} cuts a multi-byte character of {:?}", r.filename()),
        );
        return "bad";
    }
    // 3. line / column against the byte range
    let eoi = r.message() == "Unexpected end of input";
    let want_start = linecol(src, rg.start);
    let want_end = linecol(src, rg.end);
    if (span.start_line, span.start_col) != want_start {
        flag(
            acc,
            if eoi { "eoi-span-range-inconsistent".to_string() } else { format!("linecol-mismatch:start:{errclass}") },
            format!(
                "span starts at byte {} = line {} column {} (chars, 0-based), the report stores {}:{}",
                rg.start, want_start.0, want_start.1, span.start_line, span.start_col
            ),
        );
    }
    if (span.end_line, span.end_col) != want_end {
        flag(
            acc,
            if eoi { "eoi-span-range-inconsistent".to_string() } else { format!("linecol-mismatch:end:{errclass}") },
            format!(
                "span ends at byte {} = line {} column {} (chars, 0-based), the report stores {}:{}",
                rg.end, want_end.0, want_end.1, span.end_line, span.end_col
            ),
        );
    }
    // 4. the extent
    let mut precision = "structure-only";
    if file_ok {
        match judge {
            Judge::Full => {
                let allowed = match c.extent {
                    Extent::Snippet => c.snippet.clone(),
                    Extent::ToEnd => c.snippet.start..src.len(),
                };
                if !contains(&allowed, &rg) {
                    flag(
                        acc,
                        format!("span-outside-fault:{}", c.id),
                        format!(
                            "span {rg:?} ({:?}) is not inside the planted construct {allowed:?}",
                            &src[rg.clone()]
                        ),
                    );
                    precision = "outside";
                } else if c.culprits.is_empty() {
                    precision = if c.extent == Extent::ToEnd { "after-unclosed-construct" } else { "inside-snippet" };
                } else if let Some(hit) = c.culprits.iter().find(|k| covers(&rg, k)) {
                    precision = if rg.start == rg.end {
                        "zero-width-on-culprit"
                    } else if rg == *hit {
                        "exactly-culprit"
                    } else {
                        "wider-than-culprit"
                    };
                } else {
                    flag(
                        acc,
                        format!("span-misses-culprit:{}", c.id),
                        format!(
                            "span {rg:?} ({:?}) covers none of the offending tokens {:?}",
                            &src[rg.clone()],
                            c.culprits.iter().map(|k| &src[k.clone()]).collect::<Vec<_>>()
                        ),
                    );
                    precision = "misses-culprit";
                }
            }
            Judge::Structure => {}
        }
    }
    // 5b. display: locus and quoted line
    if let Ok(text) = &display {
        match parse_report(text) {
            Err(why) => flag(acc, format!("display-malformed:{errclass}"), why),
            Ok(rep) => {
                if rep.main.head != r.message() {
                    flag(
                        acc,
                        format!("display-message:{errclass}"),
                        format!("printed message {:?} differs from message() {:?}", rep.main.head, r.message()),
                    );
                }
                let l = &rep.main.locus;
                if l.file != r.filename() || l.line != span.start_line || l.col1 != span.start_col + 1 {
                    flag(
                        acc,
                        format!("display-locus:{errclass}"),
                        format!(
                            "printed locus {}:{}:{} is not <filename>:<start line>:<start column + 1> = {}:{}:{}",
                            l.file,
                            l.line,
                            l.col1,
                            r.filename(),
                            span.start_line,
                            span.start_col + 1
                        ),
                    );
                }
                // the stored start line (its agreement with the byte range is check 3)
                let want = line_text(src, span.start_line);
                if want.is_none_or(|w| rep.main.quoted.trim_end_matches('\r') != w.trim_end_matches('\r')) {
                    flag(
                        acc,
                        format!("display-line:{errclass}"),
                        format!("quoted line {:?} is not line {} of the source: {want:?}", rep.main.quoted, span.start_line),
                    );
                }
                // 6. call-site notes
                if c.expect_calls || judge == Judge::Full {
                    let got: Vec<_> = rep.notes.iter().filter(|(label, _)| label == "called from").collect();
                    let want: &[(&str, Range<usize>)] = if c.expect_calls { &c.planted.calls } else { &[] };
                    if got.len() != want.len() {
                        flag(
                            acc,
                            format!("call-notes:count:{site}"),
                            format!(
                                "{} `called from` note(s) {:?}, the call chain of this site has {} link(s) {:?}",
                                got.len(),
                                got.iter().map(|(_, e)| format!("{}:{}:{}", e.locus.file, e.locus.line, e.locus.col1)).collect::<Vec<_>>(),
                                want.len(),
                                want.iter().map(|(f, _)| *f).collect::<Vec<_>>()
                            ),
                        );
                    } else {
                        for (i, ((_, e), (wfile, wtag))) in got.iter().zip(want).enumerate() {
                            let csrc = c.planted.source(wfile).unwrap();
                            let ok = e.locus.file == *wfile
                                && e.locus.col1 >= 1
                                && offset_of(csrc, e.locus.line, e.locus.col1 - 1)
                                    .is_some_and(|o| wtag.start <= o && o < wtag.end)
                                && line_text(csrc, e.locus.line)
                                    .is_some_and(|t| t.trim_end_matches('\r') == e.quoted.trim_end_matches('\r'));
                            if !ok {
                                flag(
                                    acc,
                                    format!("call-notes:target:{site}"),
                                    format!(
                                        "note #{i} points at {}:{}:{} quoting {:?}; expected a position inside {:?} of {wfile}",
                                        e.locus.file,
                                        e.locus.line,
                                        e.locus.col1,
                                        e.quoted,
                                        &csrc[wtag.clone()]
                                    ),
                                );
                            }
                        }
                    }
                }
            }
        }
    }
    precision
}

/// Judges an add-time `Msg` whose text is a report (no byte range available: the `-->` line).
fn judge_msg_report(text: &str, c: &CaseInfo<'_>, acc: &mut Acc) -> &'static str {
    let observed = || json!({"kind": "Msg", "display": text});
    let flag = |acc: &mut Acc, sig: String, msg: String| {
        acc.violation(sig, msg, || c.json(observed()));
    };
    let rep = match parse_report(text) {
        Ok(r) => r,
        Err(why) => {
            flag(acc, "addtime-malformed".into(), format!("the message is not a report: {why}"));
            return "bad";
        }
    };
    let l = &rep.main.locus;
    if l.file != c.planted.file {
        flag(
            acc,
            format!("addtime-wrong-template:{}", SITES[c.site]),
            format!("the report names {:?}, the reference is in {:?}", l.file, c.planted.file),
        );
        return "bad";
    }
    let src = c.planted.source(c.planted.file).unwrap();
    let Some(off) = (l.col1 >= 1).then(|| offset_of(src, l.line, l.col1 - 1)).flatten() else {
        flag(
            acc,
            "addtime-unreal-position".into(),
            format!("{}:{} is not a position of {:?}", l.line, l.col1, l.file),
        );
        return "bad";
    };
    if line_text(src, l.line).unwrap_or("").trim_end_matches('\r') != rep.main.quoted.trim_end_matches('\r') {
        flag(
            acc,
            "addtime-display-line".into(),
            format!("quoted line {:?} is not line {} of the source", rep.main.quoted, l.line),
        );
    }
    // the carets: `width` characters starting at the locus (one line only)
    let width = rep.main.underline.chars().filter(|ch| *ch == '^').count();
    let lead = rep.main.underline.chars().take_while(|ch| *ch != '^').count();
    if lead != l.col1 - 1 {
        flag(
            acc,
            "addtime-underline-column".into(),
            format!("the carets start at column {} but the locus says {}", lead + 1, l.col1),
        );
    }
    let end = src[off..].char_indices().nth(width).map(|(i, _)| off + i).unwrap_or(src.len());
    let rg = off..end;
    if !contains(&c.snippet, &(off..off)) {
        flag(
            acc,
            format!("span-outside-fault:{}", c.id),
            format!("the report points at byte {off}, outside the planted construct {:?}", c.snippet),
        );
        return "outside";
    }
    if let Some(hit) = c.culprits.iter().find(|k| k.start <= off && off < k.end) {
        if rg == *hit { "exactly-culprit" } else { "starts-in-culprit" }
    } else if c.culprits.is_empty() {
        "inside-snippet"
    } else {
        flag(
            acc,
            format!("span-misses-culprit:{}", c.id),
            format!(
                "the report points at byte {off} ({:?}...), not at the unknown name {:?}",
                src[off..].chars().take(8).collect::<String>(),
                c.culprits.iter().map(|k| &src[k.clone()]).collect::<Vec<_>>()
            ),
        );
        "misses-culprit"
    }
}

fn short(msg: &str) -> String {
    let m = msg.split(" Available ").next().unwrap_or(msg);
    let m = m.split(" Possible ").next().unwrap_or(m);
    m.lines().next().unwrap_or("").chars().take(72).collect()
}

/// Runs one catalogue fault at one site with one padding.
fn run_fault(f: &Fault, site: usize, pad: usize, ctx: &tera::Context, acc: &mut Acc) {
    let planted = plant(site, PADS[pad].1, &f.text, !f.at_eof && !NO_TAIL.with(|c| c.get()));
    let planted = if ON_THE_FLY.with(|c| c.get()) { planted.on_the_fly() } else { planted };
    let snippet = planted.offset..planted.offset + f.text.len();
    let info = CaseInfo {
        id: &f.id,
        site,
        pad,
        planted: &planted,
        snippet: snippet.clone(),
        culprits: f.culprits.iter().map(|k| k.start + snippet.start..k.end + snippet.start).collect(),
        extent: f.extent,
        expect_calls: f.class == Class::Render,
    };
    let obs = execute(&planted, f.class == Class::Render, ctx);
    match obs {
        Observed::NoError => {
            // the catalogue promised a fault here
            acc.case(false, "no-error");
            acc.count(&format!("no-error/{}@{}", f.id, SITES[site]), 1);
        }
        Observed::Panic { phase, msg } => {
            acc.violation(format!("panic:{phase}"), format!("the engine panicked: {msg}"), || {
                info.json(json!({"panic": msg}))
            });
            acc.case(true, "panic");
        }
        Observed::Error { phase, err } => {
            let display = engine::guarded(|| err.to_string());
            let want_phase = if f.class == Class::Render { "render" } else { "add" };
            match err.kind() {
                ErrorKind::SyntaxError(r) | ErrorKind::RenderingError(r) => {
                    let errclass = if matches!(err.kind(), ErrorKind::SyntaxError(_)) { "syntax" } else { "render" };
                    acc.count(&format!("message/{errclass}/{}", short(r.message())), 1);
                    acc.count(&format!("site/{}", errsites::classify(errclass, r.message())), 1);
                    let class_ok = phase == want_phase
                        && match f.class {
                            Class::Render => errclass == "render",
                            Class::Syntax => errclass == "syntax",
                            Class::AddTime => false,
                        };
                    if !class_ok || f.unpositioned {
                        // not the fault the catalogue planted: still a report, judged on structure
                        judge_report(r, errclass, display, &info, Judge::Structure, acc);
                        acc.case(true, "other-error-than-planted");
                        acc.count(&format!("other-error/{}@{}", f.id, SITES[site]), 1);
                    } else {
                        let shown = display.clone().unwrap_or_default();
                        let p = judge_report(r, errclass, display, &info, Judge::Full, acc);
                        acc.case(true, &format!("{errclass}:{p}"));
                        if pad == 4 && site % 3 == 1 && acc.wants_sample() {
                            acc.sample(|| {
                                let mut o = span_json(r);
                                o["display"] = json!(shown);
                                o["precision"] = json!(p);
                                info.json(o)
                            });
                        }
                    }
                }
                ErrorKind::Msg(text) if f.class == Class::AddTime && phase == "add" => {
                    acc.count(&format!("message/addtime/{}", short(text.strip_prefix("error: ").unwrap_or(text))), 1);
                    acc.count(&format!("site/{}", errsites::classify("addtime", text)), 1);
                    if let Err(p) = &display {
                        acc.violation("display-panic:addtime", format!("formatting the error panicked: {p}"), || {
                            info.json(json!({"kind": "Msg"}))
                        });
                    }
                    let p = judge_msg_report(text, &info, acc);
                    acc.case(true, &format!("addtime:{p}"));
                    if pad == 4 && acc.wants_sample() {
                        acc.sample(|| info.json(json!({"kind": "Msg", "display": text, "precision": p})));
                    }
                }
                other => {
                    // position-less: listed, not judged (DESIGN §4 C12)
                    let tag = kind_tag(other);
                    if let Err(p) = &display {
                        acc.violation(format!("display-panic:{tag}"), format!("formatting the error panicked: {p}"), || {
                            info.json(json!({"kind": tag}))
                        });
                    }
                    acc.case(f.unpositioned, &format!("unpositioned:{tag}"));
                    let listed = if f.unpositioned { "unpositioned" } else { "unpositioned-unexpected" };
                    acc.count(&format!("{listed}/{}@{phase}:{tag}", f.id), 1);
                    if !f.unpositioned {
                        acc.count("unpositioned-unexpected", 1);
                    }
                    if acc.wants_sample() && f.unpositioned {
                        let d = display.unwrap_or_default();
                        acc.sample(|| info.json(json!({"kind": tag, "display": d})));
                    }
                }
            }
        }
    }
}

/// An edited valid template: registration only; judged like an unclosed construct.
fn run_edit(id: &str, text: &str, site: usize, pad: usize, count_messages: bool, ctx: &tera::Context, acc: &mut Acc) {
    let planted = plant(site, PADS[pad].1, text, true);
    let snippet = planted.offset..planted.offset + text.len();
    let info = CaseInfo {
        id,
        site,
        pad,
        planted: &planted,
        snippet: snippet.clone(),
        culprits: vec![],
        extent: Extent::ToEnd,
        expect_calls: false,
    };
    match execute(&planted, false, ctx) {
        Observed::NoError => acc.case(false, "still-valid"),
        Observed::Panic { phase, msg } => {
            acc.violation(format!("panic:{phase}"), format!("the engine panicked: {msg}"), || {
                info.json(json!({"panic": msg}))
            });
            acc.case(true, "panic");
        }
        Observed::Error { err, .. } => {
            let display = engine::guarded(|| err.to_string());
            match err.kind() {
                ErrorKind::SyntaxError(r) => {
                    judge_report(r, "syntax", display, &info, Judge::Full, acc);
                    if count_messages {
                        acc.count(&format!("message/syntax/{}", short(r.message())), 1);
                        acc.count(&format!("site/{}", errsites::classify("syntax", r.message())), 1);
                    }
                    acc.case(true, "syntax-error");
                    if pad == 4 && acc.wants_sample() {
                        let shown = err.to_string();
                        acc.sample(|| {
                            let mut o = span_json(r);
                            o["display"] = json!(shown);
                            info.json(o)
                        });
                    }
                }
                ErrorKind::Msg(text) if text.starts_with("error: ") && text.contains("--> ") => {
                    // the edit produced an unknown reference: a report without byte range
                    if let Err(p) = &display {
                        acc.violation("display-panic:addtime", format!("formatting the error panicked: {p}"), || {
                            info.json(json!({"kind": "Msg"}))
                        });
                    }
                    // several reports may be joined; each must parse and name a real position
                    for part in text.split("\n\nerror: ") {
                        let part = if part.starts_with("error: ") { part.to_string() } else { format!("error: {part}") };
                        match parse_report(&part) {
                            Err(why) => acc.violation("addtime-malformed", why, || info.json(json!({"kind": "Msg", "display": text}))),
                            Ok(rep) => {
                                let l = &rep.main.locus;
                                let ok = planted.source(&l.file).is_some_and(|src| {
                                    l.col1 >= 1
                                        && offset_of(src, l.line, l.col1 - 1).is_some()
                                        && line_text(src, l.line).unwrap_or("").trim_end_matches('\r')
                                            == rep.main.quoted.trim_end_matches('\r')
                                });
                                if !ok {
                                    acc.violation(
                                        "addtime-unreal-position",
                                        format!("{}:{}:{} is not a position of a template of the set, or the quoted line differs", l.file, l.line, l.col1),
                                        || info.json(json!({"kind": "Msg", "display": text})),
                                    );
                                }
                            }
                        }
                    }
                    acc.case(true, "addtime-report");
                }
                other => acc.case(false, &format!("unpositioned:{}", kind_tag(other))),
            }
        }
    }
}

/// Custom delimiter sets: D1 `<% %> << >> <# #>`, D2 one two-byte character each.
const CUSTOM_DELIMS: [(&str, [&str; 6]); 2] = [
    ("D1", ["<%", "%>", "<<", ">>", "<#", "#>"]),
    ("D2", ["¶", "§", "«", "»", "¿", "¡"]),
];

/// Brace-free faults spelled with placeholders: ⟪ ⟫ variable, ⟦ ⟧ block, ⟨ ⟩ comment delimiters.
/// (render?, text) — several tags / expressions / comments BEFORE the fault on the same line, so
/// that every delimiter the lexer passes contributes to the column.
const CUSTOM_FAULTS: [(&str, bool, &str); 10] = [
    ("div-zero", true, "⟪ 1 ⟫⟨ c ⟩⟪ 1 / 0 ⟫"),
    ("undefined", true, "⟦ if true ⟧a⟦ endif ⟧ ⟪ u ⟫"),
    ("math-on-string", true, "⟪- 2 -⟫ x ⟪ s + 1 ⟫"),
    ("filter-arg", true, "⟨- c -⟩⟪ 3 ⟫ ⟪ s | truncate(length=s) ⟫"),
    ("for-non-iterable", true, "⟪ 1 ⟫⟪ 2 ⟫⟦ for x in n ⟧y⟦ endfor ⟧"),
    ("syntax-operand", false, "⟪ 1 ⟫ é ⟪ 1 + ⟫"),
    ("syntax-empty-if", false, "⟦ set q = 1 ⟧⟪ q ⟫⟦ if ⟧a⟦ endif ⟧"),
    ("syntax-unterminated-string", false, "⟪ 1 ⟫⟪ \"abc ⟫"),
    ("syntax-unknown-tag", false, "⟨ c ⟩⟨ d ⟩⟦ nope ⟧"),
    ("addtime-unknown-filter", false, "⟪ 1 ⟫⟪ 2 ⟫⟪ s | no_such_filter ⟫"),
];

fn respell(text: &str, d: &[&str; 6]) -> String {
    text.replace('⟦', d[0]).replace('⟧', d[1]).replace('⟪', d[2]).replace('⟫', d[3]).replace('⟨', d[4]).replace('⟩', d[5])
}

fn run_custom(dset: usize, fault: usize, pad: usize, ctx: &tera::Context, acc: &mut Acc) {
    let (dname, d) = &CUSTOM_DELIMS[dset];
    let (id, render, text) = CUSTOM_FAULTS[fault];
    let text = respell(text, d);
    let id = format!("custom-delimiters/{dname}/{id}");
    let planted = plant(sites::TOP, PADS[pad].1, &text, true);
    let info = CaseInfo {
        id: &id,
        site: sites::TOP,
        pad,
        planted: &planted,
        snippet: planted.offset..planted.offset + text.len(),
        culprits: vec![],
        extent: Extent::ToEnd,
        expect_calls: false,
    };
    let delims = tera::Delimiters {
        block_start: d[0].into(),
        block_end: d[1].into(),
        variable_start: d[2].into(),
        variable_end: d[3].into(),
        comment_start: d[4].into(),
        comment_end: d[5].into(),
    };
    match execute_with(&planted, render, ctx, Some(delims)) {
        Observed::NoError => {
            acc.violation(format!("planted-fault-did-not-fail:{id}"), "no error was raised", || info.json(json!({})));
            acc.case(true, "no-error");
        }
        Observed::Panic { phase, msg } => {
            acc.violation(format!("panic:{phase}"), format!("the engine panicked: {msg}"), || info.json(json!({"panic": msg})));
            acc.case(true, "panic");
        }
        Observed::Error { err, .. } => {
            let display = engine::guarded(|| err.to_string());
            match err.kind() {
                ErrorKind::SyntaxError(r) => {
                    judge_report(r, "syntax", display, &info, Judge::Structure, acc);
                    acc.case(true, "syntax-error");
                }
                ErrorKind::RenderingError(r) => {
                    judge_report(r, "render", display, &info, Judge::Structure, acc);
                    acc.case(true, "render-error");
                }
                ErrorKind::Msg(text) if text.starts_with("error: ") && text.contains("--> ") => {
                    match parse_report(text) {
                        Err(why) => acc.violation("addtime-malformed", why, || info.json(json!({"kind": "Msg", "display": text}))),
                        Ok(rep) => {
                            let l = &rep.main.locus;
                            let src = planted.source(&l.file);
                            // the reported column must be the character column of the unknown name
                            let want = src.and_then(|s| s.find("no_such_filter").map(|o| oracle::linecol(s, o)));
                            if src.is_none() || want.map(|(line, col)| (line, col + 1)) != Some((l.line, l.col1)) {
                                acc.violation(
                                    "addtime-unreal-position",
                                    format!("{}:{}:{} reported, the unknown filter name is at {:?} (line, 0-based char column)", l.file, l.line, l.col1, want),
                                    || info.json(json!({"kind": "Msg", "display": text})),
                                );
                            }
                        }
                    }
                    acc.case(true, "addtime-report");
                }
                other => {
                    acc.violation(format!("unpositioned:{id}"), format!("error without a position: {}", kind_tag(other)), || info.json(json!({})));
                    acc.case(true, "unpositioned");
                }
            }
        }
    }
    if pad == 2 && acc.wants_sample() {
        acc.sample(|| json!({"fault": id, "template": planted.source("entry.html")}));
    }
}

fn join(tokens: &[String]) -> String {
    tokens.concat()
}

fn main() {
    let faults = catalogue::faults();
    let bases = catalogue::base_templates();
    let ctx = context();

    // developer aid: C12_DUMP=<substring of fault id> prints what the engine says (site top, no padding)
    if let Ok(pat) = std::env::var("C12_DUMP") {
        engine::init_silent_panics();
        for f in faults.iter().filter(|f| f.id.contains(&pat)) {
            let site = (0..SITES.len()).find(|s| f.sites & (1 << s) != 0).unwrap();
            let p = plant(site, "", &f.text, !f.at_eof);
            let head = format!("{:<40} [{}] {:?}", f.id, SITES[site], f.text.chars().take(90).collect::<String>());
            match execute(&p, f.class == Class::Render, &ctx) {
                Observed::NoError => println!("{head}\n      NO ERROR"),
                Observed::Panic { phase, msg } => println!("{head}\n      PANIC in {phase}: {msg}"),
                Observed::Error { phase, err } => {
                    if let ErrorKind::SyntaxError(r) | ErrorKind::RenderingError(r) = err.kind() {
                        let src = p.source(r.filename()).unwrap_or("");
                        let txt = src.get(r.span().range.clone()).unwrap_or("<bad range>");
                        println!("{head}\n      {phase} {} {:?} span{:?} = {:?}", kind_tag(err.kind()), short(r.message()), r.span(), txt);
                    } else {
                        println!("{head}\n      {phase} {}: {:?}", kind_tag(err.kind()), err.to_string());
                    }
                    if std::env::var("C12_DUMP_FULL").is_ok() {
                        for l in err.to_string().lines() {
                            println!("      | {l}");
                        }
                    }
                }
            }
        }
        return;
    }

    let mut run = Run::from_env("C12", "fault_enumeration");
    let thorough = run.tier.is_thorough();
    run.rule(
        "One case = one planted fault (catalogue entry, or one token edit of a small valid template) at one \
         site of the multi-template set with one padding in front of it; cases are distinct by construction \
         (catalogue texts are pairwise different, deletions of one template spell different texts (guarded), \
         no-op substitutions are skipped and equal texts inside one work item of the two-deviation family are \
         run once; two different edit pairs of different first edits could in principle spell the same text, \
         this is not removed). Non-trivial = the engine answered with an error report that was judged \
         (SyntaxError / RenderingError with its span, or an add-time report); edits that leave the template \
         valid and position-less failures that are not in the documented list are counted as trivial.",
    );
    run.assume("the fault catalogue (props/src/bin/c12/catalogue.rs) stands for 'all failing sources and renders': one or more representatives per error site of vm/interpreter.rs, parsing/lexer.rs, parsing/parser.rs and tera.rs validate_template_references, found by reading the pinned tree");
    run.assume("'covers the offending token or expression' is read leniently: the span lies inside the planted {{..}} / {%..%} construct and contains one whole culprit token (the operand the message names, the operator for pair errors, the unknown name)");
    run.assume("position-less render failures are listed, not judged (the observation point of the property is ReportError): the component recursion limit is provoked and listed; I/O and UTF-8 conversion errors of the output writer are not provoked here");
    run.assume("line/column conventions are the documented ones: lines split on \\n from 1, columns in chars from 0 (\\r is a character), locus printed as col+1");

    let n_of = |c: Class| faults.iter().filter(|f| f.class == c).count();
    run.extra(
        "alphabets",
        json!({
            "sites": SITES,
            "paddings": PADS.iter().map(|(n, t)| json!({"name": n, "text": t})).collect::<Vec<_>>(),
            "render_faults": faults.iter().filter(|f| f.class == Class::Render).map(|f| json!({"id": f.id, "snippet": f.text})).collect::<Vec<_>>(),
            "syntax_faults": faults.iter().filter(|f| f.class == Class::Syntax).map(|f| json!({"id": f.id, "snippet": f.text.chars().take(120).collect::<String>()})).collect::<Vec<_>>(),
            "addtime_faults": faults.iter().filter(|f| f.class == Class::AddTime).map(|f| json!({"id": f.id, "snippet": f.text})).collect::<Vec<_>>(),
            "edited_templates": bases.iter().map(|(t, _)| join(t)).collect::<Vec<_>>(),
            "replacement_tokens": catalogue::ALPHABET,
            "context": CONTEXT_DESCRIPTION,
        }),
    );
    run.extra(
        "bounds",
        json!({
            "render_faults": n_of(Class::Render),
            "syntax_faults": n_of(Class::Syntax),
            "addtime_faults": n_of(Class::AddTime),
            "sites": SITES.len(),
            "paddings": PADS.len(),
            "edited_templates": bases.len(),
            "two_deviation_space": thorough,
        }),
    );

    // ------------------------------------------------ catalogue faults x sites x paddings
    for (class, fam_name) in [
        (Class::Render, "render-faults"),
        (Class::Syntax, "syntax-faults"),
        (Class::AddTime, "addtime-faults"),
    ] {
        let items: Vec<(usize, usize)> = faults
            .iter()
            .enumerate()
            .filter(|(_, f)| f.class == class)
            .flat_map(|(i, f)| (0..SITES.len()).filter(move |s| f.sites & (1 << s) != 0).map(move |s| (i, s)))
            .collect();
        let n_faults = n_of(class);
        run.family(
            Family::new(
                fam_name,
                items.len() as u64,
                &format!(
                    "{n_faults} catalogue faults x every applicable site of {} x {} paddings",
                    SITES.len(),
                    PADS.len()
                ),
            )
            .describe(|i| {
                let (fi, s) = items[i as usize];
                json!({"fault": faults[fi].id, "site": SITES[s], "snippet": faults[fi].text})
            }),
            |item, acc: &mut Acc| {
                let (fi, site) = items[item as usize];
                for pad in 0..PADS.len() {
                    run_fault(&faults[fi], site, pad, &ctx, acc);
                }
            },
        );
    }

    // ------------------------------------------------ rendering faults on the last line of a file
    {
        let items: Vec<(usize, usize)> = faults
            .iter()
            .enumerate()
            .filter(|(_, f)| f.class == Class::Render)
            .flat_map(|(i, f)| (0..SITES.len()).filter(move |s| f.sites & sites::FILE_END & (1 << s) != 0).map(move |s| (i, s)))
            .collect();
        run.family(
            Family::new(
                "render-faults-at-end-of-file",
                items.len() as u64,
                &format!(
                    "{} rendering faults x every site where the snippet can end its file x {} paddings, with NOTHING after the snippet (the fault sits on the last line, which has no trailing newline, and its span ends where the source ends)",
                    n_of(Class::Render),
                    PADS.len()
                ),
            )
            .describe(|i| {
                let (fi, s) = items[i as usize];
                json!({"fault": faults[fi].id, "site": SITES[s], "snippet": faults[fi].text, "tail": "none: the snippet ends the file"})
            }),
            |item, acc: &mut Acc| {
                let (fi, site) = items[item as usize];
                NO_TAIL.with(|c| c.set(true));
                for pad in 0..PADS.len() {
                    run_fault(&faults[fi], site, pad, &ctx, acc);
                }
                NO_TAIL.with(|c| c.set(false));
            },
        );
    }

    // ------------------------------------------------ rendering faults below a template rendered on the fly
    {
        let items: Vec<(usize, usize)> = faults
            .iter()
            .enumerate()
            .filter(|(_, f)| f.class == Class::Render && !f.text.contains("{% block"))
            .flat_map(|(i, f)| (0..SITES.len()).filter(move |s| f.sites & sites::ON_THE_FLY_OK & (1 << s) != 0).map(move |s| (i, s)))
            .collect();
        const FLY_PADS: [usize; 2] = [0, 4];
        run.family(
            Family::new(
                "render-faults-on-the-fly",
                items.len() as u64,
                &format!(
                    "{} rendering faults x every site whose entry template neither extends nor holds a block ({} sites, incl. a component the entry defines itself) x {} paddings, with the entry template NOT registered but given to render_str: the report names `__tera_one_off` where the fault or a call site is in that source, and every registered template as before",
                    n_of(Class::Render),
                    (0..SITES.len()).filter(|s| sites::ON_THE_FLY_OK & (1 << s) != 0).count(),
                    FLY_PADS.len()
                ),
            )
            .describe(|i| {
                let (fi, s) = items[i as usize];
                json!({"fault": faults[fi].id, "site": SITES[s], "snippet": faults[fi].text, "entry": "render_str"})
            }),
            |item, acc: &mut Acc| {
                let (fi, site) = items[item as usize];
                ON_THE_FLY.with(|c| c.set(true));
                for pad in FLY_PADS {
                    run_fault(&faults[fi], site, pad, &ctx, acc);
                }
                ON_THE_FLY.with(|c| c.set(false));
            },
        );
    }

    // ------------------------------------------------ rendering faults after a refused re-registration
    {
        let items: Vec<(usize, usize)> = faults
            .iter()
            .enumerate()
            .filter(|(_, f)| f.class == Class::Render)
            .flat_map(|(i, f)| (0..SITES.len()).filter(move |s| f.sites & (1 << s) != 0).map(move |s| (i, s)))
            .collect();
        const READD_PADS: [usize; 2] = [0, 4];
        run.family(
            Family::new(
                "render-faults-after-refused-readd",
                items.len() as u64,
                &format!(
                    "{} rendering faults x every applicable site x {} paddings, rendered after a refused add_raw_templates call that offered every template again twice, with its text moved down three and six lines (plus a template using an unknown filter): the report must still describe the registered sources",
                    n_of(Class::Render),
                    READD_PADS.len()
                ),
            )
            .describe(|i| {
                let (fi, s) = items[i as usize];
                json!({"fault": faults[fi].id, "site": SITES[s], "snippet": faults[fi].text, "history": "after a refused re-registration"})
            }),
            |item, acc: &mut Acc| {
                let (fi, site) = items[item as usize];
                AFTER_REFUSED_READD.with(|c| c.set(true));
                for pad in READD_PADS {
                    run_fault(&faults[fi], site, pad, &ctx, acc);
                }
                AFTER_REFUSED_READD.with(|c| c.set(false));
                let (v, p, n) = READD_STATS.with(|c| c.replace((0, 0, 0)));
                acc.count("readd-refused-at-validation", v);
                acc.count("readd-refused-by-parser", p);
                acc.count("readd-not-refused", n);
            },
        );
        if run.is_supervisor() {
            let (v, p, n) = (run.counter("readd-refused-at-validation"), run.counter("readd-refused-by-parser"), run.counter("readd-not-refused"));
            run.guard(
                "readd-refused-at-validation",
                v > 0 && p == 0 && n == 0,
                format!("{v} re-registrations refused after parsing and compiling (the unknown filter), {p} by the parser, {n} not refused"),
            );
        }
    }

    // ------------------------------------------------ single-token deletions
    let deletions: Vec<(usize, usize, usize)> = bases
        .iter()
        .enumerate()
        .flat_map(|(b, (toks, sites))| {
            let n = toks.len();
            let sites = *sites;
            (0..n).flat_map(move |t| (0..SITES.len()).filter(move |s| sites & (1 << s) != 0).map(move |s| (b, t, s)))
        })
        .collect();
    let n_del: usize = bases.iter().map(|(t, _)| t.len()).sum();
    run.family(
        Family::new(
            "token-deletions",
            deletions.len() as u64,
            &format!(
                "every single-token deletion ({n_del}) of {} small valid templates x applicable sites x {} paddings",
                bases.len(),
                PADS.len()
            ),
        )
        .describe(|i| {
            let (b, t, s) = deletions[i as usize];
            json!({"template": join(&bases[b].0), "deleted_token": bases[b].0[t], "site": SITES[s]})
        }),
        |item, acc: &mut Acc| {
            let (b, t, site) = deletions[item as usize];
            let toks = &bases[b].0;
            let mut edited = toks.clone();
            edited.remove(t);
            let text = join(&edited);
            let id = format!("delete[{t}]:{}", join(toks));
            for pad in 0..PADS.len() {
                run_edit(&id, &text, site, pad, true, &ctx, acc);
            }
        },
    );

    // ---------------------------------------------------------------- custom delimiter sets
    // the same structural requirements under other delimiter sets, incl. delimiters that are one
    // two-byte character (seeded change C12-3: the column advanced by bytes over such a delimiter)
    let n_custom = (CUSTOM_DELIMS.len() * CUSTOM_FAULTS.len()) as u64;
    run.family(
        Family::new(
            "custom-delimiters",
            n_custom,
            &format!(
                "{} delimiter sets (ASCII pairs; one two-byte character each) x {} faults (rendering, syntax, registration-time) with several tags, expressions and comments before the fault on its line x {} paddings: template, byte range, line/column recomputation, display",
                CUSTOM_DELIMS.len(),
                CUSTOM_FAULTS.len(),
                PADS.len()
            ),
        ),
        |item, acc: &mut Acc| {
            let dset = item as usize / CUSTOM_FAULTS.len();
            let fault = item as usize % CUSTOM_FAULTS.len();
            for pad in 0..PADS.len() {
                run_custom(dset, fault, pad, &ctx, acc);
            }
        },
    );

    // ------------------------------------------------ two deviations (thorough)
    if thorough {
        // a deviation of token i: delete it (choice 0) or replace it by ALPHABET[choice - 1]
        // (a replacement by the token's own text is no edit and is skipped)
        let nch = catalogue::ALPHABET.len() + 1;
        let is_edit = |toks: &[String], i: usize, c: usize| c == 0 || catalogue::ALPHABET[c - 1] != toks[i];
        let firsts: Vec<(usize, usize, usize)> = bases
            .iter()
            .enumerate()
            .flat_map(|(b, (toks, _))| (0..toks.len()).flat_map(move |i| (0..nch).map(move |c| (b, i, c))))
            .filter(|(b, i, c)| is_edit(&bases[*b].0, *i, *c))
            .collect();
        let apply = |toks: &mut Vec<String>, i: usize, c: usize| {
            if c == 0 {
                toks[i] = String::new();
            } else {
                toks[i] = catalogue::ALPHABET[c - 1].to_string();
            }
        };
        const DEV_SITES: [usize; 3] = [sites::TOP, sites::INCLUDE2, sites::COMP_BODY];
        run.family(
            Family::new(
                "two-deviations",
                firsts.len() as u64,
                &format!(
                    "every text obtained from the {} valid templates by editing one or two tokens (delete, or replace by one of {} tokens; single deletions are the previous family), planted in rotation at sites top / include2 / comp-body with each of the {} paddings",
                    bases.len(),
                    catalogue::ALPHABET.len(),
                    PADS.len()
                ),
            )
            .budget(480.0)
            .describe(|i| {
                let (b, t, c) = firsts[i as usize];
                json!({"template": join(&bases[b].0), "first_edit_token": t, "first_edit_choice": c})
            }),
            |item, acc: &mut Acc| {
                let (b, i, c) = firsts[item as usize];
                let toks = &bases[b].0;
                let mut one = toks.clone();
                apply(&mut one, i, c);
                let mut variants: Vec<String> = vec![];
                if c != 0 {
                    variants.push(join(&one)); // the single substitution (single deletions are family 4)
                }
                for j in i + 1..toks.len() {
                    for c2 in 0..nch {
                        if !is_edit(toks, j, c2) {
                            continue;
                        }
                        let mut two = one.clone();
                        apply(&mut two, j, c2);
                        variants.push(join(&two));
                    }
                }
                // two edit pairs of one item can spell the same text: keep one
                let mut seen = std::collections::HashSet::new();
                variants.retain(|v| seen.insert(v.clone()));
                for (k, text) in variants.iter().enumerate() {
                    let site = DEV_SITES[(k + item as usize) % DEV_SITES.len()];
                    let site = if bases[b].1 & (1 << site) != 0 { site } else { sites::TOP };
                    for pad in 0..PADS.len() {
                        run_edit("two-deviations", text, site, pad, false, &ctx, acc);
                    }
                }
            },
        );
    }

    if run.is_supervisor() {
        // every catalogue entry is a fault everywhere it is planted, and of the planted kind
        let no_error = run.outcome("render-faults", "no-error")
            + run.outcome("syntax-faults", "no-error")
            + run.outcome("addtime-faults", "no-error");
        let other = run.outcome_any("other-error-than-planted");
        run.guard(
            "catalogue-is-faulty-everywhere",
            no_error == 0,
            format!("{no_error} planted cases produced no error (counters no-error/<fault>@<site> name them)"),
        );
        // unpositioned ones are judged on structure only and land in this class by design
        let unpos_faults = faults.iter().filter(|f| f.unpositioned).count() as u64;
        run.guard(
            "planted-kind-observed",
            other == 0,
            format!("{other} cases failed with another report than the planted one (counters other-error/<fault>@<site>); {unpos_faults} faults are position-less by design"),
        );
        let judged_render = run.evaluations("render-faults") - run.outcome("render-faults", "no-error");
        run.guard("render-reports-judged", judged_render > 1000, format!("{judged_render} rendering reports judged"));
        let exact = run.outcome_any("render:exactly-culprit") + run.outcome_any("syntax:exactly-culprit");
        let wider = run.outcome_any("render:wider-than-culprit") + run.outcome_any("syntax:wider-than-culprit");
        run.guard("both-precisions-occur", exact > 0 && wider > 0, format!("exactly-culprit={exact} wider-than-culprit={wider}"));
        let del_err = run.outcome("token-deletions", "syntax-error");
        let del_ok = run.outcome("token-deletions", "still-valid");
        run.guard("deletions-both-outcomes", del_err > 0 && del_ok > 0, format!("syntax-error={del_err} still-valid={del_ok}"));
        // which error sites of the source the run reached
        let (reached, missed): (Vec<&str>, Vec<&str>) = errsites::SITES
            .iter()
            .map(|(_, name, _)| *name)
            .partition(|name| run.counter(&format!("site/{name}")) > 0);
        run.guard(
            "error-sites-reached",
            missed.len() <= 2,
            format!("{} of {} listed error sites reached; not reached: {missed:?}", reached.len(), errsites::SITES.len()),
        );
        run.extra(
            "error_sites",
            json!({
                "reached": reached,
                "not_reached": missed,
                "unlisted_syntax_messages": run.counter("site/syntax:unlisted"),
                "own_messages_of_filters_tests_functions": run.counter("site/render:filter-test-function-own-message"),
                "unreachable_by_reading": errsites::UNREACHABLE,
            }),
        );
        // distinctness of the edited texts inside one template
        let dup = bases
            .iter()
            .filter(|(toks, _)| {
                let mut seen = std::collections::HashSet::new();
                !(0..toks.len()).all(|t| {
                    let mut e = toks.clone();
                    e.remove(t);
                    seen.insert(join(&e))
                })
            })
            .count();
        run.guard("deletions-are-distinct", dup == 0, format!("{dup} templates have two deletions that spell the same text"));
        let unexpected = run.counter("unpositioned-unexpected");
        run.guard(
            "only-documented-failures-are-position-less",
            unexpected == 0,
            format!("{unexpected} cases of faults that should carry a position failed without one (counters unpositioned-unexpected/<fault>@<phase>:<kind>)"),
        );
    }
    run.finish();
}
