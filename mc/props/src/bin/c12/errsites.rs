//! The error sites of the subject, as found by reading parsing/lexer.rs, parsing/parser.rs,
//! vm/interpreter.rs, value/{mod,number}.rs, parsing/ast.rs (`build_context`), args.rs and
//! tera.rs (`validate_template_references`) of the pinned tree. Every judged report is
//! attributed to the first entry whose pattern occurs in its message; the evidence lists which
//! entries the run reached, so that "a representative of every error" is a measured statement.

pub enum Pat {
    Has(&'static str),
    Ends(&'static str),
}
use Pat::*;

/// (class, name, pattern) — ordered from specific to general inside a class
pub const SITES: &[(&str, &str, Pat)] = &[
    // ---------------------------------------------------------------- lexer
    ("syntax", "lex:invalid-integer", Has("Invalid Integer")),
    ("syntax", "lex:unterminated-string", Has("String opened with")),
    ("syntax", "lex:bad-escape", Has("unexpected escape character")),
    ("syntax", "lex:unterminated-raw", Has("unexpected end of raw block")),
    ("syntax", "lex:unterminated-comment", Has("Closing comment tag")),
    ("syntax", "lex:unexpected-character", Has("Unexpected character")),
    // ---------------------------------------------------------------- parser
    ("syntax", "parse:end-of-input", Has("Unexpected end of input")),
    ("syntax", "parse:too-many-brackets", Has("Identifiers can only have up to")),
    ("syntax", "parse:loop-field", Has("Found invalid field of `loop`")),
    ("syntax", "parse:call-in-chain", Has("Function calls are only allowed at the first element")),
    ("syntax", "parse:duplicate-kwarg", Has("Keyword argument `")),
    ("syntax", "parse:component-attr-value", Has("Expected \"string\" or {expression}")),
    ("syntax", "parse:map-key", Has("but expected `...`, a string")),
    ("syntax", "parse:array-dimensions", Has("Arrays can have a maximum of")),
    ("syntax", "parse:expression-too-complex", Has("The expression is too complex")),
    ("syntax", "parse:consecutive-unary", Has("cannot be used consecutively")),
    ("syntax", "parse:lt-in-expression", Has("for component call. Use")),
    ("syntax", "parse:expected-expression", Has("but expected one of: integer, float")),
    ("syntax", "parse:not-without-in", Has("only valid here as part of `not in`")),
    ("syntax", "parse:unary-after-tilde", Has("is not allowed after `~`")),
    ("syntax", "parse:component-close", Has("but expected `/` or `>`")),
    ("syntax", "parse:component-body-in-variable", Has("Components with body content must use tag syntax")),
    ("syntax", "parse:unclosed-component", Has("Unclosed component")),
    ("syntax", "parse:component-closing-mismatch", Has("doesn't match opening tag")),
    ("syntax", "parse:comprehension-reserved", Has("list comprehension variable")),
    ("syntax", "parse:comprehension-two-fors", Has("only a single `for` clause")),
    ("syntax", "parse:loop-var-reserved", Has("cannot be used as a loop variable")),
    ("syntax", "parse:default-map-nonliteral", Has("Invalid default argument: this map")),
    ("syntax", "parse:metadata-nonliteral", Has("Invalid component metadata")),
    ("syntax", "parse:component-def-nested", Has("Component definitions cannot be written")),
    ("syntax", "parse:component-def-duplicate", Has("already contains a component named")),
    ("syntax", "parse:body-reserved", Has("The name `body` is reserved")),
    ("syntax", "parse:rest-conflict", Has("conflicts with an existing parameter")),
    ("syntax", "parse:rest-not-last", Has("Rest parameter must be the last")),
    ("syntax", "parse:component-arg-duplicate", Has("Component argument `")),
    ("syntax", "parse:component-arg-type", Has("but the only types allowed are")),
    ("syntax", "parse:default-array-nonliteral", Has("Invalid default argument: this array")),
    ("syntax", "parse:default-kind", Has("but component default arguments can only be")),
    ("syntax", "parse:endcomponent-name", Has("component was named")),
    ("syntax", "parse:endblock-name", Has("block was named")),
    ("syntax", "parse:set-reserved", Has("it cannot be assigned to")),
    ("syntax", "parse:set-syntax", Has("Invalid syntax for `set`")),
    ("syntax", "parse:extends-twice", Has("Template is already extending")),
    ("syntax", "parse:extends-not-first", Has("`extends` needs to be the first tag")),
    ("syntax", "parse:extends-nested", Has("`extends` cannot be nested")),
    ("syntax", "parse:block-in-tag", Has("Blocks cannot be written in a tag")),
    ("syntax", "parse:block-duplicate", Has("already contains a block named")),
    ("syntax", "parse:break-in-capture", Has("cannot be used inside a filter section")),
    ("syntax", "parse:break-outside-loop", Has("can only be used in a for loop")),
    ("syntax", "parse:lt-in-tag", Has("for XML component call")),
    ("syntax", "parse:unknown-tag", Has("Unknown tag")),
    ("syntax", "parse:nesting-too-deep", Has("The template nesting is too deep")),
    ("syntax", "parse:expected-token", Has("but expected ")),
    // ---------------------------------------------------------------- interpreter
    ("render", "vm:undefined-variable", Has("Variable `")),
    ("render", "vm:print-undefined", Has("Tried to render a variable that is not defined")),
    ("render", "vm:undefined-field-fused", Has("is not defined.")),
    ("render", "vm:field-of-undefined-unfused", Ends("is not defined")),
    ("render", "vm:index-into-undefined", Has("Cannot index into an undefined value")),
    ("render", "vm:index-undefined", Has("Index expression is undefined")),
    ("render", "vm:array-index-type", Has("Array index must be")),
    ("render", "vm:string-index-type", Has("String index must be")),
    ("render", "vm:map-key-type", Has("Map keys must be")),
    ("render", "vm:slice-undefined", Has("Cannot slice an undefined value")),
    ("render", "vm:slice-start-undefined", Has("Slice start is undefined")),
    ("render", "vm:slice-start-type", Has("Slice start must be")),
    ("render", "vm:slice-end-undefined", Has("Slice end is undefined")),
    ("render", "vm:slice-end-type", Has("Slice end must be")),
    ("render", "vm:slice-step-undefined", Has("Slice step is undefined")),
    ("render", "vm:slice-step-type", Has("Slice step must be")),
    ("render", "vm:slice-step-zero", Has("Slicing step cannot be 0")),
    ("render", "vm:slice-not-sliceable", Has("Slicing can only be used on")),
    ("render", "vm:spread-map", Has("Spread operator requires a map")),
    ("render", "vm:spread-array", Has("Spread operator requires an array")),
    ("render", "vm:super-outside-block", Has("super() called outside of a block")),
    ("render", "vm:super-top-level", Has("Tried to use super() in the top level block")),
    ("render", "vm:component-unknown-arg", Has("Unknown argument(s)")),
    ("render", "vm:component-arg-type", Has("does not match expected type")),
    ("render", "vm:component-arg-missing", Has("` missing.")),
    ("render", "vm:component-arg-missing-typed", Has("`) missing.")),
    ("render", "vm:not-iterable", Has("Iteration not possible on type")),
    ("render", "vm:kv-iteration", Has("Key/value iteration is not possible")),
    ("render", "vm:math-non-number", Has("Math operations can only be done on numbers")),
    ("render", "vm:divide-by-zero", Has("divide by 0")),
    ("render", "vm:overflow", Has("Unable to perform")),
    ("render", "vm:operand-out-of-i128", Has("is out of range for integer arithmetic")),
    ("render", "vm:exponent-out-of-range", Has("is out of range for integer **")),
    ("render", "vm:plus-non-number", Has("`+` requires both operands")),
    ("render", "vm:incomparable", Has("Cannot compare")),
    ("render", "vm:in-non-container", Has("`in` cannot be used on a container")),
    ("render", "vm:negate-non-number", Has("Only numbers can be negated")),
    ("render", "vm:negate-overflow", Has("Cannot negate")),
    ("render", "vm:invalid-argument", Has("Invalid type for the value")),
    ("render", "vm:missing-argument", Has("Missing keyword argument")),
    ("render", "vm:out-of-range-argument", Has("is out of range for `")),
    ("render", "vm:function-message", Has("Function `range`")),
    ("render", "vm:throw", Has("boom")),
    // ---------------------------------------------------------------- registration
    ("addtime", "ref:unknown-filter", Has("Unknown filter")),
    ("addtime", "ref:unknown-test", Has("Unknown test")),
    ("addtime", "ref:unknown-function", Has("Unknown function")),
    ("addtime", "ref:unknown-component", Has("Unknown component")),
    ("addtime", "ref:unknown-template", Has("Unknown template")),
    ("addtime", "ref:orphan-block", Has("is not defined in any parent template")),
];

/// Error sites of the source that no input reaches (by reading: the lexer never hands such a
/// token sequence to them), listed so that their absence from `reached` is not read as a gap.
pub const UNREACHABLE: &[&str] = &[
    "lexer `Invalid float` (a digit string with one dot always parses as f64)",
    "lexer `unexpected end of string` (a trailing backslash escapes the closing quote, which is reported as unterminated string instead)",
    "parser `Found .. but was expecting elif, else or endif` (parse_until only returns on those tags or at end of input)",
    "interpreter `Block .. has no block lineage` (finalize_templates always fills the lineage)",
    "interpreter `Not a valid key type` from BuildMap (map literal keys are lexed as string / integer / bool)",
];

pub fn classify(class: &str, msg: &str) -> &'static str {
    for (c, name, pat) in SITES {
        if *c == class
            && match pat {
                Has(p) => msg.contains(p),
                Ends(p) => msg.ends_with(p),
            }
        {
            return name;
        }
    }
    match class {
        "syntax" => "syntax:unlisted",
        "render" => "render:filter-test-function-own-message",
        _ => "addtime:unlisted",
    }
}
