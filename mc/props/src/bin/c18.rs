//! C18 — output channels agree, writer failures surface as I/O errors with a prefix written,
//! rendering is pure, concurrent renders on one shared instance equal sequential ones, and the
//! public types are Send + Sync.
//!
//! Families:
//!   api-pairs      every call of the corpus (render / render_block / render_str / render_component
//!                  over ~55 templates, one per VM instruction kind) x 3 contexts: the String variant
//!                  against the `_to` variant, byte for byte (and `Tera::one_off` against `render_str`).
//!   writer-faults  every (call, context) x 12 writer fault plans x EVERY position (write call index
//!                  or byte offset) of the fault-free run, executed with a writer that fails there.
//!   purity         every ordered pair of calls interleaved on ONE instance (A, B, A), contexts
//!                  compared with clones taken before, failed and faulted renders in between.
//!   threads-dfs    one item per `sched` harness: shuttle's depth-first scheduler executes every
//!                  interleaving of 2 or 3 renders sharing one `Arc<Tera>` at the granularity of the
//!                  VM's yield hook (see /verif/mc/sched/src/main.rs); run as a subprocess.
//!   threads-smoke  free-running OS threads, a few hundred renders each (SMOKE, not exhaustive).
//!   send-sync      builds the `ssprobe` crate; its failure to compile is the verdict.

use mccore::engine::{self, Out, kind_tag};
use mccore::{Acc, Family, Json, Run, json};
use std::collections::{BTreeMap, BTreeSet};
use std::io::{self, Write};
use std::path::PathBuf;
use std::process::{Command, Stdio};
use std::time::{Duration, Instant};
use tera::{Context, Tera};

// ------------------------------------------------------------------------------------------
// corpus

const COMPONENTS: &str = "\
{% component pill(label) %}<i>{{ label }}</i>{% endcomponent pill %}\
{% component box(t = \"x\") %}[{{ t }}:{{ body }}]{% endcomponent box %}\
{% component list(items: array, sep = \", \") %}{% for i in items %}{{ i }}{% if not loop.last %}{{ sep }}{% endif %}{% endfor %}{% endcomponent list %}\
{% component deep(n=0) %}{% if n > 0 %}{{ <deep n={n - 1} /> }}{% endif %}.{% endcomponent deep %}\
{% component yell(label) %}<{{ label | shout }}{{ peek() }}>{% endcomponent yell %}\
{% component card(title, ...rest) %}{% set h %}<h1>{{ title }}</h1>{% endset %}{{ h }}{{ <pill label={title} /> }}{{ rest }}{{ body }}{% endcomponent card %}";

/// (name, source, what it is there for)
fn corpus(large_n: usize) -> Vec<(String, String, &'static str)> {
    let mut v: Vec<(&str, String, &'static str)> = vec![
        ("components.html", COMPONENTS.into(), "component definitions (renders to nothing)"),
        ("text.html", "plain <text> only & nothing else".into(), "WriteText"),
        ("var.html", "{{ a }}".into(), "WritePath, escape buffer"),
        ("attr.html", "{{ o.k }}|{{ o.n }}".into(), "WritePath with attributes"),
        ("index.html", "{{ xs[0] }}{{ xs[1].k | default(value=\"-\") }}{{ o[\"k\"] }}{{ xs[n - 1] }}{{ o.k | length }}{% set v = o.k %}{{ v }}".into(), "BinarySubscript, LoadAttr, LoadPath, WriteTop"),
        ("optchain.html", "{{ o?.zz?.y | default(value=\"d\") }}{{ none_v?.x is defined }}{{ o?[\"k\"] }}{{ none_v?[0] is defined }}{{ none_v?[1:2] is defined }}".into(), "LoadAttrOpt, BinarySubscriptOpt, SliceOpt"),
        ("slice.html", "{{ xs[1:] }}{{ a[::-1] }}{{ b[:2] }}{{ xs[0:2:2] }}".into(), "Slice"),
        ("set.html", "{% set v = n + 1 %}{{ v }}{% set w = [v, a] %}{{ w }}".into(), "Set"),
        ("setglobal.html", "{% for i in xs %}{% set_global g = i %}{% set l = i %}{% endfor %}{{ g | default(value=\"none\") }}{{ l is defined }}".into(), "SetGlobal, Set inside loop"),
        ("setblock.html", "{% set c %}<{{ a }}>{% endset %}{{ c }}|{{ c | length }}".into(), "Capture / EndCapture"),
        ("filtersection.html", "{% filter upper %}x{{ a }}y{% endfilter %}".into(), "Capture + ApplyFilter"),
        ("nestedcapture.html", "{% set c %}{% filter trim %} {{ a }} {% set d %}[{{ b }}]{% endset %}{{ d }}{% endfilter %}{% endset %}{{ c }}{{ c }}".into(), "nested captures"),
        ("include.html", "[{% include \"text.html\" %}|{% include \"var.html\" %}]".into(), "Include"),
        ("includecapture.html", "{% set c %}{% include \"var.html\" %}{% endset %}{{ c }}!{% filter upper %}{% include \"attr.html\" %}{% endfilter %}".into(), "Include inside a capture"),
        ("includenested.html", "{% set a = b %}({% include \"include.html\" %})".into(), "Include of an including template, parent state lookup"),
        ("maplit.html", "{{ {\"x\": a, \"y\": [n]} }}{{ {} }}{% set m = {} %}{{ m | length }}".into(), "BuildMap, EMPTY_MAP"),
        ("mapspread.html", "{% set m = {...o, \"d\": 4} %}{{ m }}".into(), "BuildMapWithSpreads"),
        ("list.html", "{{ [1, a, [n]] }}{{ [...xs, 9] }}".into(), "BuildList, BuildListWithSpreads"),
        ("function.html", "{% for i in range(end=n) %}{{ i }}{% endfor %}".into(), "CallFunction"),
        ("throw.html", "before {{ a }}{{ throw(message=\"boom\") }}after".into(), "error in the middle of the output"),
        ("filters.html", "{{ a | upper | replace(from=\"A\", to=b) }}{{ xs | length }}{{ a | safe }}{{ b | escape_html }}{{ b | escape_html | safe }}".into(), "ApplyFilter, safe values"),
        ("tests.html", "{% if n is odd %}odd{% else %}even{% endif %}{{ a is containing(pat=\"A\") }}{{ zz is defined }}".into(), "RunTest"),
        ("compinline.html", "{{ <pill label={a} /> }}{{ <list items={xs} sep=\"|\" /> }}".into(), "RenderInlineComponent"),
        ("compbody.html", "{% <box t={b}> %}in {{ a }} {{ <pill label=\"x\" /> }}{% </box> %}".into(), "RenderBodyComponent"),
        ("compcapture.html", "{% set c = <pill label={a} /> %}{{ c }}{{ c }}{% <card title={a} extra={n}> %}{{ c }}{% </card> %}".into(), "component value captured, open component with nested component and capture"),
        ("base.html", "<{% block head %}H{{ a }}{% endblock %}|{% block body %}B{% block inner %}I{{ n }}{% endblock %}{% endblock %}>".into(), "RenderBlock"),
        ("child.html", "{% extends \"base.html\" %}{% block body %}C({{ super() }}){% endblock %}".into(), "extends + super()"),
        ("grand.html", "{% extends \"child.html\" %}{% block body %}G[{{ super() }}]{% endblock %}{% block inner %}{{ super() }}+{{ b }}{% endblock %}".into(), "two levels of super(), nested block override"),
        ("blockcapture.html", "{% extends \"base.html\" %}{% block head %}{% set c %}{{ super() }}{% endset %}{{ c }}{{ c }}{% endblock %}".into(), "super() inside a capture inside a block"),
        ("blockinclude.html", "{% extends \"base.html\" %}{% block inner %}{% include \"compinline.html\" %}{% endblock %}".into(), "include inside a block"),
        ("if.html", "{% if n > 2 %}big{% elif n < 0 %}neg{% else %}small{% endif %}".into(), "PopJumpIfFalse, Jump"),
        ("logic.html", "{{ t and a }}{{ t or a }}{{ not t }}{{ none_v or \"x\" }}{{ a and b }}".into(), "JumpIfFalseOrPop, JumpIfTrueOrPop, Not"),
        ("for.html", "{% for x in xs %}{{ loop.index }}:{{ x }}{% if not loop.last %},{% endif %}{% endfor %}".into(), "StartIterate, Iterate, StoreLocal, PopLoop"),
        ("forelse.html", "{% for x in [] %}x{% else %}empty{% endfor %}{% for x in xs %}y{% else %}none{% endfor %}".into(), "StoreDidNotIterate"),
        ("forkv.html", "{% for k, v in one %}{{ k }}={{ v }}{% endfor %}".into(), "key/value iteration (single entry: map order is random per process)"),
        ("breakcontinue.html", "{% for x in xs %}{% if x == 2 %}{% continue %}{% endif %}{% if x == 3 %}{% break %}{% endif %}{{ x }}{% endfor %}".into(), "Break, continue"),
        ("fornested.html", "{% for x in xs %}{% for y in xs %}{{ x }}{{ y }}{% endfor %};{% endfor %}".into(), "nested loops"),
        ("forstring.html", "{% for c in b %}[{{ c }}]{% endfor %}".into(), "loop over the characters of a string"),
        ("comprehension.html", "{{ [x for x in xs] }}{{ [x for x in [1, 2, 3] if x is odd] }}{{ [v for k, v in one] }}".into(), "StartIterateComprehension, AppendToList"),
        ("math.html", "{{ n * 2 }}{{ n / 2 }}{{ n // 2 }}{{ n % 2 }}{{ n + 1 }}{{ n - 1 }}{{ 2 ** 3 }}{{ -n }}{{ f * 2 }}".into(), "Mul Div FloorDiv Mod Plus Minus Power Negative"),
        ("compare.html", "{{ n < 2 }}{{ n > 2 }}{{ n <= 2 }}{{ n >= 2 }}{{ n == 2 }}{{ n != 2 }}".into(), "comparisons"),
        ("concat.html", "{{ a ~ b ~ n }}{{ 1 in xs }}{{ \"A\" in a }}{{ \"k\" in o }}".into(), "StrConcat, In"),
        ("ternary.html", "{{ a if t else b }}{{ 1 if none_v else f }}".into(), "ternary"),
        ("raw.html", "{% raw %}{{ not rendered }} {% if %}{% endraw %}".into(), "raw text"),
        ("whitespace.html", "a  {#- c -#}  {{- a -}}  b {%- if t %} y {% endif -%} z".into(), "whitespace control and comments"),
        ("kinds.html", "{{ f }}|{{ big }}|{{ neg }}|{{ none_v }}|{{ t }}|{{ bytes }}|{{ s }}|{{ u }}".into(), "every scalar kind, bytes, safe string, i128/u128"),
        ("dump.html", "{{ __tera_context }}".into(), "context dump"),
        ("undefined.html", "x{{ a }}y{{ missing }}z".into(), "error after a partial output"),
        ("undefinedattr.html", "{{ b }}{{ o.zz.y }}".into(), "attribute error after a partial output"),
        ("includeerror.html", "<{% include \"undefined.html\" %}>".into(), "error inside an include"),
        ("plain.txt", "{{ a }}{{ xs }}{{ o }}{{ one }}{{ f }}".into(), "no autoescape: Value::format writes containers piecewise"),
        ("plaincapture.txt", "{% set c %}{{ xs }}{% endset %}{{ c }}{% filter lower %}{{ o }}{% endfilter %}".into(), "no autoescape, captures"),
        ("rxmask.html", "{{ email | regex_replace(pattern=pat, rep=\"<hidden>\") }}".into(), "tera-contrib regex_replace (per-filter regex cache behind a lock): literal replacement"),
        ("rxswap.html", "{{ email | regex_replace(pattern=pat, rep=\"$2 at $1\") }}".into(), "tera-contrib regex_replace: the same pattern with a replacement that uses groups"),
        ("rxmatch.html", "{{ email is matching(pat=pat) }}{{ email is matching(pat=\"^b\") }}{{ a | striptags }}|{{ a | spaceless }}|{{ email | regex_replace(pattern=\"o\", rep=\"0\") }}".into(), "tera-contrib matching (its own cache), striptags, spaceless (lazily built statics)"),
        ("rand.html", "{{ get_random(start=0, end=1000000, seed=\"s\") }}|{{ get_random(start=0, end=1000000, seed=a) }}|{{ xs | shuffle(seed=\"s\") }}|{{ [1, 2, 3, 4, 5, 6] | shuffle(seed=b) }}|{{ get_random(start=0, end=1000000, seed=\"s\") }}".into(), "tera-contrib get_random / shuffle WITH a seed (reproducible by documentation): the same seed twice in one render and again in the next (seeded change C18-11 kept the last seeded generator in a thread-local)"),
        ("fmt.html", "{{ 123456789 | filesize_format }}|{{ 123456789 | filesize_format(binary=false) }}|{{ 42 | format(spec=\"05\") }}|{{ a | format(spec=\">8\") }}|{{ 3.14159 | format(spec=\".2\") }}".into(), "tera-contrib filesize_format and format"),
        ("blob.txt", "{{ blob() }}|{{ true and blob() }}|{% set c %}{{ blob() }}{% endset %}{{ c }}".into(), "a host function returning bytes that are not UTF-8, printed unescaped through WriteTop, at top level and in a capture (seeded change C18-14 wrote them raw in the writer channel only)"),
        ("blob.html", "{{ blob() }}|{{ blob() | safe }}".into(), "the same bytes through the escaper"),
        ("rxbad.html", "x{{ email | regex_replace(pattern=\"(\", rep=\"y\") }}".into(), "tera-contrib regex_replace with an invalid pattern: an error every time"),
        ("custom.html", "{{ b | shout }}{{ peek() }}{% if a is longer_than_b %}L{% else %}S{% endif %}{% block c %}[{{ a | shout }}{{ peek() }}]{% endblock %}{{ <yell label={b} /> }}".into(), "user filter / function / test that call back into the engine through State (call_filter, get), at top level, in a block, in a component"),
        ("customchild.html", "{% extends \"custom.html\" %}{% block c %}({{ super() }}{{ b | shout }}){% endblock %}".into(), "the same through super() and a child block"),
        ("unicode.html", "ünï {{ b }} ✓ {{ b | upper }} {% for c in \"日本\" %}{{ c }}·{% endfor %}".into(), "multi-byte text"),
    ];
    v.push((
        "large.html",
        format!("<ul>{{% for i in range(end={large_n}) %}}<li>{{{{ i }}}} {{{{ b }}}} &amp;</li>\n{{% endfor %}}</ul>"),
        "large output",
    ));
    v.into_iter().map(|(a, b, c)| (a.to_string(), b, c)).collect()
}

const BLOCKS: &[(&str, &str)] = &[
    ("base.html", "head"),
    ("base.html", "body"),
    ("base.html", "inner"),
    ("child.html", "head"),
    ("child.html", "body"),
    ("child.html", "inner"),
    ("grand.html", "body"),
    ("grand.html", "inner"),
    ("blockcapture.html", "head"),
    ("blockinclude.html", "inner"),
    ("blockinclude.html", "body"),
    ("base.html", "nosuchblock"),
    ("custom.html", "c"),
    ("customchild.html", "c"),
];

/// (component, body, which context style). Style 0 = exactly the declared arguments taken from
/// the base context, 1 = the whole base context (rejected by closed components).
const COMPONENT_CALLS: &[(&str, Option<&str>, u8)] = &[
    ("pill", None, 0),
    ("pill", Some("<ignored body>"), 0),
    ("box", Some("<b>body & more</b>"), 0),
    ("box", None, 0),
    ("list", None, 0),
    ("card", Some("<p>in card</p>"), 0),
    ("card", None, 1),
    ("pill", None, 1),
    ("nosuch", None, 0),
    ("yell", None, 0),
    ("yell", Some("<b>"), 1),
    // a component that nests itself n more times, n = the style number: on both sides of the nesting
    // limit of 20 (seeded change C18-9: the String variant of render_component counted one level more
    // than its writer sibling, visible at exactly one depth)
    ("deep", None, 17),
    ("deep", None, 18),
    ("deep", None, 19),
    ("deep", None, 20),
    ("deep", None, 21),
];

fn context_jsons() -> Vec<(&'static str, Json)> {
    let hostile: String = "<a href=\"x\">&'q'</a> ".repeat(12);
    vec![
        (
            "typical",
            json!({"a": "<A&A>", "b": "'b'", "n": 3, "f": 1.5, "t": true, "xs": [1, 2, 3],
                   "o": {"k": "v<", "n": 1}, "one": {"only": "<1>"}, "none_v": null, "name": "var",
                   "email": "bob@example", "pat": "(\\w+)@(\\w+)"}),
        ),
        (
            "edge",
            json!({"a": "", "b": "ünï ✓", "n": -1, "f": -0.0, "t": false, "xs": [],
                   "o": {"k": ""}, "one": {"": []}, "none_v": null, "name": "nosuch",
                   "email": "ünï@✓x, a@b", "pat": "(\\w+)@(\\w+)"}),
        ),
        (
            "hostile",
            json!({"a": hostile, "b": "\"&<>'/`", "n": 0, "f": 1e300, "t": true,
                   "xs": [[1, "<"], {"k": "<v>"}, "s&", 2.5, null, true],
                   "o": {"k": ["<", 2], "n": 2.5, "<k>": "&"}, "one": {"<k>": "&"}, "none_v": null, "name": "text",
                   "email": "<a@b> $1 o@o", "pat": "(\\w+)@(\\w+)"}),
        ),
    ]
}

fn contexts() -> Vec<Context> {
    context_jsons()
        .iter()
        .enumerate()
        .map(|(i, (_, j))| {
            let mut c = Context::from_serialize(j).expect("context");
            // kinds JSON cannot spell
            c.insert("big", &(i128::MAX - i as i128));
            c.insert("neg", &(i128::MIN + i as i128));
            c.insert("u", &(u128::MAX - i as u128));
            c.insert_value("bytes", tera::Value::from(&b"by<tes\xff"[..]));
            c.insert_value("s", tera::Value::safe_string("<safe&>"));
            c
        })
        .collect()
}

#[derive(Clone, Debug, PartialEq)]
enum Call {
    Render(String),
    Block(String, String),
    Str(String, String, bool),
    Component(String, Option<String>, u8, bool),
}

impl Call {
    fn api(&self) -> &'static str {
        match self {
            Call::Render(_) => "render",
            Call::Block(..) => "render_block",
            Call::Str(..) => "render_str",
            Call::Component(..) => "render_component",
        }
    }
    fn show(&self) -> String {
        match self {
            Call::Render(n) => format!("render({n:?})"),
            Call::Block(n, b) => format!("render_block({n:?}, {b:?})"),
            Call::Str(n, _, ae) => format!("render_str(<source of {n:?}>, autoescape={ae})"),
            Call::Component(c, body, style, ae) => format!(
                "render_component({c:?}, {}, body={body:?}, autoescape={ae})",
                if c == "deep" { format!("n = {style}") } else if *style == 0 { "declared arguments from the context".to_string() } else { "the whole context".to_string() }
            ),
        }
    }
}

fn component_context(name: &str, style: u8, base: &Context) -> Context {
    if name == "deep" {
        let mut c = Context::new();
        c.insert("n", &(style as i64));
        return c;
    }
    if style == 1 {
        return base.clone();
    }
    let mut c = Context::new();
    let mut put = |k: &'static str, from: &str| {
        if let Some(v) = base.get(from) {
            c.insert_value(k, v.clone());
        }
    };
    match name {
        "pill" => put("label", "a"),
        "yell" => put("label", "b"),
        "box" => put("t", "b"),
        "list" => put("items", "xs"),
        "card" => {
            put("title", "a");
            put("extra", "o");
        }
        _ => {}
    }
    c
}

/// The harness itself must keep compiling when a change in the subject removes `Send`/`Sync`
/// from one of its types: that verdict belongs to the `ssprobe` crate (family send-sync), not to a
/// build failure of this binary. So everything that holds subject types is shared through this
/// wrapper. (If the probe fails, the threaded families of the same run are moot.)
struct Trust<T>(T);
unsafe impl<T> Send for Trust<T> {}
unsafe impl<T> Sync for Trust<T> {}
impl<T> std::ops::Deref for Trust<T> {
    type Target = T;
    fn deref(&self) -> &T {
        &self.0
    }
}

/// The filters / tests of tera-contrib that keep state between calls (regex caches behind a lock,
/// lazily built statics). Registering them again gives an instance fresh caches.
/// User extensions that go back into the engine through the public `State` API: a filter that
/// applies another registered filter (`State::call_filter`), a function and a test that read
/// variables of the running render (`State::get`). Every render entry point has to hand them a
/// fully set up `State`.
fn shout(val: &str, _: tera::Kwargs, state: &tera::State) -> tera::TeraResult<String> {
    let up = state.call_filter("upper", &tera::Value::from(val), tera::Kwargs::default())?;
    let n: Option<i64> = state.get("n")?;
    Ok(format!("{}!{}", up.as_str().unwrap_or("?"), n.unwrap_or(-7)))
}
fn peek(_: tera::Kwargs, state: &tera::State) -> tera::TeraResult<String> {
    let a: Option<String> = state.get("a")?;
    let trimmed = state.call_filter("trim", &tera::Value::from(" x "), tera::Kwargs::default())?;
    Ok(format!("<{}|{}>", a.map(|s| s.len()).unwrap_or(0), trimmed.as_str().unwrap_or("?")))
}
fn longer_than_b(val: &str, _: tera::Kwargs, state: &tera::State) -> tera::TeraResult<bool> {
    let b: Option<String> = state.get("b")?;
    Ok(val.len() > b.map(|s| s.len()).unwrap_or(0))
}

/// A host function whose result is a bytes value that is not valid UTF-8.
fn blob(_: tera::Kwargs, _: &tera::State) -> tera::TeraResult<tera::Value> {
    Ok(tera::Value::bytes(vec![0xff, b'a', 0xfe, b'<']))
}

fn register_contrib(t: &mut Tera) {
    t.register_function("blob", blob);
    t.register_filter("shout", shout);
    t.register_function("peek", peek);
    t.register_test("longer_than_b", longer_than_b);
    t.register_filter("regex_replace", tera_contrib::regex::RegexReplace::default());
    t.register_test("matching", tera_contrib::regex::Matching::default());
    t.register_filter("striptags", tera_contrib::regex::striptags);
    t.register_filter("spaceless", tera_contrib::regex::spaceless);
    // the seeded (documented-reproducible) variants of the random helpers, and two pure formatters
    t.register_function("get_random", tera_contrib::rand::get_random);
    t.register_filter("shuffle", tera_contrib::rand::shuffle);
    t.register_filter("filesize_format", tera_contrib::filesize_format::filesize_format);
    t.register_filter("format", tera_contrib::format::format);
}

const ONE_OFF_ONLY: [(&str, &str); 14] = [
    ("oneoff/comment-only", "{##}"),
    ("oneoff/comment-in-text", "a{# c #}b & <c>"),
    ("oneoff/comment-trimming", "a {#- c -#} b"),
    ("oneoff/comment-holding-tags", "{# {{ a }} {% if %} #}x"),
    ("oneoff/comment-unterminated", "text {# never closed"),
    ("oneoff/variable-unterminated", "text {{ a "),
    ("oneoff/tag-unterminated", "text {% if a "),
    ("oneoff/raw-only", "{% raw %}{{ a }}{# c #}{% endraw %}"),
    ("oneoff/empty", ""),
    ("oneoff/lone-braces", "a { b } c {"),
    ("oneoff/unknown-filter", "x{{ a | nosuchfilter }}"),
    ("oneoff/include-missing", "x{% include \"nosuch.html\" %}"),
    ("oneoff/extends", "{% extends \"base.html\" %}{% block head %}one-off{% endblock %}"),
    ("oneoff/own-component", "{% component mine(v) %}<{{ v }}>{% endcomponent mine %}{{ <mine v={a} /> }}"),
];

struct World {
    tera: Tera,
    /// the same instance before anything was rendered on it
    pristine: Tera,
    load_errors: Vec<(String, String)>,
    sources: BTreeMap<String, String>,
    purposes: BTreeMap<String, &'static str>,
    ctxs: Vec<Context>,
    ctx_json: Vec<(&'static str, Json)>,
    calls: Vec<Call>,
}

fn build_world(large_n: usize) -> World {
    let mut tera = Tera::default();
    register_contrib(&mut tera);
    let mut load_errors = vec![];
    let mut sources = BTreeMap::new();
    let mut purposes = BTreeMap::new();
    let all = corpus(large_n);
    // templates that do not compile on their own (a syntax the engine rejects) are left out and reported
    let mut good: Vec<(String, String)> = vec![];
    for (n, s, _) in &all {
        match engine::guarded(|| tera::verif::listings(n, s, tera::Delimiters::default())) {
            Ok(Ok(_)) => good.push((n.clone(), s.clone())),
            Ok(Err(e)) => load_errors.push((n.clone(), engine::err_message(&e))),
            Err(p) => load_errors.push((n.clone(), format!("PANIC {p}"))),
        }
    }
    match engine::add_templates(&mut tera, &good) {
        Out::Ok(_) => {}
        other => load_errors.push(("<all>".into(), other.show())),
    }
    for (n, s, p) in &all {
        sources.insert(n.clone(), s.clone());
        purposes.insert(n.clone(), *p);
    }
    let mut calls = vec![];
    for (n, _) in &good {
        calls.push(Call::Render(n.clone()));
    }
    calls.push(Call::Render("nosuch.html".into()));
    for (t, b) in BLOCKS {
        calls.push(Call::Block(t.to_string(), b.to_string()));
    }
    for (n, s) in &good {
        if n == "components.html" {
            continue;
        }
        for ae in [true, false] {
            calls.push(Call::Str(n.clone(), s.clone(), ae));
        }
    }
    // sources that only make sense on the fly: nothing but a comment, comments between text, raw
    // only, nothing at all, and sources the engine refuses (unterminated comment / variable / tag,
    // unknown filter, missing include target, extends): both channels must give the same bytes or
    // both must fail (seeded change C18-10 gave render_str a shortcut for sources without `{{` / `{%`
    // that forgot comments; render_str_to had none)
    for (n, s) in ONE_OFF_ONLY {
        sources.insert(n.to_string(), s.to_string());
        purposes.insert(n.to_string(), "one-off source (not registered)");
        for ae in [true, false] {
            calls.push(Call::Str(n.to_string(), s.to_string(), ae));
        }
    }
    for (c, body, style) in COMPONENT_CALLS {
        for ae in [true, false] {
            calls.push(Call::Component(c.to_string(), body.map(|b| b.to_string()), *style, ae));
        }
    }
    let pristine = tera.clone();
    World { tera, pristine, load_errors, sources, purposes, ctxs: contexts(), ctx_json: context_jsons(), calls }
}

impl World {
    /// An instance nothing was rendered on: the registered templates, new filter objects.
    fn fresh(&self) -> Tera {
        let mut t = self.pristine.clone();
        register_contrib(&mut t);
        t
    }

    fn string_api(&self, call: &Call, ctx: &Context) -> Out {
        self.string_api_on(&self.tera, call, ctx)
    }

    fn string_api_on(&self, t: &Tera, call: &Call, ctx: &Context) -> Out {
        match call {
            Call::Render(n) => engine::render(t, n, ctx),
            Call::Block(n, b) => engine::render_block(t, n, b, ctx),
            Call::Str(_, s, ae) => engine::render_str(t, s, ctx, *ae),
            Call::Component(c, body, style, ae) => {
                let cctx = component_context(c, *style, ctx);
                engine::to_out(engine::guarded(|| t.render_component(c, &cctx, body.as_deref(), *ae)))
            }
        }
    }

    /// The `_to` variant into `w`. Err(String) = panic.
    fn writer_api(&self, call: &Call, ctx: &Context, w: &mut dyn Write) -> Result<tera::TeraResult<()>, String> {
        self.writer_api_on(&self.tera, call, ctx, w)
    }

    fn writer_api_on(&self, t: &Tera, call: &Call, ctx: &Context, w: &mut dyn Write) -> Result<tera::TeraResult<()>, String> {
        match call {
            Call::Render(n) => engine::guarded(|| t.render_to(n, ctx, &mut *w)),
            Call::Block(n, b) => engine::guarded(|| t.render_block_to(n, b, ctx, &mut *w)),
            Call::Str(_, s, ae) => engine::guarded(|| t.render_str_to(s, ctx, *ae, &mut *w)),
            Call::Component(c, body, style, ae) => {
                let cctx = component_context(c, *style, ctx);
                engine::guarded(|| t.render_component_to(c, &cctx, body.as_deref(), *ae, &mut *w))
            }
        }
    }

    fn related_sources(&self, call: &Call) -> Json {
        let mut seen: BTreeSet<String> = BTreeSet::new();
        let mut todo: Vec<String> = vec![];
        match call {
            Call::Render(n) | Call::Block(n, _) | Call::Str(n, _, _) => todo.push(n.clone()),
            Call::Component(..) => {}
        }
        todo.push("components.html".into());
        while let Some(n) = todo.pop() {
            if !seen.insert(n.clone()) {
                continue;
            }
            if let Some(src) = self.sources.get(&n) {
                for other in self.sources.keys() {
                    if src.contains(&format!("\"{other}\"")) {
                        todo.push(other.clone());
                    }
                }
            }
        }
        let m: BTreeMap<&String, &String> = seen.iter().filter_map(|n| self.sources.get_key_value(n)).collect();
        json!(m)
    }

    fn case_json(&self, call: &Call, ci: usize) -> Json {
        json!({
            "call": call.show(),
            "templates": self.related_sources(call),
            "context_name": self.ctx_json[ci].0,
            "context": self.ctx_json[ci].1,
            "context_extra": "big = i128::MAX - i, neg = i128::MIN + i, u = u128::MAX - i (i = context index), bytes = b\"by<tes\\xff\", s = safe string \"<safe&>\"",
            "instance": "Tera::default() + every corpus template of /verif/mc/props/src/bin/c18.rs (registered once, shared)",
        })
    }
}

// ------------------------------------------------------------------------------------------
// writers

/// Accepts everything and remembers the size of every `write` call.
#[derive(Default)]
struct Recorder {
    chunks: Vec<usize>,
    data: Vec<u8>,
}

impl Write for Recorder {
    fn write(&mut self, buf: &[u8]) -> io::Result<usize> {
        self.chunks.push(buf.len());
        self.data.extend_from_slice(buf);
        Ok(buf.len())
    }
    fn flush(&mut self) -> io::Result<()> {
        Ok(())
    }
}

#[derive(Clone, Copy, Debug, PartialEq)]
enum Plan {
    /// calls 1..k-1 are accepted in full, call k returns Err(kind); sticky: so does every later call
    FailAtCall { k: usize, kind: io::ErrorKind, sticky: bool },
    /// accepts exactly `b` bytes (the call that crosses the limit is a short write), then Err(kind) for ever
    Budget { b: usize, kind: io::ErrorKind },
    /// never fails; accepts at most `chunk` bytes per call
    Short { chunk: usize },
    /// calls 1..k-1 accepted in full, then Ok(0) for ever
    ZeroAtCall { k: usize },
    /// accepts exactly `b` bytes, then Ok(0) for ever
    ZeroAtByte { b: usize },
    /// call k returns Err(Interrupted) once; everything else is accepted in full
    InterruptAtCall { k: usize },
    /// one byte per call; Err(Interrupted) once when exactly `b` bytes have been accepted
    InterruptAtByte { b: usize },
}

impl Plan {
    fn family(&self) -> &'static str {
        match self {
            Plan::FailAtCall { sticky: true, .. } => "fail-at-call",
            Plan::FailAtCall { sticky: false, .. } => "fail-at-call-once",
            Plan::Budget { .. } => "byte-budget",
            Plan::Short { .. } => "short-writes",
            Plan::ZeroAtCall { .. } => "zero-at-call",
            Plan::ZeroAtByte { .. } => "zero-at-byte",
            Plan::InterruptAtCall { .. } => "interrupted-at-call",
            Plan::InterruptAtByte { .. } => "interrupted-at-byte",
        }
    }
    fn must_fail(&self) -> bool {
        matches!(self, Plan::FailAtCall { .. } | Plan::Budget { .. } | Plan::ZeroAtCall { .. } | Plan::ZeroAtByte { .. })
    }
}

struct Faulty {
    plan: Plan,
    calls: usize,
    accepted: Vec<u8>,
    /// the fault was delivered to the engine at least once
    fired: bool,
    /// write calls received after the first hard failure
    calls_after_failure: usize,
    interrupted: bool,
}

impl Faulty {
    fn new(plan: Plan) -> Self {
        Faulty { plan, calls: 0, accepted: vec![], fired: false, calls_after_failure: 0, interrupted: false }
    }
    fn fail(&mut self, kind: io::ErrorKind) -> io::Result<usize> {
        if self.fired {
            self.calls_after_failure += 1;
        }
        self.fired = true;
        Err(io::Error::new(kind, "injected writer fault"))
    }
    fn zero(&mut self) -> io::Result<usize> {
        if self.fired {
            self.calls_after_failure += 1;
        }
        self.fired = true;
        Ok(0)
    }
    fn take(&mut self, buf: &[u8], n: usize) -> io::Result<usize> {
        let n = n.min(buf.len());
        self.accepted.extend_from_slice(&buf[..n]);
        Ok(n)
    }
}

impl Write for Faulty {
    fn write(&mut self, buf: &[u8]) -> io::Result<usize> {
        self.calls += 1;
        match self.plan {
            Plan::FailAtCall { k, kind, sticky } => {
                if self.calls == k || (sticky && self.calls > k) {
                    self.fail(kind)
                } else {
                    if self.fired {
                        self.calls_after_failure += 1;
                    }
                    self.take(buf, buf.len())
                }
            }
            Plan::Budget { b, kind } => {
                let room = b - self.accepted.len();
                if room == 0 { self.fail(kind) } else { self.take(buf, room) }
            }
            Plan::Short { chunk } => self.take(buf, chunk),
            Plan::ZeroAtCall { k } => {
                if self.calls >= k { self.zero() } else { self.take(buf, buf.len()) }
            }
            Plan::ZeroAtByte { b } => {
                let room = b - self.accepted.len();
                if room == 0 { self.zero() } else { self.take(buf, room) }
            }
            Plan::InterruptAtCall { k } => {
                if self.calls == k && !self.interrupted {
                    self.interrupted = true;
                    self.fired = true;
                    Err(io::Error::new(io::ErrorKind::Interrupted, "injected EINTR"))
                } else {
                    self.take(buf, buf.len())
                }
            }
            Plan::InterruptAtByte { b } => {
                if self.accepted.len() == b && !self.interrupted {
                    self.interrupted = true;
                    self.fired = true;
                    Err(io::Error::new(io::ErrorKind::Interrupted, "injected EINTR"))
                } else {
                    self.take(buf, 1)
                }
            }
        }
    }
    fn flush(&mut self) -> io::Result<()> {
        Ok(())
    }
}

const SWEEP_KINDS: &[io::ErrorKind] = &[
    io::ErrorKind::Other,
    io::ErrorKind::BrokenPipe,
    io::ErrorKind::WouldBlock,
    io::ErrorKind::TimedOut,
    io::ErrorKind::UnexpectedEof,
    io::ErrorKind::WriteZero,
    io::ErrorKind::PermissionDenied,
    io::ErrorKind::OutOfMemory,
    io::ErrorKind::ConnectionReset,
    io::ErrorKind::StorageFull,
];

/// The fault plans of one "fault family" index for a fault-free run of `ncalls` calls / `len` bytes.
const FAULT_FAMILIES: &[&str] = &[
    "fail-at-call/Other",
    "fail-at-call/BrokenPipe",
    "fail-at-call-once/Other",
    "fail-at-call-once/BrokenPipe",
    "byte-budget/Other",
    "byte-budget/BrokenPipe",
    "short-writes",
    "zero-at-call",
    "zero-at-byte",
    "interrupted-at-call",
    "interrupted-at-byte",
    "error-kind-sweep",
];

fn plans(fault_family: usize, ncalls: usize, len: usize) -> Vec<Plan> {
    use io::ErrorKind::{BrokenPipe, Other};
    match fault_family {
        0 | 1 | 2 | 3 => {
            let kind = if fault_family % 2 == 0 { Other } else { BrokenPipe };
            (1..=ncalls).map(|k| Plan::FailAtCall { k, kind, sticky: fault_family < 2 }).collect()
        }
        4 | 5 => {
            let kind = if fault_family == 4 { Other } else { BrokenPipe };
            (0..=len).map(|b| Plan::Budget { b, kind }).collect()
        }
        6 => [1usize, 2, 3, 5, 64].iter().map(|&chunk| Plan::Short { chunk }).collect(),
        7 => (1..=ncalls).map(|k| Plan::ZeroAtCall { k }).collect(),
        8 => (0..=len).map(|b| Plan::ZeroAtByte { b }).collect(),
        9 => (1..=ncalls).map(|k| Plan::InterruptAtCall { k }).collect(),
        10 => (0..=len).map(|b| Plan::InterruptAtByte { b }).collect(),
        11 => {
            let mut v = vec![];
            for &kind in SWEEP_KINDS {
                for k in [1, ncalls.div_ceil(2), ncalls] {
                    if k >= 1 && k <= ncalls {
                        v.push(Plan::FailAtCall { k, kind, sticky: false });
                    }
                }
            }
            v.dedup();
            v
        }
        _ => unreachable!(),
    }
}

fn show_result(r: &Result<tera::TeraResult<()>, String>) -> String {
    match r {
        Ok(Ok(())) => "Ok(())".into(),
        Ok(Err(e)) => {
            let first: String = engine::err_message(e).lines().next().unwrap_or("").chars().take(120).collect();
            format!("Err[{}]({first})", match e.kind() {
                tera::ErrorKind::Io(k) => format!("Io({k:?})"),
                k => kind_tag(k).to_string(),
            })
        }
        Err(p) => format!("PANIC({p})"),
    }
}

/// Outcome without the message (messages may list names in HashMap order, which varies per call).
fn coarse_result(r: &Result<tera::TeraResult<()>, String>) -> String {
    match r {
        Ok(Ok(())) => "Ok(())".into(),
        Ok(Err(e)) => format!("Err[{}]", kind_tag(e.kind())),
        Err(_) => "PANIC".into(),
    }
}

/// Same bytes, or both errors of the same kind; a panic equals nothing.
fn same_out(a: &Out, b: &Out) -> bool {
    match (a, b) {
        (Out::Ok(x), Out::Ok(y)) => x == y,
        (Out::Err(k1, _), Out::Err(k2, _)) => k1 == k2,
        _ => false,
    }
}

fn clip(b: &[u8]) -> String {
    let s = String::from_utf8_lossy(b);
    if s.chars().count() > 160 {
        let head: String = s.chars().take(150).collect();
        format!("{head:?}… ({} bytes)", b.len())
    } else {
        format!("{s:?}")
    }
}

// ------------------------------------------------------------------------------------------
// sched subprocess

fn sched_exe() -> PathBuf {
    let me = std::env::current_exe().expect("current exe");
    me.parent().unwrap().join("sched")
}

/// Runs `sched` with a wall-clock limit. Ok(stdout) or Err(reason).
fn run_sched(args: &[&str], limit: Duration) -> Result<String, String> {
    let mut child = Command::new(sched_exe())
        .args(args)
        .stdin(Stdio::null())
        .stdout(Stdio::piped())
        .stderr(Stdio::null())
        .spawn()
        .map_err(|e| format!("cannot start {:?}: {e}", sched_exe()))?;
    let mut out = child.stdout.take().unwrap();
    let reader = std::thread::spawn(move || {
        let mut s = String::new();
        let _ = io::Read::read_to_string(&mut out, &mut s);
        s
    });
    let t0 = Instant::now();
    loop {
        match child.try_wait() {
            Ok(Some(status)) => {
                let s = reader.join().unwrap_or_default();
                if !status.success() && s.trim().is_empty() {
                    return Err(format!("sched exited with {status} and printed nothing"));
                }
                return Ok(s);
            }
            Ok(None) => {
                if t0.elapsed() > limit {
                    let _ = child.kill();
                    let _ = child.wait();
                    return Err(format!("TIMEOUT after {:.0}s", limit.as_secs_f64()));
                }
                std::thread::sleep(Duration::from_millis(5));
            }
            Err(e) => return Err(format!("wait failed: {e}")),
        }
    }
}

const INSTRUCTION_KINDS: &[&str] = &[
    "LoadConst", "LoadName", "LoadAttr", "LoadAttrOpt", "BinarySubscript", "BinarySubscriptOpt", "Slice", "SliceOpt",
    "WriteText", "WriteTop", "Set", "SetGlobal", "Include", "BuildMap", "BuildList", "BuildMapWithSpreads",
    "BuildListWithSpreads", "CallFunction", "RenderInlineComponent", "RenderBodyComponent", "ApplyFilter", "RunTest",
    "RenderBlock", "Jump", "PopJumpIfFalse", "JumpIfFalseOrPop", "JumpIfTrueOrPop", "Capture", "EndCapture",
    "StartIterate", "StartIterateComprehension", "Iterate", "StoreLocal", "StoreDidNotIterate", "Break", "PopLoop",
    "AppendToList", "Mul", "Div", "FloorDiv", "Mod", "Plus", "Minus", "Power", "LessThan", "GreaterThan",
    "LessThanOrEqual", "GreaterThanOrEqual", "Equal", "NotEqual", "StrConcat", "In", "Not", "Negative", "LoadPath",
    "WritePath",
];

fn main() {
    let mut run = Run::from_env("C18", "model_checking");
    let thorough = run.tier.is_thorough();
    run.rule(
        "api-pairs: one case per (call, context, channel pair); non-trivial = the String variant succeeded with a non-empty output or \
         failed (both must then fail). writer-faults: one case per (call, context, fault plan, position) where position ranges over \
         EVERY write call index / EVERY byte offset of the fault-free run of that call; non-trivial = the fault was actually delivered \
         to the engine. purity: one case per (call A, call B, context) sequence A,B,A(,faulted B,A) on one shared instance; non-trivial = \
         A's reference result is a non-empty Ok or an Err. threads-dfs: one case per sched harness, every schedule of which is executed \
         (states = schedules); non-trivial = more than one interleaving order was observed. threads-smoke: one case per group of 4 \
         free-running OS threads (smoke only). send-sync: one case, the probe crate build. Cases are distinct by construction.",
    );
    run.assume("interleavings below the granularity of the VM yield hook (instruction dispatch, format->escape window, every output/capture write) and weak-memory effects are not explored; the only synchronisation in the subject is std's Arc/LazyLock, trusted");
    run.assume("each thread yields only inside a window of `cap` hook calls (2 threads: 7 quick / 10 thorough; 3 threads: 3 / 4); thorough slides the window over the whole render; outside its window a thread runs without scheduling points");
    run.assume("first-time initialisation of the EMPTY_MAP static happens once per process (during the sequential reference run) and is not raced");
    run.assume("the DFS prunes choices that only reorder harness bookkeeping (main task spawning/joining, a finished thread exiting); the sched self-test checks that the set of interleaving orders is unchanged by the pruning");
    run.assume("std::io::Write::write_all / write_fmt semantics (retry on Interrupted, loop on short writes, WriteZero on Ok(0)) are std's and are what the engine uses for every write");
    run.assume("user-registered filters/functions with interior mutability are outside the property; the built-ins and tera-contrib's regex_replace / matching / striptags / spaceless (which keep caches) are exercised; tera-contrib's rand and date items are impure by design and left out");

    let large_n = if thorough { 400 } else { 60 };
    let w = Trust(build_world(large_n));
    let ncalls = w.calls.len() as u64;
    let nctx = w.ctxs.len() as u64;
    run.extra("corpus_templates", json!(w.sources.len()));
    run.extra("corpus_calls", json!(ncalls));
    run.extra("contexts", json!(w.ctx_json.iter().map(|(n, j)| json!({"name": n, "value": j})).collect::<Vec<_>>()));
    run.extra(
        "corpus",
        json!(w.sources.iter().map(|(n, s)| json!({"name": n, "for": w.purposes[n], "source": if s.len() > 300 { format!("{}…", &s[..300]) } else { s.clone() }})).collect::<Vec<_>>()),
    );
    run.extra("corpus_rejected_at_load", json!(w.load_errors));
    run.extra("fault_families", json!(FAULT_FAMILIES));

    // fault-free reference of every (call, context), computed on a fresh instance per call in every process
    struct Baseline {
        out: Out,
        data: Vec<u8>,
        chunks: Vec<usize>,
        /// display form / comparison form (no message) of the `_to` result
        result: String,
        coarse: String,
    }
    let mut baseline: Vec<Baseline> = vec![];
    for call in &w.calls {
        // every call gets an instance nothing else was rendered on: a call that leaves something
        // behind (a cache entry, a lazily built value) cannot colour the reference of another one
        let t = w.fresh();
        for ctx in &w.ctxs {
            let out = w.string_api_on(&t, call, ctx);
            let mut rec = Recorder::default();
            let r = w.writer_api_on(&t, call, ctx, &mut rec);
            baseline.push(Baseline { out, data: rec.data, chunks: rec.chunks, result: show_result(&r), coarse: coarse_result(&r) });
        }
    }
    let bl = |ci: usize, xi: usize| &baseline[ci * nctx as usize + xi];

    // ---------------------------------------------------------------- api-pairs
    run.family(
        Family::new(
            "api-pairs",
            ncalls * nctx,
            &format!("all {ncalls} corpus calls (render, render_block, render_str x autoescape, render_component x body x autoescape) x {nctx} contexts: String variant vs _to variant"),
        ),
        |item, acc: &mut Acc| {
            let (ci, xi) = ((item / nctx) as usize, (item % nctx) as usize);
            let (call, ctx) = (&w.calls[ci], &w.ctxs[xi]);
            let case = || w.case_json(call, xi);
            let s = w.string_api(call, ctx);
            let mut buf: Vec<u8> = Vec::new();
            let r = w.writer_api(call, ctx, &mut buf);
            let mut rec = Recorder::default();
            let r2 = w.writer_api(call, ctx, &mut rec);
            let api = call.api();
            match (&s, &r) {
                (Out::Panic(p), _) => acc.violation(format!("panic:{api}"), format!("{} panicked: {p}", call.show()), case),
                (_, Err(p)) => acc.violation(format!("panic:{api}_to"), format!("{}_to panicked: {p}", api), case),
                (Out::Ok(text), Ok(Ok(()))) => {
                    if text.as_bytes() != buf.as_slice() {
                        acc.violation(
                            format!("channel-mismatch:{api}"),
                            format!("{api} returned {} but {api}_to wrote {}", clip(text.as_bytes()), clip(&buf)),
                            case,
                        );
                    }
                }
                (Out::Err(..), Ok(Err(_))) => {}
                (a, b) => acc.violation(
                    format!("channel-outcome-mismatch:{api}"),
                    format!("{api} gave {} but {api}_to gave {} after writing {}", a.show(), show_result(b), clip(&buf)),
                    case,
                ),
            }
            acc.case(!matches!(&s, Out::Ok(t) if t.is_empty()), s.class());
            // a second writer (recording the calls) sees the same bytes and the same outcome
            if rec.data != buf || coarse_result(&r2) != coarse_result(&r) {
                acc.violation(
                    format!("writer-dependent-output:{api}"),
                    format!("{api}_to wrote {} / {} into a Vec but {} / {} into a recording writer", clip(&buf), show_result(&r), clip(&rec.data), show_result(&r2)),
                    case,
                );
            }
            acc.case(!buf.is_empty() || s.is_err(), if rec.chunks.len() > 1 { "multi-call" } else { "single-call" });
            acc.count("write_calls_observed", rec.chunks.len() as u64);
            acc.count("bytes_observed", rec.data.len() as u64);
            // error kinds agree (observation, not a requirement of the statement)
            if let (Out::Err(k, _), Ok(Err(e))) = (&s, &r) {
                acc.count(if k == kind_tag(e.kind()) { "error-kind-same" } else { "error-kind-differs" }, 1);
            }
            // Tera::one_off is render_str on a default instance
            if let Call::Str(_, src, ae) = call {
                let a = engine::to_out(engine::guarded(|| Tera::one_off(src, ctx, *ae)));
                let fresh = Tera::default();
                let b = engine::render_str(&fresh, src, ctx, *ae);
                let mut vb: Vec<u8> = vec![];
                let c = engine::guarded(|| fresh.render_str_to(src, ctx, *ae, &mut vb));
                let agree = match (&a, &b, &c) {
                    (Out::Ok(x), Out::Ok(y), Ok(Ok(()))) => x == y && x.as_bytes() == vb.as_slice(),
                    (Out::Err(..), Out::Err(..), Ok(Err(_))) => true,
                    _ => false,
                };
                if !agree {
                    acc.violation(
                        "channel-mismatch:one_off",
                        format!("one_off gave {}, render_str on a default instance {}, render_str_to {} / {}", a.show(), b.show(), show_result(&c), clip(&vb)),
                        case,
                    );
                }
                acc.case(!matches!(&a, Out::Ok(t) if t.is_empty()), a.class());
            }
            if ci % 17 == 3 && xi == 0 {
                acc.sample(|| json!({"case": case(), "string_variant": s.show(), "writer_variant_bytes": clip(&buf), "write_calls": rec.chunks.len()}));
            }
        },
    );

    // ---------------------------------------------------------------- writer-faults
    let nff = FAULT_FAMILIES.len() as u64;
    run.family(
        Family::new(
            "writer-faults",
            ncalls * nctx * nff,
            &format!(
                "all {ncalls} calls x {nctx} contexts x {nff} fault families x every position: fail at the k-th write call (sticky / once; Other, BrokenPipe) for every k <= calls, \
                 accept exactly b bytes then fail for every b <= len, short writes of 1/2/3/5/64 bytes, Ok(0) from call k / from byte b, Interrupted once at call k / at byte b (1-byte writes), \
                 10 error kinds at first/middle/last call; large.html has {large_n} rows"
            ),
        )
        .timeout(240.0),
        |item, acc: &mut Acc| {
            let ff = (item % nff) as usize;
            let xi = ((item / nff) % nctx) as usize;
            let ci = (item / nff / nctx) as usize;
            let (call, ctx) = (&w.calls[ci], &w.ctxs[xi]);
            let base = bl(ci, xi);
            let api = call.api();
            let full = &base.data;
            let base_ok = base.result == "Ok(())";
            let mut ends = vec![0usize];
            for c in &base.chunks {
                ends.push(ends.last().unwrap() + c);
            }
            for plan in plans(ff, base.chunks.len(), full.len()) {
                let mut fw = Faulty::new(plan);
                let r = w.writer_api(call, ctx, &mut fw);
                let shown = show_result(&r);
                let fam = plan.family();
                let case = || {
                    let mut c = w.case_json(call, xi);
                    c["fault_plan"] = json!(format!("{plan:?}"));
                    c["fault_free_run"] = json!({"bytes": full.len(), "write_calls": base.chunks.len(), "result": base.result, "output": clip(full)});
                    c
                };
                acc.count("fault_points", 1);
                if fw.fired {
                    acc.count(&format!("fired:{fam}"), 1);
                }
                if let Err(p) = &r {
                    acc.violation(format!("fault-panic:{api}:{fam}"), format!("panic with a failing writer: {p}"), case);
                    acc.case(fw.fired, "panic");
                    continue;
                }
                // what the writer accepted is always a prefix of the fault-free bytes
                if !full.starts_with(&fw.accepted) {
                    acc.violation(
                        format!("fault-not-prefix:{api}:{fam}"),
                        format!("the writer accepted {} which is not a prefix of the fault-free output {}", clip(&fw.accepted), clip(full)),
                        case,
                    );
                }
                let is_io = matches!(&r, Ok(Err(e)) if matches!(e.kind(), tera::ErrorKind::Io(_)));
                let class;
                if plan.must_fail() && fw.fired {
                    class = if is_io { "io-error" } else if matches!(r, Ok(Ok(()))) { "swallowed" } else { "other-error" };
                    if matches!(r, Ok(Ok(()))) {
                        acc.violation(
                            format!("fault-swallowed:{api}:{fam}"),
                            format!("the writer failed ({plan:?}) but the call returned Ok(()); accepted {}", clip(&fw.accepted)),
                            case,
                        );
                    } else if !is_io {
                        acc.violation(
                            format!("fault-not-io:{api}:{fam}"),
                            format!("the writer failed ({plan:?}) but the call returned {shown}, not ErrorKind::Io"),
                            case,
                        );
                    }
                    // exactly the bytes offered before the fault were accepted
                    let want = match plan {
                        Plan::FailAtCall { k, .. } | Plan::ZeroAtCall { k } => ends[k - 1],
                        Plan::Budget { b, .. } | Plan::ZeroAtByte { b } => b,
                        _ => unreachable!(),
                    };
                    if fw.accepted.len() != want && full.starts_with(&fw.accepted) {
                        acc.violation(
                            format!("fault-accepted-length:{api}:{fam}"),
                            format!("the writer should have accepted exactly {want} bytes before the fault, it accepted {}", fw.accepted.len()),
                            case,
                        );
                    }
                    // further write attempts after the failure are only observed: the statement
                    // does not forbid them (a `once` fault makes them visible as a non-prefix)
                    if fw.calls_after_failure > 0 {
                        acc.count("writes-attempted-after-failure", 1);
                    }
                    // the reported kind (observation only)
                    if let Ok(Err(e)) = &r
                        && let tera::ErrorKind::Io(k) = e.kind()
                    {
                        let injected = match plan {
                            Plan::FailAtCall { kind, .. } | Plan::Budget { kind, .. } => kind,
                            _ => io::ErrorKind::WriteZero,
                        };
                        acc.count(if *k == injected { "io-kind-preserved" } else { "io-kind-changed" }, 1);
                    }
                } else {
                    // the fault never reached the engine (budget == len), or the plan is one that
                    // write_all absorbs: same outcome and same bytes as the fault-free run
                    let same = coarse_result(&r) == base.coarse;
                    class = if same { if base_ok { "absorbed-ok" } else { "absorbed-err" } } else { "changed" };
                    if !same || fw.accepted != *full {
                        let sig = if plan.must_fail() { "fault-unfired-differs" } else { "retry-broken" };
                        acc.violation(
                            format!("{sig}:{api}:{fam}"),
                            format!(
                                "with {plan:?} (which write_all absorbs) the call returned {shown} and the writer got {}; fault-free: {} and {}",
                                clip(&fw.accepted), base.result, clip(full)
                            ),
                            case,
                        );
                    }
                }
                acc.case(fw.fired, class);
                if ci % 23 == 5 && xi == 0 && matches!(plan, Plan::FailAtCall { k: 2, .. } | Plan::Budget { b: 3, .. } | Plan::InterruptAtCall { k: 1 }) {
                    acc.sample(|| json!({"case": case(), "result": shown, "accepted": clip(&fw.accepted)}));
                }
            }
        },
    );

    // ---------------------------------------------------------------- clones
    // "Rendering does not modify the engine": also not an engine it was CLONED from or into. An
    // instance with fallback prefixes is cloned, the clone gets templates of higher priority, and
    // both are rendered in every order; each render must give what an instance built from scratch
    // with the same templates gives. (Seeded change C18-12 cached what a name resolved to through a
    // prefix behind an Arc that `Tera::clone` shared.)
    {
        const BASE: [(&str, &str); 4] = [
            ("themes/default/header.html", "D-head{{ a }}"),
            ("themes/default/layout.html", "<{% block c %}L{% endblock %}>"),
            ("page.html", "{% for i in [1, 2] %}{% include \"header.html\" %}{% endfor %}|{{ a }}"),
            ("child.html", "{% extends \"layout.html\" %}{% block c %}C{{ super() }}{% endblock %}"),
        ];
        const EXT: [(&str, &str); 2] = [("themes/custom/header.html", "C-head"), ("themes/custom/layout.html", "[{% block c %}X{% endblock %}]")];
        const CALLS: [&str; 3] = ["render(page.html)", "render(child.html)", "render_str({% include \"header.html\" %})"];
        const OPS: [&str; 8] = [
            "base: render(page.html)", "base: render(child.html)", "base: render_str(include header.html)",
            "clone: render(page.html)", "clone: render(child.html)", "clone: render_str(include header.html)",
            "clone := base.clone() + themes/custom/header.html + themes/custom/layout.html",
            "clone := base.clone()",
        ];
        let scratch = |ext: bool| {
            let mut t = Tera::default();
            t.set_fallback_prefixes(["themes/custom/", "themes/default/"]).expect("prefixes on an empty instance");
            let mut tpls: Vec<(&str, &str)> = BASE.to_vec();
            if ext {
                tpls.extend(EXT);
            }
            t.add_raw_templates(tpls).expect("the clone family's templates load");
            t
        };
        let ctx = {
            let mut c = Context::new();
            c.insert("a", "<a>");
            c
        };
        let call = |t: &Tera, k: usize| match k {
            0 => engine::render(t, "page.html", &ctx),
            1 => engine::render(t, "child.html", &ctx),
            _ => engine::render_str(t, "{% include \"header.html\" %}", &ctx, true),
        };
        let max_len = 4u32;
        let n_ops = OPS.len() as u64;
        let total: u64 = (1..=max_len).map(|l| n_ops.pow(l)).sum();
        run.family(
            Family::new(
                "clones",
                total,
                &format!("ALL sequences of length <= {max_len} over {n_ops} operations on an instance with two fallback prefixes and a clone of it: 3 calls ({}) on either, cloning with and without two higher-priority templates added to the clone; every render against an instance built from scratch with the same templates", CALLS.join(", ")),
            )
            .describe(|item| {
                let (mut l, mut i) = (1u32, item);
                while i >= n_ops.pow(l) {
                    i -= n_ops.pow(l);
                    l += 1;
                }
                let seq: Vec<&str> = (0..l).rev().map(|p| OPS[((i / n_ops.pow(p)) % n_ops) as usize]).collect();
                json!({"operations": seq})
            }),
            |item, acc: &mut Acc| {
                let (mut l, mut i) = (1u32, item);
                while i >= n_ops.pow(l) {
                    i -= n_ops.pow(l);
                    l += 1;
                }
                let seq: Vec<usize> = (0..l).rev().map(|p| ((i / n_ops.pow(p)) % n_ops) as usize).collect();
                // a sequence is well-formed when the clone exists before it is used
                let mut have = false;
                for &o in &seq {
                    if (3..6).contains(&o) && !have {
                        return;
                    }
                    have |= o >= 6;
                }
                let refs = [scratch(false), scratch(true)];
                let base = scratch(false);
                let mut fork: Option<(Tera, usize)> = None;
                for (step, &o) in seq.iter().enumerate() {
                    match o {
                        6 => {
                            let mut c = base.clone();
                            c.add_raw_templates(EXT.to_vec()).expect("the clone takes the higher-priority templates");
                            fork = Some((c, 1));
                        }
                        7 => fork = Some((base.clone(), 0)),
                        _ => {
                            let (t, r, k) = if o < 3 { (&base, 0, o) } else { let f = fork.as_ref().unwrap(); (&f.0, f.1, o - 3) };
                            let got = call(t, k);
                            let want = call(&refs[r], k);
                            if got != want {
                                acc.violation(
                                    format!("clone-dependent-render:{}", if o < 3 { "original" } else { "clone" }),
                                    format!("step {step} ({}) gave {}, an instance built from scratch with the same templates gives {}", OPS[o], got.show(), want.show()),
                                    || json!({"operations": seq.iter().map(|o| OPS[*o]).collect::<Vec<_>>(), "fallback_prefixes": ["themes/custom/", "themes/default/"],
                                              "templates": BASE.iter().map(|(n, s)| json!({"name": n, "source": s})).collect::<Vec<_>>(),
                                              "added_to_the_clone": EXT.iter().map(|(n, s)| json!({"name": n, "source": s})).collect::<Vec<_>>()}),
                                );
                            }
                            acc.case(true, if r == 1 { "clone-with-more-templates" } else { "same-templates" });
                        }
                    }
                }
            },
        );
    }

    // ---------------------------------------------------------------- purity
    let names_before: Vec<String> = {
        let mut v: Vec<String> = w.tera.get_template_names().map(|s| s.to_string()).collect();
        v.sort();
        v
    };
    run.family(
        Family::new(
            "purity",
            ncalls,
            &format!("all {ncalls}^2 ordered pairs of calls x {nctx} contexts interleaved on one instance that has rendered nothing before: A, B, A, B with a writer failing at its 2nd call, A, each compared with its result on an instance of its own; contexts compared with clones"),
        )
        .timeout(240.0),
        |item, acc: &mut Acc| {
            let ai = item as usize;
            let a = &w.calls[ai];
            for bi in 0..w.calls.len() {
                let b = &w.calls[bi];
                for xi in 0..w.ctxs.len() {
                    let yi = (xi + 1) % w.ctxs.len();
                    let (cx, cy) = (&w.ctxs[xi], &w.ctxs[yi]);
                    let (kx, ky) = (cx.clone(), cy.clone());
                    let want_a = &bl(ai, xi).out;
                    let want_b = &bl(bi, yi).out;
                    let case = || {
                        json!({
                            "sequence": [a.show(), b.show(), a.show(), format!("{}_to with a writer failing at its 2nd call", b.api()), a.show()],
                            "A": w.case_json(a, xi),
                            "B": w.case_json(b, yi),
                        })
                    };
                    // a fresh instance per sequence: A is the FIRST thing it renders, so whatever A
                    // leaves behind (in the engine or in a registered tera-contrib filter) meets B
                    let t = w.fresh();
                    let r1 = w.string_api_on(&t, a, cx);
                    let r2 = w.string_api_on(&t, b, cy);
                    let r3 = w.string_api_on(&t, a, cx);
                    let mut fw = Faulty::new(Plan::FailAtCall { k: 2, kind: io::ErrorKind::Other, sticky: true });
                    let _ = w.writer_api_on(&t, b, cy, &mut fw);
                    let r5 = w.string_api_on(&t, a, cx);
                    for (step, got, want) in [(1, &r1, want_a), (2, &r2, want_b), (3, &r3, want_a), (5, &r5, want_a)] {
                        if !same_out(got, want) {
                            acc.violation(
                                format!("impure:{}", if step == 2 { b.api() } else { a.api() }),
                                format!("step {step} of the sequence gave {} but the same call alone on a fresh instance gave {}", got.show(), want.show()),
                                case,
                            );
                        }
                    }
                    let mut names: Vec<String> = t.get_template_names().map(|s| s.to_string()).collect();
                    names.sort();
                    if names != names_before {
                        acc.violation("instance-modified", "the set of template names changed while rendering", || json!({"before": names_before, "after": names}));
                    }
                    if *cx != kx || *cy != ky {
                        acc.violation("context-modified", "a Context differs from the clone taken before rendering", case);
                    }
                    acc.case(!matches!(want_a, Out::Ok(t) if t.is_empty()), want_a.class());
                    acc.count("renders", 5);
                    if ai == 9 && bi == 30 && xi == 0 {
                        acc.sample(|| json!({"case": case(), "A_result": r1.show(), "B_result": r2.show()}));
                    }
                }
            }
            let mut names: Vec<String> = w.tera.get_template_names().map(|s| s.to_string()).collect();
            names.sort();
            if names != names_before {
                acc.violation("instance-modified", "the set of template names changed while rendering", || json!({"before": names_before, "after": names}));
            }
        },
    );

    // ---------------------------------------------------------------- threads-dfs
    // the harness list comes from the sched binary itself (one source of truth)
    let harnesses: Vec<Json> = match run_sched(&["--list"], Duration::from_secs(60)) {
        Ok(s) => s.lines().filter_map(|l| serde_json::from_str::<Json>(l).ok()).collect(),
        Err(e) => {
            println!("MACHINERY: cannot list the sched harnesses: {e}");
            std::process::exit(2);
        }
    };
    let selected: Vec<&Json> = harnesses.iter().filter(|h| thorough || h["tier"] == "quick").collect();
    if selected.is_empty() {
        println!("MACHINERY: sched --list returned no harness");
        std::process::exit(2);
    }
    // nominal cost of a harness: 0.2-0.7 s (quick), up to 10 s (thorough); the limits leave room for a
    // heavily loaded machine. Reaching one is a machinery failure (exit 2), never a verdict.
    let sched_limit = Duration::from_secs(if thorough { 420 } else { 60 });
    let nh = selected.len() as u64;
    run.family(
        Family::new(
            "threads-dfs",
            nh + 1,
            &format!(
                "{nh} harnesses (20 groups of 2 or 3 renders on one Arc<Tera> x yield kinds {{escape window + writes, all}} x windows), every schedule of each executed by shuttle's DFS; \
                 window of {} yields per thread (2 threads) / {} (3 threads){}",
                if thorough { "7 and 10" } else { "7" },
                if thorough { "3 and 4" } else { "3" },
                if thorough { ", windows slid over the whole render" } else { ", at the start of the render" }
            ),
        )
        .timeout(2.0 * sched_limit.as_secs_f64() + 60.0)
        .describe(|i| if i == 0 { json!({"harness": "selftest"}) } else { selected[i as usize - 1].clone() }),
        |item, acc: &mut Acc| {
            if item == 0 {
                // scheduler machinery: branching at yield_now (2 x 3 yields -> 20 orders), pruning
                // keeps every order, schedule strings are accepted by shuttle's ReplayScheduler
                let r = run_sched(&["--selftest"], sched_limit);
                let ok = matches!(&r, Ok(s) if serde_json::from_str::<Json>(s.trim()).map(|j| j["ok"] == json!(true)).unwrap_or(false));
                if !ok {
                    acc.count("sched_machinery_failures", 1);
                }
                acc.case(ok, if ok { "selftest-ok" } else { "selftest-failed" });
                acc.sample(|| json!({"sched_selftest": r.clone().ok().and_then(|s| serde_json::from_str::<Json>(s.trim()).ok()), "error": r.clone().err()}));
                return;
            }
            let h = selected[item as usize - 1];
            let name = h["name"].as_str().unwrap_or("");
            let key = |k: &str| format!("h|{name}|{k}");
            let out = match run_sched(&["--run", name], sched_limit) {
                Ok(s) => s,
                Err(e) => {
                    // a hang (for instance a lock held across a yield point) is not a verdict
                    acc.count(if e.starts_with("TIMEOUT") { "sched_timeouts" } else { "sched_machinery_failures" }, 1);
                    acc.case(false, if e.starts_with("TIMEOUT") { "sched-timeout" } else { "sched-error" });
                    return;
                }
            };
            let Some(j) = out.lines().rev().find_map(|l| serde_json::from_str::<Json>(l).ok()) else {
                acc.count("sched_machinery_failures", 1);
                acc.case(false, "sched-error");
                return;
            };
            let schedules = j["schedules"].as_u64().unwrap_or(0);
            let orders = j["orders"].as_u64().unwrap_or(0);
            acc.count("schedules", schedules);
            acc.count("yield_points_taken", j["steps"].as_u64().unwrap_or(0));
            acc.count("interleaving_orders", orders);
            acc.count(&key("schedules"), schedules);
            acc.count(&key("orders"), orders);
            if j["covers_whole_render"] == json!(true) {
                acc.count("harnesses_covering_whole_render", 1);
            }
            if j["ok"] == json!(true) {
                // vacuity: every interleaving order of the yields taken was observed
                let complete = j["orders_expected"].as_str() == Some(orders.to_string().as_str()) && j["yields_stable"] == json!(true);
                if !complete {
                    acc.count("incomplete_order_sets", 1);
                }
                if orders <= 1 {
                    acc.count("single_order_harnesses", 1);
                }
                acc.case(orders > 1, "all-schedules-equal-sequential");
                if item % 9 == 1 {
                    acc.sample(|| j.clone());
                }
                return;
            }
            let f = &j["failure"];
            if f["machinery"].is_string() {
                acc.count("sched_machinery_failures", 1);
                acc.case(false, "sched-error");
                return;
            }
            // re-execute the one failing schedule with shuttle's replay scheduler
            let schedule = f["schedule"].as_str().unwrap_or("").to_string();
            let confirmed = match run_sched(&["--replay", name, &schedule], sched_limit) {
                Ok(s) => match s.lines().rev().find_map(|l| serde_json::from_str::<Json>(l).ok()) {
                    Some(r) if r["ok"] == json!(false) && r["failure"]["observed"] == f["observed"] => "reproduced by `sched --replay`",
                    Some(_) => "NOT reproduced by `sched --replay`",
                    None => "replay printed nothing",
                },
                Err(_) => "replay did not finish",
            };
            let group = name.split('/').next().unwrap_or("");
            acc.violation(
                format!("concurrent-differs:{}:{group}", f["class"].as_str().unwrap_or("bytes")),
                format!(
                    "thread {} ({}) produced {} under schedule {} but {} sequentially [{confirmed}; yield order {}]",
                    f["thread"], f["action"].as_str().unwrap_or(""), f["observed"].as_str().unwrap_or(""), schedule,
                    f["expected"].as_str().unwrap_or(""), f["yield_order"].as_str().unwrap_or("")
                ),
                || {
                    json!({
                        "harness": name,
                        "threads": j["threads"],
                        "sequential_results": j["sequential"],
                        "yield_kinds": j["mask"], "window_start": j["start"], "window_len": j["cap"],
                        "failing_thread": f["thread"], "observed": f["observed"], "expected": f["expected"],
                        "schedule": schedule,
                        "yield_order": f["yield_order"],
                        "replay_cmd": format!("{} --replay '{name}' {schedule}", sched_exe().display()),
                        "templates": "see TEMPLATES in /verif/mc/sched/src/main.rs (shown inline in `threads`)",
                    })
                },
            );
            acc.case(true, "mismatch");
        },
    );

    // ---------------------------------------------------------------- threads-smoke
    const SMOKE_THREADS: usize = 4;
    let smoke_iters: usize = if thorough { 400 } else { 100 };
    run.family(
        Family::new(
            "threads-smoke",
            ncalls,
            &format!("SMOKE, NOT EXHAUSTIVE: for every call i, {SMOKE_THREADS} free-running OS threads render calls i..i+{SMOKE_THREADS} (cyclically) {smoke_iters} times each on one shared instance; no scheduler control"),
        )
        .timeout(240.0),
        |item, acc: &mut Acc| {
            let n = w.calls.len();
            let picks: Vec<(usize, usize)> = (0..SMOKE_THREADS).map(|t| ((item as usize + t * 7) % n, t % w.ctxs.len())).collect();
            // large.html is rendered fewer times
            let mismatches: Vec<Option<String>> = std::thread::scope(|s| {
                let hs: Vec<_> = picks
                    .iter()
                    .map(|&(ci, xi)| {
                        let w = &w;
                        let want = &bl(ci, xi).out;
                        s.spawn(move || {
                            let big = matches!(want, Out::Ok(t) if t.len() > 4096);
                            let iters = if big { smoke_iters / 20 + 1 } else { smoke_iters };
                            for _ in 0..iters {
                                let got = w.string_api(&w.calls[ci], &w.ctxs[xi]);
                                if !same_out(&got, want) {
                                    return Some(got.show());
                                }
                            }
                            None
                        })
                    })
                    .collect();
                hs.into_iter().map(|h| h.join().unwrap_or(Some("thread panicked".into()))).collect()
            });
            for (t, m) in mismatches.iter().enumerate() {
                if let Some(got) = m {
                    let (ci, xi) = picks[t];
                    // free-running threads: what exactly is observed varies from run to run, so the
                    // message stays generic and the observation goes into the case
                    acc.violation(
                        format!("concurrent-differs-smoke:{}", w.calls[ci].api()),
                        format!("SMOKE (not replayable deterministically): {} on a free-running thread did not give its sequential result {}", w.calls[ci].show(), bl(ci, xi).out.show()),
                        || json!({"threads": picks.iter().map(|&(c, x)| w.case_json(&w.calls[c], x)).collect::<Vec<_>>(), "failing_thread": t, "observed_once": got}),
                    );
                }
            }
            acc.case(true, "smoke");
            acc.count("smoke_renders", (SMOKE_THREADS * smoke_iters) as u64);
        },
    );

    // ---------------------------------------------------------------- send-sync
    run.family(
        Family::new("send-sync", 1, "the ssprobe crate (assert::<T: Send + Sync>() for Tera, Context, Value, Error, Kwargs, Arc<Tera>) compiles against the subject")
            .workers(1)
            .timeout(900.0),
        |_item, acc: &mut Acc| {
            let ws = std::env::var("VERIF_WS").map(PathBuf::from).unwrap_or_else(|_| {
                let root = std::env::var("VERIF_ROOT").map(PathBuf::from).unwrap_or_else(|_| PathBuf::from("/verif"));
                root.join("mc")
            });
            // the target directory this very binary was built into: <target>/release/c18
            let target = std::env::current_exe()
                .ok()
                .and_then(|p| p.parent().and_then(|p| p.parent()).map(|p| p.to_path_buf()))
                .unwrap_or_else(|| ws.join("target"));
            let out = Command::new("cargo")
                .args(["build", "--release", "--offline", "--bin", "ssprobe", "--target-dir"])
                .arg(&target)
                .current_dir(&ws)
                .env("CARGO_NET_OFFLINE", "true")
                .stdin(Stdio::null())
                .output();
            match out {
                Err(_) => {
                    acc.count("probe_machinery_failures", 1);
                    acc.case(false, "probe-not-run");
                }
                Ok(o) if o.status.success() => acc.case(true, "probe-compiles"),
                Ok(o) => {
                    let err = String::from_utf8_lossy(&o.stderr).into_owned();
                    // the probes whose bound failed are quoted by rustc
                    let mut failing: Vec<String> = vec![];
                    for line in err.lines() {
                        if let Some(p) = line.find("assert::<")
                            && let Some(q) = line[p..].find(">()")
                        {
                            let t = line[p + 9..p + q].to_string();
                            if !failing.contains(&t) {
                                failing.push(t);
                            }
                        }
                    }
                    let is_bound = err.contains("cannot be sent between threads safely") || err.contains("cannot be shared between threads safely");
                    if !is_bound {
                        // something else broke the probe (an API rename, the subject not compiling): machinery
                        acc.count("probe_machinery_failures", 1);
                        acc.case(false, "probe-build-error");
                        acc.sample(|| json!({"ssprobe_build_error": err.lines().filter(|l| l.starts_with("error")).take(5).collect::<Vec<_>>()}));
                        return;
                    }
                    let first: Vec<&str> = err.lines().filter(|l| l.starts_with("error") || l.contains("cannot be s") || l.contains("within `")).take(8).collect();
                    acc.violation(
                        format!("not-send-sync:{}", if failing.is_empty() { "?".to_string() } else { failing.join("+") }),
                        format!("the Send + Sync probe no longer compiles: {}", first.join(" | ")),
                        || json!({"probe": "/verif/mc/ssprobe/src/main.rs", "failing_probes": failing, "cmd": "cargo build --release --offline --bin ssprobe (in /verif/mc)"}),
                    );
                    acc.case(true, "probe-rejected");
                }
            }
        },
    );

    if run.is_supervisor() {
        // instruction-kind coverage of the corpus (what the VM actually executes: optimised listings)
        let mut seen: BTreeSet<String> = BTreeSet::new();
        for (n, s) in &w.sources {
            if let Ok(ls) = tera::verif::listings(n, s, tera::Delimiters::default()) {
                for l in ls {
                    for i in l.after.iter().chain(l.before.iter()) {
                        let name: String = i.text.chars().take_while(|c| c.is_ascii_alphanumeric()).collect();
                        seen.insert(name);
                    }
                }
            }
        }
        let missing: Vec<&&str> = INSTRUCTION_KINDS.iter().filter(|k| !seen.contains(**k)).collect();
        run.extra("instruction_kinds_in_corpus", json!(seen));
        run.guard("corpus-covers-every-instruction-kind", missing.is_empty(), format!("{} of {} kinds; missing: {missing:?}", seen.len(), INSTRUCTION_KINDS.len()));
        run.guard(
            "corpus-loads",
            w.load_errors.is_empty(),
            format!("rejected at load: {:?}", w.load_errors),
        );

        let ok = run.outcome("api-pairs", "ok");
        let err = run.outcome("api-pairs", "err");
        let multi = run.outcome("api-pairs", "multi-call");
        run.guard("api-pairs-both-outcomes", ok > 100 && err > 10 && multi > 50, format!("ok={ok} err={err} calls with several write calls={multi}"));

        let fault_points = run.counter("fault_points");
        let io = run.outcome("writer-faults", "io-error");
        let absorbed = run.outcome("writer-faults", "absorbed-ok");
        run.guard("faults-both-outcomes", io > 1000 && absorbed > 1000, format!("io-error={io} absorbed-ok={absorbed} fault_points={fault_points}"));
        let fired: Vec<(String, u64)> = ["fail-at-call", "fail-at-call-once", "byte-budget", "zero-at-call", "zero-at-byte", "interrupted-at-call", "interrupted-at-byte"]
            .iter()
            .map(|f| (f.to_string(), run.counter(&format!("fired:{f}"))))
            .collect();
        run.guard("every-fault-family-fired", fired.iter().all(|(_, n)| *n > 100), format!("{fired:?}"));
        run.extra("fault_points", json!(fault_points));
        run.extra("io_error_kind", json!({"preserved": run.counter("io-kind-preserved"), "changed": run.counter("io-kind-changed")}));

        let pure_nt = run.evaluations("purity");
        run.guard("purity-ran", pure_nt >= ncalls * ncalls * nctx, format!("{pure_nt} sequences"));

        // scheduler part
        let schedules = run.counter("schedules");
        let steps = run.counter("yield_points_taken");
        let orders = run.counter("interleaving_orders");
        let timeouts = run.counter("sched_timeouts");
        let mach = run.counter("sched_machinery_failures");
        let single = run.counter("single_order_harnesses");
        let incomplete = run.counter("incomplete_order_sets");
        let selftest = run.outcome("threads-dfs", "selftest-ok");
        let mism = run.outcome("threads-dfs", "mismatch");
        run.guard("sched-selftest", selftest == 1, "2 threads x 3 yields -> 20 orders under check_dfs; pruned DFS = unpruned DFS on orders; encoded schedules replay".into());
        run.guard("sched-no-hang-or-crash", timeouts == 0 && mach == 0, format!("timeouts={timeouts} machinery failures={mach} (a hang of sched is a machinery failure, not a verdict)"));
        run.guard("sched-more-than-one-order", single == 0 && (schedules > nh || mism > 0), format!("schedules={schedules} distinct interleaving orders (summed over harnesses)={orders}, harnesses with a single order={single}"));
        run.guard("sched-every-order-observed", incomplete == 0, format!("{incomplete} harness(es) where the number of distinct yield orders differs from the multinomial of the yields taken"));
        run.extra("states", json!(schedules));
        run.extra("transitions", json!(steps));
        run.extra("traces_validated_against_impl", json!(schedules));
        run.extra("interleaving_orders", json!(orders));
        run.extra("harnesses_covering_whole_render", json!(run.counter("harnesses_covering_whole_render")));
        run.extra(
            "harnesses",
            json!(selected
                .iter()
                .map(|h| {
                    let name = h["name"].as_str().unwrap_or("");
                    json!({"name": name, "resource": h["resource"], "schedules": run.counter(&format!("h|{name}|schedules")), "orders": run.counter(&format!("h|{name}|orders"))})
                })
                .collect::<Vec<_>>()),
        );
        let probe = run.outcome("send-sync", "probe-compiles") + run.outcome("send-sync", "probe-rejected");
        run.guard("send-sync-probe-ran", probe == 1 && run.counter("probe_machinery_failures") == 0, format!("probe builds judged: {probe}"));
        println!(
            "C18 threads: {} harnesses, {schedules} schedules explored, {orders} distinct interleaving orders (sum), {steps} yield points taken; writer fault points: {fault_points}",
            nh
        );
    }
    run.finish();
}
