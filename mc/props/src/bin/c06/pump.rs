//! Pumped productions: every recursive or iterative production of the grammar, repeated N times.
//!
//! A production is data: `pre + open×N + mid + close×N + post` (`{i}` in `open` is replaced by the
//! repetition index), written with the default delimiters.
#![allow(dead_code)]

#[derive(Clone, Copy, Debug, PartialEq, Eq)]
pub enum Class {
    /// Recursion in the parser: the engine promises a limit and a syntax error beyond it.
    Nested,
    /// Built in a loop by the parser (left-associative / postfix / `elif`): the AST gets N deep
    /// although the parser's recursion counter never moves. No limit is documented.
    Chain,
    /// Flat repetition (N siblings).
    Width,
    /// One lexeme of N bytes/characters.
    Length,
}

impl Class {
    pub fn tag(self) -> &'static str {
        match self {
            Class::Nested => "nested",
            Class::Chain => "chain",
            Class::Width => "width",
            Class::Length => "length",
        }
    }
}

#[derive(Clone, Copy, Debug)]
pub struct Prod {
    pub name: &'static str,
    pub class: Class,
    pub pre: &'static str,
    pub open: &'static str,
    pub mid: &'static str,
    pub close: &'static str,
    pub post: &'static str,
    /// Every N <= min_ok must register (sanity of the generator; a vacuity guard, not an oracle).
    pub min_ok: usize,
    /// N > limit must be refused with a syntax error (the engine's nesting limits:
    /// MAX_RECURSION_DEPTH = 40, MAX_DIMENSION_ARRAY = 2, MAX_NUM_LEFT_BRACKETS = 4, no two
    /// consecutive unary operators). None: no claim.
    pub limit: Option<usize>,
    /// The engine's cost is quadratic in N for this production (measured): it is pumped to 10^3
    /// (quick) / 10^4 (thorough) only; the measured times are in the evidence counters.
    pub quadratic: bool,
}

impl Prod {
    pub fn source(&self, n: usize) -> String {
        let numbered = self.open.contains("{i}");
        let mut s = String::with_capacity(self.pre.len() + self.mid.len() + self.post.len() + n * (self.open.len() + self.close.len() + 6));
        s.push_str(self.pre);
        for i in 0..n {
            if numbered {
                s.push_str(&self.open.replace("{i}", &i.to_string()));
            } else {
                s.push_str(self.open);
            }
        }
        s.push_str(self.mid);
        for _ in 0..n {
            s.push_str(self.close);
        }
        s.push_str(self.post);
        s
    }

    pub fn recipe(&self) -> String {
        let mut parts = vec![];
        if !self.pre.is_empty() {
            parts.push(format!("{:?}", self.pre));
        }
        if !self.open.is_empty() {
            parts.push(format!("N x {:?}{}", self.open, if self.open.contains("{i}") { " ({i} = 0..N-1)" } else { "" }));
        }
        if !self.mid.is_empty() {
            parts.push(format!("{:?}", self.mid));
        }
        if !self.close.is_empty() {
            parts.push(format!("N x {:?}", self.close));
        }
        if !self.post.is_empty() {
            parts.push(format!("{:?}", self.post));
        }
        parts.join(" + ")
    }
}

pub const NS: [usize; 9] = [1, 2, 39, 40, 41, 42, 1_000, 10_000, 100_000];

const fn p(
    name: &'static str,
    class: Class,
    pre: &'static str,
    open: &'static str,
    mid: &'static str,
    close: &'static str,
    post: &'static str,
    min_ok: usize,
    limit: Option<usize>,
) -> Prod {
    Prod { name, class, pre, open, mid, close, post, min_ok, limit, quadratic: false }
}

const CDEF0: &str = "{% component C() %}{{ body }}{% endcomponent %}";
const CDEF1_OPEN: &str = "{% component C(a) %}{{ a }}{% endcomponent %}{{ ";
const CDEFR_OPEN: &str = "{% component C(...r) %}x{% endcomponent %}{{ <C ";

pub fn productions() -> Vec<Prod> {
    use Class::*;
    let d = Some(40); // MAX_RECURSION_DEPTH
    let v = vec![
        // ------------------------------------------------------------------ nested (recursive)
        p("paren", Nested, "{{ ", "(", "1", ")", " }}", 2, d),
        p("array", Nested, "{{ ", "[", "1", "]", " }}", 2, Some(2)),
        p("map", Nested, "{{ ", "{\"k\": ", "1", "} ", "}}", 2, d),
        p("subscript-nest", Nested, "{{ ", "a[", "0", "]", " }}", 2, Some(4)),
        p("ternary-else", Nested, "{{ ", "1 if a else ", "0", "", " }}", 2, d),
        p("ternary-cond", Nested, "{{ ", "1 if ", "a", " else 0", " }}", 2, d),
        p("not-bare", Nested, "{{ ", "not ", "a", "", " }}", 1, Some(1)),
        p("neg-bare", Nested, "{{ ", "- ", "1", "", " }}", 1, Some(1)),
        p("not-paren", Nested, "{{ ", "not (", "a", ")", " }}", 2, d),
        p("neg-paren", Nested, "{{ ", "-(", "1", ")", " }}", 2, d),
        p("pow", Nested, "{{ ", "1 ** ", "1", "", " }}", 2, d),
        p("pow-neg", Nested, "{{ ", "1 ** -", "1", "", " }}", 2, d),
        p("if", Nested, "", "{% if a %}", "x", "{% endif %}", "", 2, d),
        p("if-else", Nested, "", "{% if a %}x{% else %}", "y", "{% endif %}", "", 2, d),
        p("for", Nested, "", "{% for x in a %}", "x", "{% endfor %}", "", 2, d),
        p("for-else", Nested, "", "{% for x in a %}x{% else %}", "y", "{% endfor %}", "", 2, d),
        p("if-for", Nested, "", "{% if a %}{% for x in a %}", "x", "{% endfor %}{% endif %}", "", 2, d),
        p("block", Nested, "", "{% block b{i} %}", "x", "{% endblock %}", "", 2, d),
        p("filter-section", Nested, "", "{% filter upper %}", "x", "{% endfilter %}", "", 2, d),
        p("set-block", Nested, "", "{% set x %}", "x", "{% endset %}", "", 2, d),
        p("component-call-body", Nested, CDEF0, "{% <C> %}", "x", "{% </C> %}", "", 2, d),
        p("component-call-attr", Nested, CDEF1_OPEN, "<C a={", "1", "} />", " }}", 2, d),
        p("fn-kwargs", Nested, "{{ ", "range(end=", "1", ")", " }}", 2, d),
        p("filter-kwargs", Nested, "{{ ", "a | default(value=", "1", ")", " }}", 2, d),
        p("test-kwargs", Nested, "{{ ", "a is divisible_by(divisor=", "1", ")", " }}", 2, d),
        p("listcomp-target", Nested, "{{ ", "[x for x in ", "a", "]", " }}", 2, d),
        p("listcomp-expr", Nested, "{{ ", "[", "x", " for x in a]", " }}", 2, Some(2)),
        p("map-in-array", Nested, "{{ ", "[{\"k\": ", "1", "}]", " }}", 2, Some(2)),
        p("spread", Nested, "{{ ", "{...", "a", "} ", "}}", 2, d),
        // ------------------------------------------------------------------ chains (iterative, deep AST)
        p("elif", Chain, "{% if a %}x", "{% elif a %}x", "", "", "{% endif %}", 2, None),
        p("add", Chain, "{{ 1", " + 1", "", "", " }}", 2, None),
        p("sub", Chain, "{{ 1", " - 1", "", "", " }}", 2, None),
        p("mul", Chain, "{{ 1", " * 1", "", "", " }}", 2, None),
        p("div", Chain, "{{ 1", " / 1", "", "", " }}", 2, None),
        p("floordiv", Chain, "{{ 1", " // 1", "", "", " }}", 2, None),
        p("mod", Chain, "{{ 1", " % 1", "", "", " }}", 2, None),
        p("concat", Chain, "{{ 1", " ~ 1", "", "", " }}", 2, None),
        p("and", Chain, "{{ 1", " and 1", "", "", " }}", 2, None),
        p("or", Chain, "{{ 0", " or 0", "", "", " }}", 2, None),
        p("eq", Chain, "{{ 1", " == 1", "", "", " }}", 2, None),
        p("ne", Chain, "{{ 1", " != 1", "", "", " }}", 2, None),
        p("lt", Chain, "{{ 1", " < 1", "", "", " }}", 2, None),
        p("lte", Chain, "{{ 1", " <= 1", "", "", " }}", 2, None),
        p("gt", Chain, "{{ 1", " > 1", "", "", " }}", 2, None),
        p("gte", Chain, "{{ 1", " >= 1", "", "", " }}", 2, None),
        p("in", Chain, "{{ 1", " in [1]", "", "", " }}", 2, None),
        p("not-in", Chain, "{{ 1", " not in [1]", "", "", " }}", 2, None),
        p("filter", Chain, "{{ \"a\"", " | upper", "", "", " }}", 2, None),
        p("filter-args", Chain, "{{ a", " | default(value=1)", "", "", " }}", 2, None),
        p("test", Chain, "{{ 1", " is defined", "", "", " }}", 2, None),
        p("test-not", Chain, "{{ 1", " is not defined", "", "", " }}", 2, None),
        p("attr", Chain, "{{ a", ".a", "", "", " }}", 2, None),
        p("attr-opt", Chain, "{{ a", "?.a", "", "", " }}", 2, None),
        p("index", Chain, "{{ a", "[0]", "", "", " }}", 2, None),
        p("index-opt", Chain, "{{ a", "?[0]", "", "", " }}", 2, None),
        p("slice", Chain, "{{ a", "[:]", "", "", " }}", 2, None),
        p("literal-index", Chain, "{{ \"a\"", "[0]", "", "", " }}", 2, None),
        // ------------------------------------------------------------------ width (flat siblings)
        p("array-width-const", Width, "{{ [", "1, ", "", "", "] }}", 2, None),
        p("array-width-expr", Width, "{{ [", "a, ", "", "", "] }}", 2, None),
        p("array-width-spread", Width, "{{ [", "...a, ", "", "", "] }}", 2, None),
        p("map-width", Width, "{{ {", "\"k{i}\": 1, ", "", "", "} }}", 2, None),
        p("map-width-samekey", Width, "{{ {", "\"k\": a, ", "", "", "} }}", 2, None),
        p("kwargs-width", Width, "{{ range(", "a{i}=1, ", "", "", ") }}", 2, None),
        p("component-attr-width", Width, CDEFR_OPEN, "a{i}={1} ", "", "", "/> }}", 2, None),
        p("component-param-width", Width, "{% component C(", "a{i}=1, ", "", "", ") %}x{% endcomponent %}", 2, None),
        p("component-dotted-name", Width, "{% component C", ".c", "", "", "() %}x{% endcomponent %}", 2, None),
        p("expr-tags", Width, "", "{{ 1 }}", "", "", "", 2, None),
        p("if-tags", Width, "", "{% if a %}x{% endif %}", "", "", "", 2, None),
        p("set-tags", Width, "", "{% set x = 1 %}", "", "", "", 2, None),
        p("block-tags", Width, "", "{% block b{i} %}x{% endblock %}", "", "", "", 2, None),
        p("component-defs", Width, "", "{% component C{i}() %}x{% endcomponent %}", "", "", "", 2, None),
        p("set-filters", Width, "{% set x", " | upper", "", "", " %}b{% endset %}", 2, None),
        p("comments", Width, "", "{# c #}", "", "", "", 2, None),
        p("comments-ws", Width, "", " {#- c -#} ", "", "", "", 2, None),
        p("raw-blocks", Width, "", "{% raw %}{{ x }}{% endraw %}", "", "", "", 2, None),
        p("raw-false-ends", Width, "{% raw %}", "{% x %}", "", "", "{% endraw %}", 2, None),
        p("raw-unterminated", Width, "{% raw %}", "{% ", "", "", "", 0, None),
        p("comment-unterminated", Width, "{# ", "# ", "", "", "", 0, None),
        p("ws-control-tags", Width, "", " {{- 1 -}} ", "", "", "", 2, None),
        p("text-lines", Width, "", "x\n", "", "", "", 2, None),
        p("lone-braces", Width, "", "{ } % # ", "", "", "", 2, None),
        p("tag-whitespace", Width, "{{", " ", "1", "", " }}", 2, None),
        p("tag-newlines", Width, "{{", "\n", "1", "", " }}", 2, None),
        Prod { quadratic: true, ..p("unknown-filter-lines", Width, "", "{{ a | nope }}\n", "", "", "", 0, None) },
        // ------------------------------------------------------------------ length (one long lexeme)
        p("int-digits", Length, "{{ ", "1", "", "", " }}", 2, None),
        p("float-digits", Length, "{{ 1.", "1", "", "", " }}", 2, None),
        p("float-int-digits", Length, "{{ ", "9", ".5", "", " }}", 2, None),
        p("ident", Length, "{{ ", "a", "", "", " }}", 2, None),
        p("string", Length, "{{ \"", "x", "", "", "\" }}", 2, None),
        p("string-escapes", Length, "{{ \"", "\\n", "", "", "\" }}", 2, None),
        p("string-multibyte", Length, "{{ '", "é", "", "", "' }}", 2, None),
        p("string-unterminated", Length, "{{ \"", "x", "", "", "", 0, None),
        p("text", Length, "", "x", "", "", "", 2, None),
        p("text-multibyte", Length, "", "日", "", "", "", 2, None),
        p("comment-body", Length, "{# ", "x", "", "", " #}", 2, None),
        p("raw-body", Length, "{% raw %}", "{{", "", "", "{% endraw %}", 2, None),
        p("include-name", Length, "{% include \"", "x", "", "", "\" %}", 0, None),
        p("extends-name", Length, "{% extends \"", "x", "", "", "\" %}", 0, None),
    ];
    v
}
