//! C06 — registering any source text ends in Ok or Err: no panic, hang, abort or stack overflow;
//! nesting beyond the engine's limits is a syntax error.
//!
//! Every input goes through `Tera::add_raw_templates` (fresh, empty registry) AND `Tera::render_str`
//! (empty context), under ten delimiter sets (`dsets.rs`). Families:
//!   chars       every string of length <= L over the 28 (33 under D2) character alphabet
//!   tokens      every sequence of <= L tokens over the ~90 token alphabet, joined with "" and " "
//!   intag       `{{ w }}` and `{% w %}` for every in-tag token sequence w of length <= L
//!   intag2      `{% w1 %}{% w2 %}` for every |w1| <= 2, |w2| <= 1 (quick) / 2 (thorough)
//!   seeds-1dev  every snapshot input of the repository + hand-written valid programs, with one
//!               token deleted / duplicated / replaced by each of 12 tokens, and every prefix
//!   seeds-2dev  (thorough) two such deviations on the seeds of <= 24 tokens
//!   pump-*      every recursive / iterative production repeated N in {1,2,39,40,41,42,1e3,1e4,1e5}
//!               times, on an 8 MiB and on a 2 MiB stack
//!   names       odd template names x sources that make the engine print / resolve the name
//! Oracle: totality (Ok or Err; panics caught here, aborts / overflows / hangs by the kernel's
//! worker isolation; the error value can be displayed) + nesting beyond the limit is a SyntaxError.

mod dsets;
mod pump;
mod seeds;
#[path = "../c11/graph.rs"]
#[allow(dead_code)]
mod graph;

use dsets::DSet;
use mccore::engine::{guarded, kind_tag};
use mccore::{Acc, Family, Run, json};
use seeds::{Op, Seed, Tok};
use serde_json::Value as Json;
use std::time::Instant;
use tera::{Context, Tera};

// ------------------------------------------------------------------------------------------------
// running one input
// ------------------------------------------------------------------------------------------------

/// `panic:<entry>@<file>:<line>` from a message that ends in ` at <path>:<line>`.
fn panic_sig(entry: &str, msg: &str) -> String {
    let loc = msg.rsplit_once(" at ").map(|x| x.1).unwrap_or("?");
    let loc = loc.rsplit('/').next().unwrap_or(loc);
    format!("panic:{entry}@{loc}")
}

const KINDS: [&str; 11] = [
    "ok",
    "SyntaxError",
    "Msg",
    "RenderingError",
    "CircularExtend",
    "CircularInclude",
    "MissingParent",
    "TemplateNotFound",
    "Utf8Conversion",
    "other-err",
    "PANIC",
];

fn kind_index(tag: &str) -> usize {
    KINDS.iter().position(|k| *k == tag).unwrap_or(9)
}

struct Runner<'a> {
    base: &'a Tera,
    inst: Tera,
    ctx: Context,
    fam: &'a str,
    /// Number of names in `inst` after the last successful registration.
    registered: usize,
}

/// "add:<kind>/render_str:<kind>" for every pair of outcome kinds.
static PAIR_NAMES: std::sync::LazyLock<Vec<String>> = std::sync::LazyLock::new(|| {
    let mut v = vec![];
    for a in KINDS {
        for r in KINDS {
            v.push(format!("add:{a}/render_str:{r}"));
        }
    }
    v
});

impl<'a> Runner<'a> {
    fn new(base: &'a Tera, fam: &'a str) -> Self {
        Runner { base, inst: base.clone(), ctx: Context::new(), fam, registered: 0 }
    }

    /// The error value must be printable (`Display` builds the source excerpt).
    fn check_display(&self, e: &tera::Error, entry: &str, acc: &mut Acc, case: &dyn Fn() -> Json) {
        if let Err(p) = guarded(|| e.to_string()) {
            acc.violation(
                panic_sig(&format!("error-display:{entry}"), &p),
                format!("{entry} returned an error value whose Display panics: {p}"),
                || case(),
            );
        }
    }

    /// `add_raw_templates`. Returns the kind index.
    ///
    /// One Runner always registers the same template names, so whatever an earlier input left in
    /// the registry is an older version of exactly these names: the batch overwrites every one of
    /// them before the engine reads any (insert happens per template, finalisation after the last),
    /// hence every input is evaluated against a registry that holds only itself — without paying
    /// for a fresh engine per input. A failed call must leave the number of names unchanged.
    fn add(&mut self, tpls: &[(&str, &str)], acc: &mut Acc, case: &dyn Fn() -> Json) -> usize {
        let inst = &mut self.inst;
        let r = guarded(|| inst.add_raw_templates(tpls.iter().copied()));
        match r {
            Ok(Ok(())) => {
                self.registered = self.inst.get_template_names().count();
                0
            }
            Ok(Err(e)) => {
                let k = kind_index(kind_tag(e.kind()));
                self.check_display(&e, "add_raw_templates", acc, case);
                // (atomicity itself is C10's subject; here it only keeps the inputs independent)
                if self.inst.get_template_names().count() != self.registered {
                    acc.count("registry-changed-by-failed-add", 1);
                    self.inst = self.base.clone();
                    self.registered = 0;
                }
                k
            }
            Err(p) => {
                acc.violation(
                    panic_sig("add_raw_templates", &p),
                    format!("add_raw_templates panicked ({}): {p}", self.fam),
                    || case(),
                );
                self.inst = self.base.clone();
                self.registered = 0;
                10
            }
        }
    }

    fn render_str(&self, src: &str, autoescape: bool, acc: &mut Acc, case: &dyn Fn() -> Json) -> usize {
        let r = guarded(|| self.base.render_str(src, &self.ctx, autoescape));
        match r {
            Ok(Ok(_text)) => 0, // a String: valid UTF-8 by construction (render_str converts with from_utf8)
            Ok(Err(e)) => {
                let k = kind_index(kind_tag(e.kind()));
                if k == 8 {
                    acc.violation(
                        "invalid-utf8-output:render_str",
                        "render_str of a valid UTF-8 source with an empty context produced bytes that are not UTF-8",
                        || case(),
                    );
                }
                self.check_display(&e, "render_str", acc, case);
                k
            }
            Err(p) => {
                acc.violation(
                    panic_sig("render_str", &p),
                    format!("render_str panicked ({}): {p}", self.fam),
                    || case(),
                );
                10
            }
        }
    }

    /// One Σ* input: both entry points, one recorded case.
    fn input(&mut self, d: &DSet, name: &str, src: &str, acc: &mut Acc) -> (usize, usize) {
        let case = || json!({"delimiters": d.show(), "template_name": name, "source": src, "context": "empty"});
        let a = self.add(&[(name, src)], acc, &case);
        let r = self.render_str(src, true, acc, &case);
        let nontrivial = d.has_start_marker(src);
        if nontrivial && r != 1 && r != 10 {
            // it has tags and it parsed: the other escaping mode runs other VM code
            self.render_str(src, false, acc, &case);
        }
        acc.case(nontrivial, &PAIR_NAMES[a * KINDS.len() + r]);
        (a, r)
    }
}

// ------------------------------------------------------------------------------------------------
// item layout helpers
// ------------------------------------------------------------------------------------------------

/// A family whose items are the concatenation of per-delimiter-set ranges.
#[derive(Clone, Debug)]
struct Part {
    d: usize,
    start: u64,
    items: u64,
    depth: u32,
}

fn layout(depths: &[(usize, u32)], items_of: impl Fn(usize, u32) -> u64) -> (Vec<Part>, u64) {
    let mut parts = vec![];
    let mut start = 0;
    for &(d, depth) in depths {
        if depth == 0 {
            continue;
        }
        let items = items_of(d, depth);
        parts.push(Part { d, start, items, depth });
        start += items;
    }
    (parts, start)
}

fn locate(parts: &[Part], item: u64) -> (&Part, u64) {
    for p in parts {
        if item < p.start + p.items {
            return (p, item - p.start);
        }
    }
    panic!("item {item} outside the family");
}

fn depth_words(parts: &[Part], ds: &[DSet]) -> String {
    parts.iter().map(|p| format!("{}<={}", ds[p.d].id, p.depth)).collect::<Vec<_>>().join(" ")
}

fn join_syms(alpha: &[String], idx: &[usize], sep: &str) -> String {
    let mut s = String::new();
    for (k, i) in idx.iter().enumerate() {
        if k > 0 {
            s.push_str(sep);
        }
        s.push_str(&alpha[*i]);
    }
    s
}

fn preview(s: &str) -> String {
    if s.len() <= 400 {
        s.to_string()
    } else {
        let mut cut = 200;
        while !s.is_char_boundary(cut) {
            cut -= 1;
        }
        let mut tail = s.len() - 100;
        while !s.is_char_boundary(tail) {
            tail += 1;
        }
        format!("{} ...[{} bytes]... {}", &s[..cut], s.len(), &s[tail..])
    }
}

// ------------------------------------------------------------------------------------------------
// pumping
// ------------------------------------------------------------------------------------------------

#[derive(Clone, Copy, Debug, PartialEq, Eq)]
enum Entry {
    Add,
    RenderStr,
}

#[derive(Clone, Copy, Debug)]
struct PumpItem {
    prod: usize,
    n: usize,
    entry: Entry,
    d: usize,
}

fn n_class(n: usize) -> String {
    format!("N={n}")
}

/// `stack-overflow:chain:elif:N=10000` — chains below 1000 repetitions get their own class name so
/// that a known-finding prefix for long chains can never hide a short one.
fn pump_crash_signature(kind: &str, p: &pump::Prod, n: usize) -> String {
    let what = if kind == "crash" { "stack-overflow" } else { kind };
    let class = if p.class == pump::Class::Chain && n < 1000 { "chain-short" } else { p.class.tag() };
    format!("{what}:{class}:{}:{}", p.name, n_class(n))
}

fn main() {
    let mut run = Run::from_env("C06", "exploration");
    let thorough = run.tier.is_thorough();
    run.rule(
        "One case = one (delimiter set, template name, source) run through add_raw_templates on an empty registry and \
         through render_str with an empty context (both autoescape modes when it has tags and parses). Cases are distinct by \
         construction as (delimiter set, join, symbol sequence) / (seed, deviation) / (production, N, entry point, stack); \
         a few token sequences concatenate to the same text. Non-trivial = the source contains a start delimiter of \
         the set in force, i.e. the lexer leaves the plain-text state (pump / names families: every case).",
    );
    run.assume("the universal claim is replaced by: all strings/token sequences up to the stated lengths over the stated alphabets, all seeds within the stated number of deviations, all listed productions at the listed repetition counts, under the ten listed delimiter sets");
    run.assume("'no hang' is a wall-clock judgement: an item (<= 95 short inputs, or one pumped input) must finish within the family time-out; pumped inputs slower than 5 s are counted and reported, not flagged");
    run.assume("a worker process that dies on a pumped input is classified as a stack overflow (Rust's guard-page handler aborts the process); a supervisor probe confirms the classification on one canonical input");
    run.assume("inputs of one work item are registered on one engine instance under the same template name(s): each call overwrites all of them before anything is read, and a failed call restores them (the name count is checked after every failure; atomicity itself is C10's subject and is only counted here)");
    run.assume("default cargo features of tera; harness build profile opt-level 2 with overflow checks and debug assertions: stack-overflow thresholds are those of this profile");

    let ds = dsets::all();
    let bases: Vec<Tera> = ds
        .iter()
        .map(|d| d.tera().unwrap_or_else(|e| panic!("set_delimiters refused {}: {e}", d.id)))
        .collect();
    let nd = ds.len();
    run.extra("delimiter_sets", json!(ds.iter().map(|d| d.show()).collect::<Vec<_>>()));

    // ---------------------------------------------------------------- depth plan
    // (delimiter set index, depth); 0 = not run. Chosen so that quick stays < 30 s and thorough < 10 min.
    let all_at = |l: u32| -> Vec<(usize, u32)> { (0..nd).map(|d| (d, l)).collect() };
    let idx_of = |id: &str| ds.iter().position(|d| d.id == id).unwrap();
    let chars_plan: Vec<(usize, u32)> = if thorough { all_at(5) } else { all_at(4) };
    let tokens_plan: Vec<(usize, u32)> = if thorough {
        (0..nd).map(|d| (d, if ["D0", "D1", "D2"].contains(&ds[d].id) { 4 } else { 3 })).collect()
    } else {
        (0..nd).map(|d| (d, if ["D0", "D1", "D2", "D3eq"].contains(&ds[d].id) { 3 } else { 2 })).collect()
    };
    let intag_plan: Vec<(usize, u32)> = if thorough {
        all_at(4)
    } else {
        (0..nd).map(|d| (d, if ["D0", "D1", "D2", "D3dash"].contains(&ds[d].id) { 3 } else { 2 })).collect()
    };
    // two-tag form: (delimiter set, |w2| bound); |w1| <= 2 always
    let intag2_plan: Vec<(usize, u32)> = if thorough { vec![(idx_of("D0"), 2), (idx_of("D2"), 1), (idx_of("D3eq"), 1)] } else { vec![(idx_of("D0"), 1)] };

    // ---------------------------------------------------------------- chars
    let char_alpha: Vec<Vec<String>> = ds.iter().map(dsets::char_alphabet).collect();
    run.extra("char_alphabet", json!(char_alpha[0]));
    run.extra("char_alphabet_D2_extra", json!(char_alpha[idx_of("D2")][28..]));
    {
        let (parts, total) = layout(&chars_plan, |d, l| dsets::count_upto(char_alpha[d].len() as u64, l - 1));
        let fam = Family::new(
            "chars",
            total,
            &format!(
                "every string of length <= L over the character alphabet (28 characters; 33 under D2), L per delimiter set: {}; one item = one prefix extended by every character",
                depth_words(&parts, &ds)
            ),
        )
        .timeout(30.0)
        .describe(|item| {
            let (p, local) = locate(&parts, item);
            let a = &char_alpha[p.d];
            let prefix = join_syms(a, &dsets::decode_seq(local, a.len() as u64, p.depth - 1), "");
            json!({"family": "chars", "delimiters": ds[p.d].show(), "template_name": dsets::TPL_NAME,
                   "inputs": "the prefix followed by each character of the alphabet (and the prefix itself when empty)",
                   "prefix": prefix, "alphabet": a})
        });
        run.family(fam, |item, acc| {
            let (p, local) = locate(&parts, item);
            let (d, a) = (&ds[p.d], &char_alpha[p.d]);
            let mut r = Runner::new(&bases[p.d], "chars");
            let prefix = join_syms(a, &dsets::decode_seq(local, a.len() as u64, p.depth - 1), "");
            if prefix.is_empty() {
                r.input(d, dsets::TPL_NAME, "", acc);
            }
            let mut s = String::with_capacity(prefix.len() + 4);
            for c in a {
                s.clear();
                s.push_str(&prefix);
                s.push_str(c);
                r.input(d, dsets::TPL_NAME, &s, acc);
            }
            if local == 1000 {
                acc.sample(|| json!({"delimiters": d.id, "source": s}));
            }
        });
    }

    // ---------------------------------------------------------------- tokens
    let tok_alpha: Vec<Vec<String>> = ds.iter().map(dsets::token_alphabet).collect();
    let nt = tok_alpha[0].len() as u64;
    run.extra("token_alphabet", json!(tok_alpha[0]));
    {
        // per delimiter set: join "" prefixes then join " " prefixes
        let (parts, total) = layout(&tokens_plan, |_, l| 2 * dsets::count_upto(nt, l - 1));
        let fam = Family::new(
            "tokens",
            total,
            &format!(
                "every sequence of <= L tokens over the {nt}-token alphabet (12 delimiter spellings of the set in force, 30 keywords, 30 operators, 8 literals, 4 identifiers, 8 text pieces), joined with \"\" and with \" \", L per delimiter set: {}",
                depth_words(&parts, &ds)
            ),
        )
        .timeout(30.0)
        .describe(|item| {
            let (p, local) = locate(&parts, item);
            let half = p.items / 2;
            let (sep, li) = if local < half { ("", local) } else { (" ", local - half) };
            let a = &tok_alpha[p.d];
            let prefix = join_syms(a, &dsets::decode_seq(li, nt, p.depth - 1), sep);
            json!({"family": "tokens", "delimiters": ds[p.d].show(), "template_name": dsets::TPL_NAME, "join": sep,
                   "inputs": "the prefix, the join string, then each token of the alphabet", "prefix": prefix, "alphabet": a})
        });
        run.family(fam, |item, acc| {
            let (p, local) = locate(&parts, item);
            let half = p.items / 2;
            let (sep, li) = if local < half { ("", local) } else { (" ", local - half) };
            let (d, a) = (&ds[p.d], &tok_alpha[p.d]);
            let seq = dsets::decode_seq(li, nt, p.depth - 1);
            if sep == " " && seq.is_empty() {
                return; // sequences of length <= 1 are the same under both joins
            }
            let mut r = Runner::new(&bases[p.d], "tokens");
            let prefix = join_syms(a, &seq, sep);
            if seq.is_empty() {
                r.input(d, dsets::TPL_NAME, "", acc);
            }
            let mut s = String::with_capacity(prefix.len() + 24);
            for t in a {
                s.clear();
                s.push_str(&prefix);
                if !seq.is_empty() {
                    s.push_str(sep);
                }
                s.push_str(t);
                r.input(d, dsets::TPL_NAME, &s, acc);
            }
            if li == 5000 {
                acc.sample(|| json!({"delimiters": d.id, "join": sep, "source": s}));
            }
        });
    }

    // ---------------------------------------------------------------- intag
    let intag = dsets::intag_tokens();
    let ni = intag.len() as u64;
    run.extra("intag_alphabet", json!(intag));
    {
        let (parts, total) = layout(&intag_plan, |_, l| 2 * dsets::count_upto(ni, l - 1));
        let wrap = |d: &DSet, which: usize, w: &str| -> String {
            if which == 0 { format!("{} {} {}", d.vs, w, d.ve) } else { format!("{} {} {}", d.bs, w, d.be) }
        };
        let fam = Family::new(
            "intag",
            total,
            &format!(
                "`VS w VE` and `BS w BE` for every sequence w of <= L in-tag tokens ({ni} tokens) joined with one space, L per delimiter set: {}",
                depth_words(&parts, &ds)
            ),
        )
        .timeout(30.0)
        .describe(|item| {
            let (p, local) = locate(&parts, item);
            let half = p.items / 2;
            let (which, li) = if local < half { (0, local) } else { (1, local - half) };
            let prefix = join_syms(&intag, &dsets::decode_seq(li, ni, p.depth - 1), " ");
            json!({"family": "intag", "delimiters": ds[p.d].show(), "template_name": dsets::TPL_NAME,
                   "inputs": "the wrapper around: prefix, one space, each in-tag token",
                   "wrapper": wrap(&ds[p.d], which, "<w>"), "prefix": prefix, "alphabet": intag})
        });
        run.family(fam, |item, acc| {
            let (p, local) = locate(&parts, item);
            let half = p.items / 2;
            let (which, li) = if local < half { (0, local) } else { (1, local - half) };
            let d = &ds[p.d];
            let seq = dsets::decode_seq(li, ni, p.depth - 1);
            let mut r = Runner::new(&bases[p.d], "intag");
            let prefix = join_syms(&intag, &seq, " ");
            if seq.is_empty() {
                r.input(d, dsets::TPL_NAME, &wrap(d, which, ""), acc);
            }
            let mut w = String::new();
            let mut last = String::new();
            for t in &intag {
                w.clear();
                w.push_str(&prefix);
                if !seq.is_empty() {
                    w.push(' ');
                }
                w.push_str(t);
                last = wrap(d, which, &w);
                r.input(d, dsets::TPL_NAME, &last, acc);
            }
            if li == 3000 {
                acc.sample(|| json!({"delimiters": d.id, "source": last}));
            }
        });
    }

    // ---------------------------------------------------------------- intag2
    {
        let n_w1 = dsets::count_upto(ni, 2);
        let (parts, total) = layout(&intag2_plan, |_, l| n_w1 * dsets::count_upto(ni, l - 1));
        let fam = Family::new(
            "intag2",
            total,
            &format!(
                "`BS w1 BE BS w2 BE` for every |w1| <= 2 and |w2| <= L2 over the {ni} in-tag tokens, L2 per delimiter set: {}",
                depth_words(&parts, &ds)
            ),
        )
        .timeout(30.0)
        .describe(|item| {
            let (p, local) = locate(&parts, item);
            let per = dsets::count_upto(ni, p.depth - 1);
            let w1 = join_syms(&intag, &dsets::decode_seq(local / per, ni, 2), " ");
            let w2p = join_syms(&intag, &dsets::decode_seq(local % per, ni, p.depth - 1), " ");
            json!({"family": "intag2", "delimiters": ds[p.d].show(), "template_name": dsets::TPL_NAME,
                   "inputs": "BS w1 BE BS w2 BE with w2 = prefix, one space, each in-tag token", "w1": w1, "w2_prefix": w2p, "alphabet": intag})
        });
        run.family(fam, |item, acc| {
            let (p, local) = locate(&parts, item);
            let d = &ds[p.d];
            let per = dsets::count_upto(ni, p.depth - 1);
            let w1 = join_syms(&intag, &dsets::decode_seq(local / per, ni, 2), " ");
            let seq2 = dsets::decode_seq(local % per, ni, p.depth - 1);
            let w2p = join_syms(&intag, &seq2, " ");
            let mut r = Runner::new(&bases[p.d], "intag2");
            let head = format!("{} {} {}{} ", d.bs, w1, d.be, d.bs);
            if seq2.is_empty() {
                r.input(d, dsets::TPL_NAME, &format!("{head}{}", d.be), acc);
            }
            let mut s = String::new();
            for t in &intag {
                s.clear();
                s.push_str(&head);
                s.push_str(&w2p);
                if !seq2.is_empty() {
                    s.push(' ');
                }
                s.push_str(t);
                s.push(' ');
                s.push_str(d.be);
                r.input(d, dsets::TPL_NAME, &s, acc);
            }
            if local == 777 {
                acc.sample(|| json!({"delimiters": d.id, "source": s}));
            }
        });
    }

    // ---------------------------------------------------------------- seeds
    let repo = std::env::var("VERIF_SUBJECT").unwrap_or_else(|_| "/repo".to_string());
    let snap = seeds::snapshot_seeds(&repo);
    let n_snap = snap.len();
    let mut all_seeds: Vec<Seed> = snap;
    all_seeds.extend(seeds::hand_seeds());
    let menu = seeds::menu();
    let delim_toks: Vec<Vec<String>> = ds.iter().map(|d| d.delimiter_tokens()).collect();
    run.extra("seeds", json!({"snapshot_inputs": n_snap, "hand_written": all_seeds.len() - n_snap,
        "total_tokens": all_seeds.iter().map(|s| s.n_tokens()).sum::<usize>(),
        "replacement_menu_default_spelling": menu.iter().map(|t| seeds::print(std::slice::from_ref(t), &delim_toks[0])).collect::<Vec<_>>()}));

    /// Runs one deviated seed: all its templates through add_raw_templates, the deviated one through render_str.
    fn run_seed(
        r: &mut Runner<'_>,
        d: &DSet,
        seed: &Seed,
        printed: &[(String, String)],
        changed: usize,
        what: &dyn Fn() -> Json,
        acc: &mut Acc,
    ) -> usize {
        let case = || {
            json!({"delimiters": d.show(), "seed": seed.id, "deviation": what(),
                   "templates": printed.iter().map(|(n, s)| json!({"name": n, "source": s})).collect::<Vec<_>>(),
                   "render_str_source": printed[changed].1, "context": "empty"})
        };
        let refs: Vec<(&str, &str)> = printed.iter().map(|(n, s)| (n.as_str(), s.as_str())).collect();
        let a = r.add(&refs, acc, &case);
        let src = &printed[changed].1;
        let k = r.render_str(src, true, acc, &case);
        acc.case(d.has_start_marker(src), &PAIR_NAMES[a * KINDS.len() + k]);
        a
    }

    // (delimiter set, seed) pairs. Thorough: every seed under every set. Quick: every seed under D0,
    // the seeds of <= 400 bytes under D1 and D2 (the cost of a seed grows with the square of its size).
    let seed_bytes = |s: &Seed| -> usize { s.templates.iter().map(|(_, t)| seeds::print(t, &delim_toks[0]).len()).sum() };
    let quick_small = 400usize;
    let mut seed_pairs: Vec<(usize, usize)> = vec![];
    for di in 0..nd {
        for (si, seed) in all_seeds.iter().enumerate() {
            let take = thorough || ds[di].id == "D0" || (["D1", "D2"].contains(&ds[di].id) && seed_bytes(seed) <= quick_small);
            if take {
                seed_pairs.push((di, si));
            }
        }
    }
    // One item = (pair, operator class, chunk of <= 48 token positions / <= 96 cut points): items stay
    // small (well under 0.1 s of CPU) whatever the size of the seed.
    const CHUNK: usize = 48;
    let print_seed = |di: usize, seed: &Seed| -> Vec<(String, String)> {
        seed.templates.iter().map(|(n, t)| (n.clone(), seeds::print(t, &delim_toks[di]))).collect()
    };
    let mut seed_items: Vec<(u32, u8, u32)> = vec![];
    for (pi, (di, si)) in seed_pairs.iter().enumerate() {
        let seed = &all_seeds[*si];
        let npos = seed.n_tokens();
        for oc in 0..seeds::N_OPS {
            for start in (0..npos.max(1)).step_by(CHUNK) {
                seed_items.push((pi as u32, oc as u8, start as u32));
            }
        }
        let ncuts: usize = print_seed(*di, seed).iter().map(|(_, s)| s.chars().count()).sum();
        for start in (0..ncuts.max(1)).step_by(2 * CHUNK) {
            seed_items.push((pi as u32, seeds::N_OPS as u8, start as u32));
        }
    }
    {
        let ns = all_seeds.len() as u64;
        let total = seed_items.len() as u64;
        let scope = if thorough {
            format!("under each of the {nd} delimiter sets")
        } else {
            format!("under D0 (all seeds) and under D1, D2 (the {} seeds of <= {quick_small} bytes)", all_seeds.iter().filter(|s| seed_bytes(s) <= quick_small).count())
        };
        let fam = Family::new(
            "seeds-1dev",
            total,
            &format!(
                "{} seeds ({} snapshot inputs of the repository, {} hand-written programs; {} tokens) x every single token deleted / duplicated / replaced by each of a 12-token menu + every proper prefix (cut at every character boundary) + the unmodified seed, delimiters re-spelled {scope}",
                ns, n_snap, ns as usize - n_snap, all_seeds.iter().map(|s| s.n_tokens()).sum::<usize>()
            ),
        )
        .timeout(120.0)
        .describe(|item| {
            let (pi, oc, start) = seed_items[item as usize];
            let (di, si) = seed_pairs[pi as usize];
            json!({"family": "seeds-1dev", "delimiters": ds[di].show(), "seed": all_seeds[si].id,
                   "operator_class": if oc as usize == seeds::N_OPS { format!("every prefix, cut points {start}..{}", start as usize + 2 * CHUNK) }
                                     else { format!("{:?} at token positions {start}..{}", seeds::op_of(oc as usize), start as usize + CHUNK) }})
        });
        run.family(fam, |item, acc| {
            let (pi, oc, start) = seed_items[item as usize];
            let (oc, start) = (oc as usize, start as usize);
            let (di, si) = seed_pairs[pi as usize];
            let (d, seed) = (&ds[di], &all_seeds[si]);
            let mut r = Runner::new(&bases[di], "seeds-1dev");
            let orig = print_seed(di, seed);
            if oc == 0 && start == 0 {
                // the unmodified seed, once
                let a = run_seed(&mut r, d, seed, &orig, orig.len() - 1, &|| json!("none"), acc);
                acc.count("seeds-unmodified", 1);
                // generator sanity (a vacuity guard reads these): the hand-written seeds are valid programs
                if seed.id.starts_with("hand/") && ["D0", "D1", "D2"].contains(&d.id) {
                    if a == 0 {
                        acc.count("hand-seed-accepted", 1);
                    } else {
                        acc.count(&format!("hand-seed-rejected:{}@{}", seed.id, d.id), 1);
                    }
                }
            }
            if oc < seeds::N_OPS {
                let op = seeds::op_of(oc);
                for (ti, k) in seed.positions().into_iter().skip(start).take(CHUNK) {
                    if let Op::Replace(j) = op
                        && seed.templates[ti].1[k] == menu[j]
                    {
                        continue; // replacing a token by itself is not a deviation
                    }
                    let toks = seeds::apply(&seed.templates[ti].1, &[(k, op)], &menu);
                    let mut printed = orig.clone();
                    printed[ti].1 = seeds::print(&toks, &delim_toks[di]);
                    run_seed(&mut r, d, seed, &printed, ti, &|| json!({"template": ti, "token": k, "op": format!("{op:?}")}), acc);
                }
            } else {
                let cuts = orig.iter().enumerate().flat_map(|(ti, (_, s))| s.char_indices().map(move |(c, _)| (ti, c)));
                for (ti, cut) in cuts.skip(start).take(2 * CHUNK) {
                    let mut printed = orig.clone();
                    printed[ti].1.truncate(cut);
                    run_seed(&mut r, d, seed, &printed, ti, &|| json!({"template": ti, "truncated_at_byte": cut}), acc);
                }
            }
            if item == 3 {
                acc.sample(|| json!({"seed": seed.id, "delimiters": d.id, "operator_class": oc}));
            }
        });
    }

    // ---------------------------------------------------------------- a whole tag in the wrong place
    // One more single deviation: a complete, well-formed tag of the menu below inserted at the start
    // of a template or right after any of its tags - `continue` / `break` outside a loop, a stray
    // `else` / `elif` / `endif` / `endfor` / `endblock` / `endset`, `super()` outside a block, an
    // `extends` that is not first, a second definition of a block. Ok or Err, never a panic.
    {
        const TAGS: [&str; 12] = [
            "BS continue BE", "BS break BE", "BS else BE", "BS elif a BE", "BS endif BE", "BS endfor BE", "BS endblock BE",
            "BS endset BE", "VS super() VE", "BS extends \"p\" BE", "BS block b BEBS endblock BE", "BS endfilter BE",
        ];
        let pairs = &seed_pairs;
        let fam = Family::new(
            "seeds-tag-insertion",
            pairs.len() as u64,
            &format!(
                "{} (delimiter set, seed) pairs x every insertion point (start of a template, right after each of its tags) x {} complete tags ({}): add_raw_templates of the seed's templates and render_str of the changed one",
                pairs.len(),
                TAGS.len(),
                TAGS.join(" | ")
            ),
        )
        .timeout(120.0)
        .describe(|item| {
            let (di, si) = pairs[item as usize];
            json!({"family": "seeds-tag-insertion", "delimiters": ds[di].show(), "seed": all_seeds[si].id})
        });
        run.family(fam, |item, acc| {
            let (di, si) = pairs[item as usize];
            let (d, seed) = (&ds[di], &all_seeds[si]);
            let mut r = Runner::new(&bases[di], "seeds-tag-insertion");
            let orig = print_seed(di, seed);
            let tags: Vec<String> = TAGS.iter().map(|t| t.replace("BS", d.bs).replace("BE", d.be).replace("VS", d.vs).replace("VE", d.ve)).collect();
            for ti in 0..orig.len() {
                let src = &orig[ti].1;
                let mut points = vec![0usize];
                for end in [d.be, d.ve, d.ce] {
                    points.extend(src.match_indices(end).map(|(i, e)| i + e.len()));
                }
                points.sort();
                points.dedup();
                for &at in &points {
                    for (k, tag) in tags.iter().enumerate() {
                        let mut printed = orig.clone();
                        printed[ti].1.insert_str(at, tag);
                        run_seed(&mut r, d, seed, &printed, ti, &|| json!({"template": ti, "inserted_at_byte": at, "tag": TAGS[k]}), acc);
                    }
                }
            }
        });
    }

    // two deviations on the short seeds
    let short_limit = 24usize;
    let short: Vec<usize> = (0..all_seeds.len()).filter(|i| all_seeds[*i].n_tokens() <= short_limit && all_seeds[*i].n_tokens() >= 2).collect();
    if thorough {
        // item = (delimiter set, short seed, first position, first operator)
        let mut starts = vec![];
        let mut total = 0u64;
        for di in 0..nd {
            for (k, si) in short.iter().enumerate() {
                starts.push((total, di, k));
                total += (all_seeds[*si].n_tokens() * seeds::N_OPS) as u64;
            }
        }
        let find = |item: u64| -> (usize, usize, usize, usize) {
            let pos = starts.partition_point(|s| s.0 <= item) - 1;
            let (st, di, k) = starts[pos];
            let local = (item - st) as usize;
            (di, short[k], local / seeds::N_OPS, local % seeds::N_OPS)
        };
        let fam = Family::new(
            "seeds-2dev",
            total,
            &format!(
                "every pair of single-token deviations (delete / duplicate / 12 replacements at two distinct positions) on the {} seeds of 2..={} tokens, under each of the {} delimiter sets",
                short.len(), short_limit, nd
            ),
        )
        .timeout(120.0)
        .describe(|item| {
            let (di, si, p1, o1) = find(item);
            json!({"family": "seeds-2dev", "delimiters": ds[di].show(), "seed": all_seeds[si].id,
                   "first_deviation": {"position": p1, "op": format!("{:?}", seeds::op_of(o1))}, "second_deviation": "every later position x every operator"})
        });
        run.family(fam, |item, acc| {
            let (di, si, p1, o1) = find(item);
            let (d, seed) = (&ds[di], &all_seeds[si]);
            let mut r = Runner::new(&bases[di], "seeds-2dev");
            let orig: Vec<(String, String)> = seed.templates.iter().map(|(n, t)| (n.clone(), seeds::print(t, &delim_toks[di]))).collect();
            let positions = seed.positions();
            let op1 = seeds::op_of(o1);
            let (t1, k1) = positions[p1];
            for p2 in p1 + 1..positions.len() {
                let (t2, k2) = positions[p2];
                for o2 in 0..seeds::N_OPS {
                    let op2 = seeds::op_of(o2);
                    let mut printed = orig.clone();
                    if t1 == t2 {
                        let toks = seeds::apply(&seed.templates[t1].1, &[(k1, op1), (k2, op2)], &menu);
                        printed[t1].1 = seeds::print(&toks, &delim_toks[di]);
                    } else {
                        let a = seeds::apply(&seed.templates[t1].1, &[(k1, op1)], &menu);
                        printed[t1].1 = seeds::print(&a, &delim_toks[di]);
                        let b = seeds::apply(&seed.templates[t2].1, &[(k2, op2)], &menu);
                        printed[t2].1 = seeds::print(&b, &delim_toks[di]);
                    }
                    run_seed(
                        &mut r,
                        d,
                        seed,
                        &printed,
                        t2,
                        &|| json!([{"position": p1, "op": format!("{op1:?}")}, {"position": p2, "op": format!("{op2:?}")}]),
                        acc,
                    );
                }
            }
        });
    }

    // ---------------------------------------------------------------- pumping
    let prods = pump::productions();
    run.extra(
        "pumped_productions",
        json!(prods.iter().map(|p| json!({"name": p.name, "class": p.class.tag(), "source": p.recipe(), "limit": p.limit})).collect::<Vec<_>>()),
    );
    run.extra("pump_N", json!(pump::NS));
    let d0 = idx_of("D0");
    let d2 = idx_of("D2");
    // capped: everything that must not crash (nested / width / length at every N, chains below 1000), under D0 and D2
    let mut capped: Vec<PumpItem> = vec![];
    let mut long_chains: Vec<PumpItem> = vec![];
    // Repetition cap per production: productions whose cost was measured to be quadratic stop at
    // 10^3 (quick) / 10^4 (thorough); flat and long-lexeme productions (seconds per input at 10^5)
    // reach 10^5 in the thorough tier only. Nested and chain productions always reach 10^5.
    let max_n = |p: &pump::Prod| -> usize {
        if p.quadratic {
            if thorough { 10_000 } else { 1_000 }
        } else if matches!(p.class, pump::Class::Width | pump::Class::Length) && !thorough {
            10_000
        } else {
            100_000
        }
    };
    for (pi, p) in prods.iter().enumerate() {
        for &n in pump::NS.iter().filter(|n| **n <= max_n(p)) {
            for entry in [Entry::Add, Entry::RenderStr] {
                if p.class == pump::Class::Chain && n >= 1000 {
                    long_chains.push(PumpItem { prod: pi, n, entry, d: d0 });
                } else {
                    capped.push(PumpItem { prod: pi, n, entry, d: d0 });
                    capped.push(PumpItem { prod: pi, n, entry, d: d2 });
                }
            }
        }
    }
    // The kernel keeps at most 40 crash records per family: long chains (where the known finding
    // F-deep lives) are cut into families of 36 items so that no crash record can be dropped.
    let mut pump_families: Vec<(String, Vec<PumpItem>, String)> = vec![(
        "pump-capped".into(),
        capped,
        format!(
            "every nested production at every N, every width / length production at N <= {}, every chain production at N < 1000{}; add_raw_templates and render_str; delimiter sets D0 and D2",
            if thorough { "10^5" } else { "10^4" },
            prods.iter().filter(|p| p.quadratic).map(|p| format!(", `{}` (quadratic cost) at N <= {}", p.name, max_n(p))).collect::<String>()
        ),
    )];
    for (k, chunk) in long_chains.chunks(36).enumerate() {
        pump_families.push((
            format!("pump-chain-{}", k + 1),
            chunk.to_vec(),
            "left-associative / postfix / elif chain productions at N in {1000, 10000, 100000}; add_raw_templates and render_str; D0".to_string(),
        ));
    }
    let pump_sources = |it: &PumpItem| -> String {
        let s = prods[it.prod].source(it.n);
        if it.d == d0 { s } else { seeds::print(&seeds::split(&s), &delim_toks[it.d]) }
    };
    for stack_mb in [8usize, 2] {
        for (fname, items, words) in &pump_families {
            let name = format!("{fname}-{stack_mb}MiB");
            let fam = Family::new(
                &name,
                items.len() as u64,
                &format!("{words}; N in {:?}; subject thread stack {stack_mb} MiB", pump::NS),
            )
            // generous: the slowest pumped inputs need ~15 s of CPU and the machine may be shared
            .timeout(600.0)
            .stack_mb(stack_mb)
            // one process per item where crashes are expected: a crash costs two process starts, not a chain of them
            .workers(if fname.starts_with("pump-chain") { items.len() } else { 16 })
            .describe(|item| {
                let it = &items[item as usize];
                let p = &prods[it.prod];
                json!({"family": name, "production": p.name, "class": p.class.tag(), "N": it.n,
                       "entry": format!("{:?}", it.entry), "delimiters": ds[it.d].show(), "stack_MiB": stack_mb,
                       "source_recipe_default_delimiters": p.recipe(), "source_preview": preview(&pump_sources(it))})
            })
            .crash_signature(|item, kind| {
                let it = &items[item as usize];
                pump_crash_signature(kind, &prods[it.prod], it.n)
            });
            run.family(fam, |item, acc| {
                let it = &items[item as usize];
                let p = &prods[it.prod];
                let d = &ds[it.d];
                let src = pump_sources(it);
                let case = || {
                    json!({"production": p.name, "class": p.class.tag(), "N": it.n, "entry": format!("{:?}", it.entry),
                           "delimiters": d.show(), "stack_MiB": stack_mb, "source_recipe_default_delimiters": p.recipe(),
                           "source_preview": preview(&src), "template_name": dsets::TPL_NAME, "context": "empty"})
                };
                let mut r = Runner::new(&bases[it.d], "pump");
                let t0 = Instant::now();
                let k = match it.entry {
                    Entry::Add => r.add(&[(dsets::TPL_NAME, src.as_str())], acc, &case),
                    Entry::RenderStr => r.render_str(&src, true, acc, &case),
                };
                let secs = t0.elapsed().as_secs_f64();
                if secs > 5.0 {
                    acc.count(&format!("slow>5s:{}:{}:{:?}", p.name, n_class(it.n), it.entry), 1);
                }
                if secs > 1.0 {
                    acc.count(&format!("ms:{}:{}:{:?}", p.name, n_class(it.n), it.entry), (secs * 1000.0) as u64);
                }
                if let Some(limit) = p.limit
                    && it.n > limit
                {
                    if k == 1 {
                        acc.count("nesting-beyond-limit-refused", 1);
                    } else if k != 10 {
                        acc.violation(
                            format!("nesting-not-refused:{}:{}", p.name, n_class(it.n)),
                            format!(
                                "{} levels of `{}` (limit {limit}) must be a syntax error, {:?} gave {}",
                                it.n, p.name, it.entry, KINDS[k]
                            ),
                            case,
                        );
                    }
                }
                if it.n <= p.min_ok && it.entry == Entry::Add {
                    if k == 0 {
                        acc.count("pump-base-accepted", 1);
                    } else {
                        acc.count(&format!("pump-base-rejected:{}:{}:{}", p.name, n_class(it.n), d.id), 1);
                    }
                }
                acc.case(true, &format!("{}:{}", p.class.tag(), KINDS[k]));
                if item < 2 {
                    acc.sample(case);
                }
            });
        }
    }

    // ---------------------------------------------------------------- references to things that do not exist
    // "or rendering a one-off string": a one-off template is compiled, checked and rendered in one
    // call, so a reference the check misses is reached at once (seeded change C06-9: unknown
    // functions inside component definitions were no longer collected; the VM's lookup panicked).
    {
        let kinds: Vec<(&str, &str)> = vec![
            ("filter", "{{ 1 | zz_nosuch }}"),
            ("filter-with-args", "{{ 1 | zz_nosuch(a=1) }}"),
            ("test", "{{ 1 is zz_nosuch }}"),
            ("negated-test", "{{ 1 is not zz_nosuch }}"),
            ("function", "{{ zz_nosuch() }}"),
            ("function-as-argument", "{{ range(end=zz_nosuch()) }}"),
            ("component", "{{ <ZzNoSuch /> }}"),
            ("component-with-body", "{% <ZzNoSuch> %}x{% </ZzNoSuch> %}"),
            ("include", "{% include \"zz-nosuch\" %}"),
            ("filter-section", "{% filter zz_nosuch %}x{% endfilter %}"),
            ("set-block-filter", "{% set z | zz_nosuch %}x{% endset %}"),
        ];
        let positions: Vec<(&str, &str)> = vec![
            ("top", "@"),
            ("if-not-taken", "{% if false %}@{% endif %}"),
            ("loop-over-nothing", "{% for i in [] %}@{% endfor %}"),
            ("capture", "{% set c %}@{% endset %}{{ c }}"),
            ("component-definition-called", "{% component A() %}@{% endcomponent A %}{{ <A /> }}"),
            ("component-definition-not-called", "{% component A() %}@{% endcomponent A %}x"),
            ("component-in-component", "{% component A() %}@{% endcomponent A %}{% component B() %}{{ <A /> }}{% endcomponent B %}{{ <B /> }}"),
            ("call-body", "{% component W() %}{{ body }}{% endcomponent W %}{% <W> %}@{% </W> %}"),
            ("component-default-argument", "{% component A(x=1) %}{{ x }}{% endcomponent A %}{{ <A x={1} /> }}@"),
        ];
        let n_items = (kinds.len() * positions.len()) as u64;
        run.family(
            Family::new(
                "unknown-references-on-the-fly",
                n_items,
                &format!("{} kinds of reference to something that does not exist x {} positions (incl. never executed ones and component definitions), through render_str (both modes), Tera::one_off and add_raw_templates followed by a render of whatever was accepted: Ok or Err, no panic", kinds.len(), positions.len()),
            )
            .describe(|i| json!({"reference": kinds[i as usize / positions.len()].0, "position": positions[i as usize % positions.len()].0})),
            |item, acc: &mut Acc| {
                let (kname, snippet) = kinds[item as usize / positions.len()];
                let (pname, frame) = positions[item as usize % positions.len()];
                let src = frame.replace('@', snippet);
                let case = || json!({"reference": kname, "position": pname, "source": src});
                let base = Tera::default();
                let ctx = Context::new();
                for ae in [true, false] {
                    match guarded(|| base.render_str(&src, &ctx, ae)) {
                        Ok(r) => acc.case(true, if r.is_ok() { "render_str:ok" } else { "render_str:err" }),
                        Err(p) => {
                            acc.violation(panic_sig("render_str", &p), format!("render_str panicked ({kname} @ {pname}): {p}"), case);
                            acc.case(true, "render_str:panic");
                        }
                    }
                }
                match guarded(|| Tera::one_off(&src, &ctx, true)) {
                    Ok(r) => acc.case(true, if r.is_ok() { "one_off:ok" } else { "one_off:err" }),
                    Err(p) => {
                        acc.violation(panic_sig("one_off", &p), format!("Tera::one_off panicked ({kname} @ {pname}): {p}"), case);
                        acc.case(true, "one_off:panic");
                    }
                }
                let mut t = Tera::default();
                match guarded(|| t.add_raw_template("a", &src)) {
                    Ok(Ok(())) => match guarded(|| t.render("a", &ctx)) {
                        Ok(r) => acc.case(true, if r.is_ok() { "add:ok/render:ok" } else { "add:ok/render:err" }),
                        Err(p) => {
                            acc.violation(panic_sig("render-after-add", &p), format!("the template was accepted and its render panicked ({kname} @ {pname}): {p}"), case);
                            acc.case(true, "add:ok/render:panic");
                        }
                    },
                    Ok(Err(_)) => acc.case(true, "add:err"),
                    Err(p) => {
                        acc.violation(panic_sig("add_raw_templates", &p), format!("add_raw_template panicked ({kname} @ {pname}): {p}"), case);
                        acc.case(true, "add:panic");
                    }
                }
            },
        );
    }

    // ---------------------------------------------------------------- after a refused delimiter set
    // "whatever the ... delimiter configuration": a set that set_delimiters REFUSES is part of what a
    // caller can do to an instance. Afterwards every registration still has to end in Ok or Err
    // (seeded change C06-8: the refused set stayed in force and the lexer, which assumes two-byte
    // delimiters, panicked on the next comment).
    {
        let refused: Vec<(&str, [&str; 6])> = vec![
            // [block_start, block_end, variable_start, variable_end, comment_start, comment_end]
            ("comment_end-empty", ["{%", "%}", "{{", "}}", "{#", ""]),
            ("comment_end-one-byte", ["{%", "%}", "{{", "}}", "{#", "#"]),
            ("comment_end-three-byte-char", ["{%", "%}", "{{", "}}", "{#", "日"]),
            ("comment_start-empty", ["{%", "%}", "{{", "}}", "", "#}"]),
            ("comment_start-one-byte", ["{%", "%}", "{{", "}}", "#", "#}"]),
            ("block_end-empty", ["{%", "", "{{", "}}", "{#", "#}"]),
            ("block_end-three-bytes", ["{%", "%}}", "{{", "}}", "{#", "#}"]),
            ("block_start-empty", ["", "%}", "{{", "}}", "{#", "#}"]),
            ("block_start-one-byte", ["{", "%}", "{{", "}}", "{#", "#}"]),
            ("variable_end-empty", ["{%", "%}", "{{", "", "{#", "#}"]),
            ("variable_end-four-byte-char", ["{%", "%}", "{{", "😀", "{#", "#}"]),
            ("variable_start-one-byte", ["{%", "%}", "{", "}}", "{#", "#}"]),
            ("variable_start-three-byte-char", ["{%", "%}", "日", "}}", "{#", "#}"]),
            ("equal-starts-block-variable", ["{{", "%}", "{{", "}}", "{#", "#}"]),
            ("equal-starts-variable-comment", ["{%", "%}", "{#", "}}", "{#", "#}"]),
            ("everything-empty", ["", "", "", "", "", ""]),
        ];
        let d0 = ds[0];
        let alpha = dsets::char_alphabet(&d0);
        let mut battery: Vec<String> = vec![String::new()];
        for a in &alpha {
            battery.push(a.clone());
            for b in &alpha {
                battery.push(format!("{a}{b}"));
            }
        }
        for seed in seeds::hand_seeds() {
            for (_, toks) in &seed.templates {
                battery.push(seeds::print(toks, &seeds::DEFAULT_DELIMS.iter().map(|s| s.to_string()).collect::<Vec<_>>()));
            }
        }
        for extra in ["{##}", "{# a #", "{# x 日 y", "{#-#}", "{# #}{# #}", "a{# c #}b{{ 1 }}{% if true %}c{% endif %}", "{% raw %}{# x #}{% endraw %}", "{#", "#}", "{# 😀 #}"] {
            battery.push(extra.to_string());
        }
        let nb = battery.len();
        run.extra("after_refused_delimiters", json!({"refused_sets": refused.iter().map(|(n, s)| json!({"name": n, "set": s})).collect::<Vec<_>>(), "battery_size": nb}));
        run.family(
            Family::new(
                "after-refused-delimiters",
                refused.len() as u64,
                &format!("{} delimiter sets that set_delimiters refuses (each delimiter empty / one byte / three bytes / one multi-byte character, equal start delimiters), each tried on a fresh instance; afterwards a battery of {nb} sources (every string of length <= 2 over the character alphabet, the hand-written programs, comment and raw shapes) goes through add_raw_templates and render_str: Ok or Err, no panic, no hang", refused.len()),
            )
            .describe(|i| json!({"refused_set": refused[i as usize].0, "delimiters": refused[i as usize].1}))
            .crash_signature(|i, kind| format!("{kind}:after-refused-delimiters:{}", refused[i as usize].0)),
            |item, acc: &mut Acc| {
                let (name, set) = &refused[item as usize];
                let mut base = Tera::default();
                let r = guarded(|| {
                    base.set_delimiters(tera::Delimiters {
                        block_start: set[0].to_string().into(),
                        block_end: set[1].to_string().into(),
                        variable_start: set[2].to_string().into(),
                        variable_end: set[3].to_string().into(),
                        comment_start: set[4].to_string().into(),
                        comment_end: set[5].to_string().into(),
                    })
                });
                match r {
                    Ok(Err(_)) => {}
                    Ok(Ok(())) => {
                        // accepted after all: then it is one more configuration, exercised the same way
                        acc.count("refused-set-accepted", 1);
                    }
                    Err(p) => {
                        acc.violation(panic_sig("set_delimiters", &p), format!("set_delimiters panicked on the set `{name}`: {p}"), || json!({"set": set}));
                        return;
                    }
                }
                let mut r = Runner::new(&base, "after-refused-delimiters");
                for src in &battery {
                    let case = || json!({"history": format!("set_delimiters({name}: {set:?}) was refused on this instance"), "source": src, "context": "empty"});
                    let a = r.add(&[(dsets::TPL_NAME, src.as_str())], acc, &case);
                    let k = r.render_str(src, true, acc, &case);
                    acc.case(d0.has_start_marker(src), &PAIR_NAMES[a * KINDS.len() + k]);
                }
            },
        );
    }

    // ---------------------------------------------------------------- names
    let long_ascii = "x".repeat(1024);
    let long_html = format!("{}.html", "y".repeat(1019));
    let long_multi = "é".repeat(512);
    let names: Vec<&str> = vec![
        "", "a", "a.html", "A.HTML", ".html", "é日😀", "é.html", &long_ascii, &long_html, &long_multi, "__tera_one_off",
        "__tera_one_off.html", "a\nb", "a\nb.html", "a\"b", "a'b`c", "dir/a.html", "../a.xml", "a b.htm", " ", "{{ a }}", "$$ x", "\0",
        "a\\b", "😀", "\u{feff}a", "a\r\n",
    ];
    let n_variants = 13u64;
    // ------------------------------------------------------------------ template sets (graphs)
    // Registration of SETS of templates: every extends/include graph on 3 templates over the
    // structure alphabet of C11 (incl. self-loops, cycles entered from a tail, missing targets):
    // add_raw_templates must come back with Ok or Err — in one batch and one template at a time
    // (seeded change C06-2: a cycle walk that never returned for `a` includes `b`, `b` extends `c`,
    // `c` extends itself).
    {
        use graph::{AlphabetSpec, Mode, Naming, Place};
        let spec = AlphabetSpec {
            n: 3,
            missing_extends: true,
            missing_include: true,
            child_modes: vec![Mode::Absent, Mode::Super],
            places: vec![Place::Top, Place::Block],
            max_includes: 1,
        };
        let configs = spec.configs();
        let radix = configs.len() as u64;
        // plain names, and the two namings of C11 in which an edge reaches its target through a
        // fallback prefix (the spelling of an `extends` differs from the resolved name: seeded
        // change C06-10 compared the two in the ancestor walk, which then never came back for a
        // cycle entered from outside)
        let namings = [Naming::plain(3), Naming::prefixed_one(), Naming::prefixed_two()];
        let per = radix * radix * radix;
        let sources = |item: u64| -> (&Naming, Vec<(String, String)>) {
            let nm = &namings[(item / per) as usize];
            let idx = graph::decode(item % per, 3, radix);
            (nm, (0..3).map(|i| (nm.names[i].clone(), graph::source(i, &configs[idx[i]], nm))).collect())
        };
        let fam = Family::new(
            "template-sets",
            per * namings.len() as u64,
            &format!("all {radix}^3 extends/include graphs on 3 templates ({}) x 3 namings (plain; one fallback prefix; two fallback prefixes: edges spelled through a prefix), registered in one batch and one template at a time in both directions: Ok or Err, no panic / hang / crash", spec.describe()),
        )
        .timeout(20.0)
        .budget(300.0)
        .describe(|i| { let (nm, t) = sources(i); json!({"family": "template-sets", "fallback_prefixes": nm.prefixes, "templates": t}) })
        .crash_signature(|_, kind| format!("{kind}:add_raw_templates:template-set"));
        run.family(fam, |item, acc| {
            let (nm, tpls) = sources(item);
            let case = || json!({"family": "template-sets", "fallback_prefixes": nm.prefixes, "templates": tpls});
            let fresh = || {
                let mut t = tera::Tera::default();
                if !nm.prefixes.is_empty() {
                    t.set_fallback_prefixes(nm.prefixes.clone()).expect("prefixes on an empty instance");
                }
                t
            };
            let mut outcomes = String::new();
            // one batch
            let mut t = fresh();
            match guarded(|| t.add_raw_templates(tpls.iter().map(|(n, s)| (n.as_str(), s.as_str())))) {
                Ok(Ok(())) => outcomes.push_str("ok"),
                Ok(Err(e)) => {
                    let _ = guarded(|| e.to_string());
                    outcomes.push_str("err");
                }
                Err(p) => acc.violation("panic:add_raw_templates:template-set", format!("add_raw_templates panicked: {p}"), case),
            }
            // one at a time, forwards and backwards (most of these calls fail: dangling targets)
            for rev in [false, true] {
                let mut t = fresh();
                let order: Vec<usize> = if rev { vec![2, 1, 0] } else { vec![0, 1, 2] };
                for i in order {
                    if let Err(p) = guarded(|| t.add_raw_template(&tpls[i].0, &tpls[i].1)) {
                        acc.violation("panic:add_raw_template:template-set", format!("add_raw_template panicked: {p}"), case);
                    }
                }
            }
            acc.case(true, &format!("{}:batch:{outcomes}", if nm.prefixes.is_empty() { "plain" } else { "prefixed" }));
        });
    }

    let name_dsets = [d0, d2];
    {
        let total = names.len() as u64 * n_variants * name_dsets.len() as u64;
        let fam = Family::new(
            "names",
            total,
            &format!("{} template names (empty, 1 KiB ASCII / multi-byte, non-ASCII, `__tera_one_off`, control characters, quotes, with and without an autoescape suffix) x {n_variants} registration / rendering scenarios x delimiter sets D0 and D2", names.len()),
        )
        .timeout(30.0)
        .describe(|item| {
            let v = item % n_variants;
            let ni_ = (item / n_variants) % names.len() as u64;
            let di = name_dsets[(item / (n_variants * names.len() as u64)) as usize];
            json!({"family": "names", "name": preview(names[ni_ as usize]), "scenario": v, "delimiters": ds[di].show()})
        });
        run.family(fam, |item, acc| {
            let v = item % n_variants;
            let name = names[((item / n_variants) % names.len() as u64) as usize];
            let di = name_dsets[(item / (n_variants * names.len() as u64)) as usize];
            let d = &ds[di];
            let sp = |s: &str| seeds::print(&seeds::split(s), &delim_toks[di]);
            // a string literal for the name, when the language can spell one
            let quoted: Option<String> = if !name.contains('\n') && !name.contains('\r') && !name.contains('\\') {
                ['"', '\'', '`'].iter().find(|q| !name.contains(**q)).map(|q| format!("{q}{name}{q}"))
            } else {
                None
            };
            let needs_q = matches!(v, 3 | 4 | 7 | 8 | 11);
            if needs_q && quoted.is_none() {
                acc.case(false, "skipped:name-not-spellable");
                return;
            }
            let q = quoted.unwrap_or_default();
            let batch: Vec<(String, String)> = match v {
                0 => vec![(name.into(), sp("x{{ 1 }}"))],
                1 => vec![(name.into(), sp("{{ a | nope }}\n{{ nope() }}"))],
                2 => vec![(name.into(), sp("é\n{{"))],
                3 => vec![(name.into(), sp(&format!("{{% include {q} %}}")))],
                4 => vec![(name.into(), sp(&format!("{{% extends {q} %}}")))],
                5 => vec![(name.into(), sp("{{ \"<é>\" }}{{ a }}"))],
                6 => vec![(name.into(), sp("{{ 1 / 0 }}{{ a.b }}"))],
                7 => vec![(name.into(), sp("x{{ 1 }}")), ("other.html".into(), sp(&format!("{{% include {q} %}}")))],
                8 => vec![
                    (name.into(), sp("{% block b %}B{% endblock %}")),
                    ("child".into(), sp(&format!("{{% extends {q} %}}{{% block b %}}{{{{ super() }}}}{{% endblock %}}"))),
                ],
                9 => vec![(name.into(), "A".into()), (name.into(), sp("{{"))],
                10 => vec![(name.into(), "A".into()), (name.into(), "B".into())],
                11 => vec![(name.into(), sp("x{{ 1 }}"))],
                _ => vec![(name.into(), sp("{% component C() %}c{% endcomponent %}{{ <C/> }}"))],
            };
            let case = || {
                json!({"delimiters": d.show(), "scenario": v,
                       "templates": batch.iter().map(|(n, s)| json!({"name": preview(n), "name_bytes": n.len(), "source": s})).collect::<Vec<_>>()})
            };
            let r = Runner::new(&bases[di], "names");
            let refs: Vec<(&str, &str)> = batch.iter().map(|(n, s)| (n.as_str(), s.as_str())).collect();
            // keep the instance when registration succeeds: the rendering below needs it
            let mut inst = bases[di].clone();
            let a = match guarded(|| inst.add_raw_templates(refs.iter().copied())) {
                Ok(Ok(())) => 0,
                Ok(Err(e)) => {
                    r.check_display(&e, "add_raw_templates", acc, &case);
                    kind_index(kind_tag(e.kind()))
                }
                Err(p) => {
                    acc.violation(panic_sig("add_raw_templates", &p), format!("add_raw_templates panicked (names): {p}"), case);
                    10
                }
            };
            let mut rk = 9;
            if a == 0 {
                let target = batch.last().unwrap().0.as_str();
                let ctx = Context::new();
                for t in [target, name] {
                    match guarded(|| inst.render(t, &ctx)) {
                        Ok(Ok(_)) => rk = 0,
                        Ok(Err(e)) => {
                            r.check_display(&e, "render", acc, &case);
                            rk = kind_index(kind_tag(e.kind()));
                        }
                        Err(p) => {
                            acc.violation(panic_sig("render", &p), format!("render panicked (names): {p}"), case);
                            rk = 10;
                        }
                    }
                }
                if v == 11 {
                    // a one-off template that includes the registered name
                    let src = sp(&format!("{{% include {q} %}}"));
                    match guarded(|| inst.render_str(&src, &ctx, true)) {
                        Ok(Ok(_)) => {}
                        Ok(Err(e)) => r.check_display(&e, "render_str", acc, &case),
                        Err(p) => acc.violation(panic_sig("render_str", &p), format!("render_str panicked (names): {p}"), case),
                    }
                }
            }
            // the same sources as one-off templates
            for (_, s) in &batch {
                r.render_str(s, true, acc, &case);
            }
            acc.case(true, &format!("add:{}/render:{}", KINDS[a], if a == 0 { KINDS[rk] } else { "-" }));
            if item == 5 {
                acc.sample(case);
            }
        });
    }

    // ---------------------------------------------------------------- guards
    if run.is_supervisor() {
        for f in ["chars", "tokens", "intag", "intag2", "seeds-1dev"] {
            let ok = run.outcome(f, "add:ok/render_str:ok");
            let syn = run.outcome(f, "add:SyntaxError/render_str:SyntaxError");
            run.guard(&format!("{f}-both-outcomes"), ok > 0 && syn > 0, format!("accepted by both entry points: {ok}; syntax error at both: {syn}"));
        }
        run.guard("snapshot-seeds-found", n_snap >= 200, format!("{n_snap} files under {repo}/tera/src/snapshot_tests/*_inputs"));
        // the splitter is lossless and the hand-written seeds are valid under the three well-formed sets
        let lossless = all_seeds.iter().all(|s| {
            s.templates.iter().all(|(_, t)| seeds::split(&seeds::print(t, &delim_toks[d0])) == *t)
        });
        run.guard("seed-splitter-stable", lossless, "print(split(s)) splits back to the same pieces for every seed".into());
        let n_hand = all_seeds.iter().filter(|s| s.id.starts_with("hand/")).count() as u64;
        let hand_ok = run.counter("hand-seed-accepted");
        run.guard(
            "hand-seeds-valid",
            hand_ok == 3 * n_hand,
            format!("{hand_ok} of {} (hand-written seed, D0/D1/D2) registrations of the unmodified seed succeed (rejected ones are named in the seeds-1dev counters)", 3 * n_hand),
        );
        let base_ok = run.counter("pump-base-accepted");
        let expect_ok: u64 = prods.iter().map(|p| pump::NS.iter().filter(|n| **n <= p.min_ok).count() as u64).sum::<u64>() * 2 * 2;
        run.guard(
            "pump-base-cases-accepted",
            base_ok == expect_ok,
            format!("{base_ok} of {expect_ok} (production, N <= 2, D0/D2, stack) base cases register: every pumped production is valid before it is pumped"),
        );
        let refused = run.counter("nesting-beyond-limit-refused");
        let expect_refused: u64 =
            prods.iter().filter_map(|p| p.limit.map(|l| pump::NS.iter().filter(|n| **n > l).count() as u64)).sum::<u64>() * 2 * 2 * 2;
        run.guard(
            "nesting-limit-exercised",
            refused > 0 && refused <= expect_refused,
            format!("{refused} of {expect_refused} (nested production, N > limit, entry, D0/D2, stack) cases were refused with a syntax error"),
        );
        // what kind of process death is a pumped-input crash? Re-run one canonical input with stderr captured.
        if let Some(idx) = long_chains.iter().position(|it| prods[it.prod].name == "elif" && it.n == 100_000 && it.entry == Entry::Add) {
            let fam = format!("pump-chain-{}-8MiB", idx / 36 + 1);
            let local = (idx % 36) as u64;
            let out = std::process::Command::new(std::env::current_exe().expect("current exe"))
                .args([run.tier.name(), "--worker", &fam, "0", "1", &local.to_string(), &(local + 1).to_string(), "1"])
                .output();
            let (ok, detail) = match out {
                Ok(o) if o.status.success() => (true, "the probe input (elif chain, N=100000, add_raw_templates, 8 MiB) did not crash".to_string()),
                Ok(o) => {
                    let err = String::from_utf8_lossy(&o.stderr);
                    let line = err.lines().find(|l| l.contains("overflowed its stack")).unwrap_or("").to_string();
                    (!line.is_empty(), format!("probe input (elif chain, N=100000, add_raw_templates, 8 MiB): {} ; stderr: {line:?}", o.status))
                }
                Err(e) => (false, format!("cannot run the probe: {e}")),
            };
            run.guard("pumped-crash-is-stack-overflow", ok, detail);
        }
        run.extra("two_deviation_seeds", json!(short.iter().map(|i| all_seeds[*i].id.clone()).collect::<Vec<_>>()));
    }
    run.finish();
}

#[allow(dead_code)]
fn _unused(_: &Tok) {}
