//! Delimiter sets and the character / token alphabets of the totality check (C06).
//!
//! Self-contained (std + tera only) so that other checks can include it with
//! `#[path = "../c06/dsets.rs"] mod dsets;`.
#![allow(dead_code)]

use std::borrow::Cow;

/// One delimiter configuration. Every delimiter is exactly two BYTES (what
/// `Delimiters::validate` demands) and the three start delimiters are pairwise distinct.
#[derive(Clone, Copy, Debug, PartialEq, Eq)]
pub struct DSet {
    pub id: &'static str,
    pub what: &'static str,
    pub vs: &'static str,
    pub ve: &'static str,
    pub bs: &'static str,
    pub be: &'static str,
    pub cs: &'static str,
    pub ce: &'static str,
}

impl DSet {
    pub fn delimiters(&self) -> tera::Delimiters {
        tera::Delimiters {
            block_start: Cow::Borrowed(self.bs),
            block_end: Cow::Borrowed(self.be),
            variable_start: Cow::Borrowed(self.vs),
            variable_end: Cow::Borrowed(self.ve),
            comment_start: Cow::Borrowed(self.cs),
            comment_end: Cow::Borrowed(self.ce),
        }
    }

    /// A fresh engine configured with this set; `Err` if `set_delimiters` refuses it.
    pub fn tera(&self) -> Result<tera::Tera, String> {
        let mut t = tera::Tera::default();
        t.set_delimiters(self.delimiters()).map_err(|e| e.to_string())?;
        Ok(t)
    }

    pub fn show(&self) -> String {
        format!(
            "{}: variable {:?} {:?}, block {:?} {:?}, comment {:?} {:?} ({})",
            self.id, self.vs, self.ve, self.bs, self.be, self.cs, self.ce, self.what
        )
    }

    /// True when the source can make the lexer leave the plain-text state.
    pub fn has_start_marker(&self, src: &str) -> bool {
        src.contains(self.vs) || src.contains(self.bs) || src.contains(self.cs)
    }

    /// The twelve delimiter spellings (plain and with the `-` whitespace marker).
    pub fn delimiter_tokens(&self) -> Vec<String> {
        vec![
            self.vs.to_string(),
            format!("{}-", self.vs),
            self.ve.to_string(),
            format!("-{}", self.ve),
            self.bs.to_string(),
            format!("{}-", self.bs),
            self.be.to_string(),
            format!("-{}", self.be),
            self.cs.to_string(),
            format!("{}-", self.cs),
            self.ce.to_string(),
            format!("-{}", self.ce),
        ]
    }
}

/// D0 default, D1 the documented alternative, D2 two-byte single characters, D3* degenerate sets
/// that `set_delimiters` accepts.
pub fn all() -> Vec<DSet> {
    vec![
        DSet { id: "D0", what: "default", vs: "{{", ve: "}}", bs: "{%", be: "%}", cs: "{#", ce: "#}" },
        DSet { id: "D1", what: "the set of the set_delimiters doc example", vs: "<<", ve: ">>", bs: "<%", be: "%>", cs: "<#", ce: "#>" },
        DSet { id: "D2", what: "each delimiter is one two-byte character", vs: "¶", ve: "§", bs: "«", be: "»", cs: "¤", ce: "¦" },
        DSet { id: "D3eq", what: "all three end delimiters equal", vs: "{{", ve: "}}", bs: "{%", be: "}}", cs: "{#", ce: "}}" },
        DSet { id: "D3dash", what: "delimiters containing the whitespace marker `-`", vs: "{-", ve: "-}", bs: "--", be: "--", cs: "#-", ce: "-#" },
        DSet { id: "D3quote", what: "delimiters containing the three string quotes", vs: "{\"", ve: "\"}", bs: "{'", be: "'}", cs: "{`", ce: "`}" },
        DSet { id: "D3alnum", what: "delimiters containing digits and letters", vs: "{1", ve: "1}", bs: "a1", be: "1a", cs: "11", ce: "1#" },
        DSet { id: "D3ws", what: "delimiters containing a space / a newline", vs: "{ ", ve: "} ", bs: "% ", be: " %", cs: "#\n", ce: "\n#" },
        DSet { id: "D3same", what: "start delimiter equal to its own end delimiter", vs: "||", ve: "||", bs: "%%", be: "%%", cs: "##", ce: "##" },
        DSet { id: "D3swap", what: "the default delimiters with start and end exchanged", vs: "}}", ve: "{{", bs: "%}", be: "{%", cs: "#}", ce: "{#" },
    ]
}

/// The 28 characters of DESIGN §4 C06.
pub const BASE_CHARS: [&str; 28] = [
    "{", "}", "%", "#", "-", "\"", "'", "\\", "`", "a", "1", ".", " ", "\n", "é", "日", "😀", "«", "|", "<", ">", "/",
    "[", "]", "(", ")", ":", "=",
];

/// Character alphabet under a delimiter set: the base characters plus every character that occurs
/// in a delimiter of the set and is not a base character (only D2 adds any: 33 characters).
pub fn char_alphabet(d: &DSet) -> Vec<String> {
    let mut out: Vec<String> = BASE_CHARS.iter().map(|s| s.to_string()).collect();
    for delim in [d.vs, d.ve, d.bs, d.be, d.cs, d.ce] {
        for c in delim.chars() {
            let s = c.to_string();
            if !out.contains(&s) {
                out.push(s);
            }
        }
    }
    out
}

/// The name every Σ* input is registered under; the string token `"a"` makes self-include and
/// self-extends expressible.
pub const TPL_NAME: &str = "a";

/// Tokens that are meaningful inside a tag (independent of the delimiter set).
pub fn intag_tokens() -> Vec<String> {
    let kw = [
        "if", "elif", "else", "endif", "for", "in", "endfor", "set", "endset", "block", "endblock", "extends",
        "include", "filter", "endfilter", "component", "endcomponent", "raw", "endraw", "break", "continue", "not", "and", "or",
        "is", "true", "false", "none", "loop", "super",
    ];
    let ops = [
        "+", "-", "*", "/", "//", "%", "**", "==", "!=", "<", "<=", ">", ">=", "~", "|", "=", ".", ",", ":", "(", ")", "[", "]",
        "{", "}", "...", "?.", "?[", "</", "/>",
    ];
    let lits = [
        "1",
        "1.5",
        "99999999999999999999", // 20 digits: does not fit i64
        "\"a\"",                // the template's own name
        "'x\\n'",               // valid escape
        "\"\\q\"",              // invalid escape
        "`b`",                  // backtick string
        "\"",                   // a lone quote: unterminated string
    ];
    let idents = ["a", "b", "upper", "defined"];
    let mut v: Vec<String> = vec![];
    v.extend(kw.iter().map(|s| s.to_string()));
    v.extend(ops.iter().map(|s| s.to_string()));
    v.extend(lits.iter().map(|s| s.to_string()));
    v.extend(idents.iter().map(|s| s.to_string()));
    v
}

/// Text pieces that only make sense outside tags.
pub fn text_tokens() -> Vec<String> {
    // NBSP and EM SPACE: white space to Unicode but not to the lexer, two and three bytes long
    // (seeded change C06-15: the in-tag white-space skip counted characters, then split at bytes)
    ["x", " ", "\n", "é", "😀", "\\", "\u{a0}", "\u{2003}"].iter().map(|s| s.to_string()).collect()
}

/// Full token alphabet under a delimiter set: 12 delimiter spellings + in-tag tokens + text pieces.
pub fn token_alphabet(d: &DSet) -> Vec<String> {
    let mut v = d.delimiter_tokens();
    v.extend(intag_tokens());
    v.extend(text_tokens());
    v
}

/// Number of strings of length 0..=max over an alphabet of `a` symbols.
pub fn count_upto(a: u64, max: u32) -> u64 {
    (0..=max).map(|l| a.pow(l)).sum()
}

/// Decodes `idx` (0-based, shortest first, then lexicographic in alphabet order) into the symbol
/// indices of one string of length 0..=max. Inverse of the obvious enumeration.
pub fn decode_seq(mut idx: u64, a: u64, max: u32) -> Vec<usize> {
    let mut len = 0u32;
    loop {
        let n = a.pow(len);
        if idx < n {
            break;
        }
        idx -= n;
        len += 1;
        assert!(len <= max, "sequence index out of range");
    }
    let mut out = vec![0usize; len as usize];
    for slot in out.iter_mut().rev() {
        *slot = (idx % a) as usize;
        idx /= a;
    }
    out
}
