//! Seed templates (the repository's own snapshot inputs plus short hand-written valid programs),
//! a lossless lexical splitter for them, and the k-deviation operators.
//!
//! Self-contained (std only) so that other checks can include it with `#[path = ...]`.
#![allow(dead_code)]

use std::path::{Path, PathBuf};

/// One lexical piece of a seed written with the DEFAULT delimiters.
#[derive(Clone, Debug, PartialEq, Eq)]
pub enum Tok {
    /// Index into `DSet::delimiter_tokens()`: vs, vs-, ve, -ve, bs, bs-, be, -be, cs, cs-, ce, -ce.
    Delim(usize),
    Text(String),
}

pub const DEFAULT_DELIMS: [&str; 12] = ["{{", "{{-", "}}", "-}}", "{%", "{%-", "%}", "-%}", "{#", "{#-", "#}", "-#}"];

/// Splits a source into pieces whose concatenation is exactly the source. The split is purely
/// lexical (the same rules inside and outside tags): delimiters (with their `-` marker),
/// identifiers, numbers, closed strings, whitespace runs, multi-character operators, single
/// characters.
pub fn split(src: &str) -> Vec<Tok> {
    let b = src.as_bytes();
    let mut out = vec![];
    let mut p = 0;
    const OPS3: [&str; 1] = ["..."];
    const OPS2: [&str; 10] = ["//", "**", "==", "!=", "<=", ">=", "</", "/>", "?.", "?["];
    'outer: while p < b.len() {
        let rest = &src[p..];
        // three-byte delimiter forms first, then the two-byte ones
        for pass in 0..2 {
            for (i, d) in DEFAULT_DELIMS.iter().enumerate() {
                if (d.len() == 3) == (pass == 0) && rest.starts_with(d) {
                    out.push(Tok::Delim(i));
                    p += d.len();
                    continue 'outer;
                }
            }
        }
        let c = b[p];
        let len = if c == b'_' || c.is_ascii_alphabetic() {
            rest.bytes().take_while(|x| *x == b'_' || x.is_ascii_alphanumeric()).count()
        } else if c.is_ascii_digit() {
            let mut dot = false;
            rest.bytes()
                .take_while(|x| {
                    if *x == b'.' && !dot {
                        dot = true;
                        true
                    } else {
                        x.is_ascii_digit()
                    }
                })
                .count()
        } else if c.is_ascii_whitespace() {
            rest.bytes().take_while(|x| x.is_ascii_whitespace()).count()
        } else if c == b'"' || c == b'\'' || c == b'`' {
            // a string only if it closes on the same line within 120 bytes
            let mut esc = false;
            let mut found = None;
            for (i, x) in rest.bytes().enumerate().skip(1).take(120) {
                if esc {
                    esc = false;
                    continue;
                }
                if x == b'\\' {
                    esc = true;
                } else if x == c {
                    found = Some(i + 1);
                    break;
                } else if x == b'\n' {
                    break;
                }
            }
            found.unwrap_or(1)
        } else if OPS3.iter().any(|o| rest.starts_with(o)) {
            3
        } else if OPS2.iter().any(|o| rest.starts_with(o)) {
            2
        } else {
            rest.chars().next().unwrap().len_utf8()
        };
        out.push(Tok::Text(rest[..len].to_string()));
        p += len;
    }
    out
}

/// Prints pieces with the delimiter spellings of a set (`delims` = `DSet::delimiter_tokens()`).
pub fn print(toks: &[Tok], delims: &[String]) -> String {
    let mut s = String::new();
    for t in toks {
        match t {
            Tok::Delim(i) => s.push_str(&delims[*i]),
            Tok::Text(t) => s.push_str(t),
        }
    }
    s
}

#[derive(Clone, Debug)]
pub struct Seed {
    /// Where it comes from (path relative to snapshot_tests, or `hand/<n>`).
    pub id: String,
    /// (template name, pieces). More than one entry for the `$$ name` multi-template files.
    pub templates: Vec<(String, Vec<Tok>)>,
}

impl Seed {
    pub fn n_tokens(&self) -> usize {
        self.templates.iter().map(|t| t.1.len()).sum()
    }
    /// (template index, token index) of every piece, in order.
    pub fn positions(&self) -> Vec<(usize, usize)> {
        let mut v = vec![];
        for (ti, t) in self.templates.iter().enumerate() {
            for k in 0..t.1.len() {
                v.push((ti, k));
            }
        }
        v
    }
}

/// The snapshot tests' own convention (snapshot_tests/utils.rs::split_multi_templates): a file is
/// `$$ name\nbody\n$$ name2\nbody2`; bodies are trimmed.
pub fn split_multi_templates(body: &str) -> Vec<(String, String)> {
    let mut tpls = vec![];
    for part in body.split("$$ ").skip(1) {
        let (name, content) = match part.split_once('\n') {
            Some((n, c)) => (n.to_string(), c.trim().to_string()),
            None => (part.to_string(), String::new()),
        };
        tpls.push((name, content));
    }
    tpls
}

fn walk(dir: &Path, out: &mut Vec<PathBuf>) {
    let Ok(rd) = std::fs::read_dir(dir) else { return };
    let mut entries: Vec<PathBuf> = rd.filter_map(|e| e.ok().map(|e| e.path())).collect();
    entries.sort();
    for p in entries {
        if p.is_dir() {
            walk(&p, out);
        } else {
            out.push(p);
        }
    }
}

/// Every file under `<repo>/tera/src/snapshot_tests/*_inputs`, sorted by path; CRLF normalised
/// the way the snapshot tests do; `$$` files split into their templates.
pub fn snapshot_seeds(repo: &str) -> Vec<Seed> {
    let root = Path::new(repo).join("tera/src/snapshot_tests");
    let mut dirs: Vec<PathBuf> = match std::fs::read_dir(&root) {
        Ok(rd) => rd
            .filter_map(|e| e.ok().map(|e| e.path()))
            .filter(|p| p.is_dir() && p.file_name().map(|n| n.to_string_lossy().ends_with("_inputs")).unwrap_or(false))
            .collect(),
        Err(_) => vec![],
    };
    dirs.sort();
    let mut files = vec![];
    for d in dirs {
        walk(&d, &mut files);
    }
    let mut seeds = vec![];
    for f in files {
        let Ok(raw) = std::fs::read_to_string(&f) else { continue };
        let body = raw.replace("\r\n", "\n");
        let id = f.strip_prefix(&root).unwrap_or(&f).to_string_lossy().to_string();
        let templates = if body.starts_with("$$ ") {
            split_multi_templates(&body).into_iter().map(|(n, c)| (n, split(&c))).collect()
        } else {
            let name = f.file_name().unwrap().to_string_lossy().to_string();
            vec![(name, split(&body))]
        };
        seeds.push(Seed { id, templates });
    }
    seeds
}

/// Short valid programs, one per construct of the language (the valid programs of C02–C05 are
/// not built yet; these stand in for them). Every one registers under the default delimiters
/// (asserted by a vacuity guard of the check).
pub fn hand_seeds() -> Vec<Seed> {
    let single: &[&str] = &[
        "{{ a }}",
        "{{ a.b.c }}",
        "{{ a[0] }}{{ a[\"k\"] }}{{ a[1:2] }}{{ a[::-1] }}",
        "{{ a?.b }}{{ a?[0] }}",
        "{{ 1 + 2 * 3 - 4 / 5 // 6 % 7 ** 2 }}",
        "{{ a ~ \"x\" ~ 1 }}",
        "{{ a and b or not c }}",
        "{{ a == 1 }}{{ a != 1 }}{{ a < 1 }}{{ a >= 1 }}",
        "{{ a in [1, 2] }}{{ a not in b }}",
        "{{ a is defined }}{{ a is not defined }}{{ a is divisible_by(divisor=2) }}",
        "{{ a | upper }}{{ a | default(value=\"x\") | safe }}",
        "{{ \"x\" if a else \"y\" }}",
        "{{ [1, \"a\", 1.5, true, none] }}{{ [1, ...a] }}",
        "{{ {\"k\": 1, 2: [3], true: {\"z\": 0}, ...a} }}",
        "{{ [x * 2 for x in a if x] }}",
        "{{ -a }}{{ -1 ** 2 }}{{ (a) }}",
        "{{ range(end=2) }}",
        "{% if a %}x{% elif b %}y{% else %}z{% endif %}",
        "{% for x in a %}{{ loop.index }}{% if x %}{% break %}{% endif %}{% continue %}{% else %}e{% endfor %}",
        "{% for k, v in m %}{{ k }}{% endfor %}",
        "{% set x = 1 %}{% set_global y = a %}{{ x }}",
        "{% set x %}body{% endset %}{% set y | upper | trim %}b{% endset %}",
        "{% filter upper %}x{{ a }}{% endfilter %}",
        "{% filter replace(from=\"a\", to=\"b\") %}x{% endfilter %}",
        "{% block b %}x{% block c %}y{% endblock c %}{% endblock %}",
        "{% raw %}{{ x }}{% endraw %}",
        "{%- raw -%} x {%- endraw -%}",
        "{# comment #}x{#- c -#}",
        "a {{- a -}} b {%- if a -%} c {%- endif -%}",
        "{% component C(a, b: string = \"x\", c = [1], d: map = {\"k\": 1}, ...rest) {\"m\": 1} %}{{ a }}{{ body }}{% endcomponent C %}{{ <C a={1} b=\"y\" c={[2]} {...r} /> }}",
        "{% component C(a) %}{{ body }}{% endcomponent %}{% <C a={1}> %}x{% </C> %}",
        "{% component ui.B() %}x{% endcomponent ui.B %}{{ <ui.B/> }}",
        "{{ `b` ~ 'c' ~ \"d\\n\\t\\\\\\\"\" }}",
        "{{ 1.5 }}{{ 0 }}{{ 9223372036854775807 }}",
        "{{ true }}{{ False }}{{ None }}{{ null }}",
        "{{ __tera_context }}",
        "é{{ \"日\" }}😀",
        // a loop whose body holds an if / elif, followed by text and a second loop (what a misplaced
        // tag right after the first loop meets: seeded change C06-12 left the parser's context stack
        // one entry too deep after every `elif`)
        "{% for x in a %}{% if x %}1{% elif b %}2{% else %}3{% endif %}{% endfor %}z{% for y in a %}{{ y }}{% endfor %}",
        // loops and a comprehension over string LITERALS with multi-byte characters (render_str runs
        // them with an empty context; seeded change C06-14 counted the characters left in bytes and
        // the loop never ended)
        "{% for c in \"é日😀\" %}{{ c }}{% endfor %}{{ [c for c in \"aé\"] }}{% for c in \"\" %}{% else %}e{% endfor %}",
    ];
    let multi: &[&[(&str, &str)]] = &[
        &[("p", "{% block b %}P{% endblock %}"), ("c", "{% extends \"p\" %}{% block b %}{{ super() }}{% endblock %}")],
        &[("i", "I{{ a }}"), ("m", "{% include \"i\" %}")],
    ];
    let mut seeds = vec![];
    for (n, s) in single.iter().enumerate() {
        seeds.push(Seed { id: format!("hand/{n:02}"), templates: vec![(format!("hand{n:02}.html"), split(s))] });
    }
    for (n, m) in multi.iter().enumerate() {
        seeds.push(Seed {
            id: format!("hand/multi{n}"),
            templates: m.iter().map(|(name, s)| (name.to_string(), split(s))).collect(),
        });
    }
    seeds
}

/// One single-token deviation.
#[derive(Clone, Copy, Debug, PartialEq, Eq)]
pub enum Op {
    Delete,
    Duplicate,
    /// Replace by entry `j` of the menu.
    Replace(usize),
}

pub const MENU_LEN: usize = 12;
/// Number of single-token operators: delete, duplicate, 12 replacements.
pub const N_OPS: usize = 2 + MENU_LEN;

pub fn op_of(i: usize) -> Op {
    match i {
        0 => Op::Delete,
        1 => Op::Duplicate,
        j => Op::Replace(j - 2),
    }
}

/// The 12-token replacement menu: the six delimiters, a lone quote, the whitespace marker /
/// minus, a multi-byte character, an opening parenthesis, a pipe, a structural keyword.
pub fn menu() -> [Tok; MENU_LEN] {
    [
        Tok::Delim(0),
        Tok::Delim(2),
        Tok::Delim(4),
        Tok::Delim(6),
        Tok::Delim(8),
        Tok::Delim(10),
        Tok::Text("\"".into()),
        Tok::Text("-".into()),
        Tok::Text("é".into()),
        Tok::Text("(".into()),
        Tok::Text("|".into()),
        Tok::Text("else".into()),
    ]
}

/// Applies deviations (position in `toks`, op) — positions strictly increasing — to a piece list.
pub fn apply(toks: &[Tok], devs: &[(usize, Op)], menu: &[Tok; MENU_LEN]) -> Vec<Tok> {
    let mut out = Vec::with_capacity(toks.len() + devs.len());
    let mut d = 0;
    for (i, t) in toks.iter().enumerate() {
        if d < devs.len() && devs[d].0 == i {
            match devs[d].1 {
                Op::Delete => {}
                Op::Duplicate => {
                    out.push(t.clone());
                    out.push(t.clone());
                }
                Op::Replace(j) => out.push(menu[j].clone()),
            }
            d += 1;
        } else {
            out.push(t.clone());
        }
    }
    out
}
