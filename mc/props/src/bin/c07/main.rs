//! C07 — rendering accepted templates never panics; all references are checked at add time;
//! the VM's stacks are empty after a successful render; the output is valid UTF-8.
//!
//! Families:
//!   kind-matrix-1 / -2  every expression / statement constructor ("shape"), every operand slot
//!                       bound to every value of the alphabet V while the other slots keep a
//!                       well-typed default (1 deviation; thorough: all pairs of slots, 2 deviations)
//!   reference-matrix    every reference kind (filter, test, function, component, include target,
//!                       parent, child block) with an unknown name at every syntactic position:
//!                       must be refused by add_raw_templates / render_str, never reach rendering
//!   chains              include / extends / alternating chains of length 1..=32, on an 8 MiB and
//!                       on a 2 MiB stack
//!   reuse-*             program spaces of other checks re-run under the totality oracle

mod shapes;
#[path = "../c11/graph.rs"]
#[allow(dead_code)]
mod graph;
#[path = "../c02/expr.rs"]
#[allow(dead_code, unused_imports, unused_variables)]
mod expr;
#[path = "../c03/stmt.rs"]
#[allow(dead_code, unused_imports, unused_variables)]
mod stmt;

use mccore::engine::{self, Out};
use mccore::vals::{self, V};
use mccore::{Acc, Family, Run, json};
use tera::{Context, Tera};

pub struct Program {
    pub templates: Vec<(String, String)>,
    pub entry: String,
    pub blocks: Vec<String>,
    pub components: Vec<String>,
}

/// Totality oracle for one (instance, context): render, render_to, render_block, render_component.
fn totality(
    tera: &Tera,
    prog: &Program,
    ctx: &Context,
    acc: &mut Acc,
    family: &str,
    what: &str,
    nontrivial: bool,
    case: &dyn Fn() -> mccore::Json,
) {
    let _ = tera::verif::take_residue();
    // render_to: raw bytes must be valid UTF-8
    let mut buf: Vec<u8> = Vec::new();
    let r = engine::guarded(|| tera.render_to(&prog.entry, ctx, &mut buf));
    let (residue, checks) = tera::verif::take_residue();
    let out = match r {
        Ok(Ok(())) => {
            acc.count("residue_checks", checks);
            if let Some(res) = residue {
                acc.violation(
                    format!("stack-residue:{what}"),
                    format!("after a successful render (value stack, loop stack, capture stack) = {res:?}"),
                    case,
                );
            }
            if checks == 0 {
                acc.violation("residue-hook-silent", "no end-of-render check ran", case);
            }
            match String::from_utf8(buf) {
                Ok(s) => Out::Ok(s),
                Err(_) => {
                    acc.violation(format!("invalid-utf8:{what}"), "render_to wrote bytes that are not valid UTF-8", case);
                    Out::Ok(String::new())
                }
            }
        }
        Ok(Err(e)) => Out::Err(engine::kind_tag(e.kind()).to_string(), engine::err_message(&e)),
        Err(p) => Out::Panic(p),
    };
    if let Out::Panic(p) = &out {
        acc.violation(format!("panic:{what}"), format!("render panicked: {p}"), case);
    }
    if let Out::Err(k, m) = &out
        && (k == "Utf8Conversion" || m.contains("not properly finalized") || m.contains("Unknown "))
    {
        // an accepted template must not discover a missing reference at render time
        acc.violation(
            format!("render-time-reference-error:{what}"),
            format!("render returned {}", out.show()),
            case,
        );
    }
    acc.case(nontrivial, out.class());
    // the String API must agree
    let s = engine::render(tera, &prog.entry, ctx);
    if s.coarse() != out.coarse() && !(s.is_err() && out.is_err()) {
        acc.violation(format!("render-vs-render_to:{what}"), format!("render {} / render_to {}", s.show(), out.show()), case);
    }
    for b in &prog.blocks {
        let r = engine::render_block(tera, &prog.entry, b, ctx);
        let (residue, _) = tera::verif::take_residue();
        if let Out::Panic(p) = &r {
            acc.violation(format!("panic:render_block:{what}"), format!("render_block({b}) panicked: {p}"), case);
        }
        if r.is_ok()
            && let Some(res) = residue
        {
            acc.violation(format!("stack-residue:render_block:{what}"), format!("after render_block({b}): {res:?}"), case);
        }
        acc.case(nontrivial, r.class());
    }
    for c in &prog.components {
        for autoescape in [true, false] {
            let r = engine::to_out(engine::guarded(|| tera.render_component(c, ctx, Some("<b>"), autoescape)));
            let (residue, _) = tera::verif::take_residue();
            if let Out::Panic(p) = &r {
                acc.violation(format!("panic:render_component:{what}"), format!("render_component({c}) panicked: {p}"), case);
            }
            if r.is_ok()
                && let Some(res) = residue
            {
                acc.violation(format!("stack-residue:render_component:{what}"), format!("after render_component({c}): {res:?}"), case);
            }
            acc.case(nontrivial, r.class());
        }
    }
    let _ = family;
}

fn build(prog: &Program) -> Result<Tera, Out> {
    let mut t = Tera::default();
    match engine::add_templates(&mut t, &prog.templates) {
        Out::Ok(_) => Ok(t),
        o => Err(o),
    }
}

fn bind(slots: &[V; 3]) -> Context {
    let mut c = vals::context(&[("v1", &slots[0]), ("v2", &slots[1]), ("v3", &slots[2])]);
    c.insert("xs", &vec![1, 2, 3]);
    c
}

fn main() {
    let mut run = Run::from_env("C07", "exploration");
    let thorough = run.tier.is_thorough();
    run.rule(
        "kind-matrix: one case per (shape, slot binding, API call); the slot(s) under deviation take every value of V \
         (every kind: undefined, none, bools, every integer encoding and 128-bit extreme, NaN/inf floats, inline/heap/safe strings, \
         bytes incl. invalid UTF-8, arrays, maps on both sides of the 6-entry cut-over, a map holding undefined, depth-64 nesting); \
         non-trivial = the deviating value's kind differs from the slot's well-typed default kind. \
         reference-matrix: one case per (reference kind, position, API); non-trivial always. chains: one case per (chain kind, length, stack). \
         Cases are distinct by construction.",
    );
    run.assume("value nesting beyond depth 64 not explored; `no hang` is a wall-clock judgement (kernel hang detector)");
    run.assume("from_utf8_unchecked soundness is observed through output validity only");

    let shapes = shapes::all();
    let alphabet = vals::alphabet_v();
    let nv = alphabet.len() as u64;
    run.extra("shapes", json!(shapes.iter().map(|s| s.src.clone()).collect::<Vec<_>>()));
    run.extra("value_alphabet_size", json!(nv));

    // ------------------------------------------------------------ shape self-test
    // (a family like any other: the supervisor itself never runs the subject)
    run.family(
        Family::new("shape-self-test", shapes.len() as u64, "every shape with its well-typed defaults").timeout(20.0),
        |item, acc: &mut Acc| {
            let s = &shapes[item as usize];
            let prog = s.program();
            let verdict = match build(&prog) {
                Ok(t) => {
                    let ctx = bind(&s.defaults);
                    let r = engine::render(&t, &prog.entry, &ctx);
                    if r.is_ok() { None } else { Some(r.show()) }
                }
                Err(e) => Some(format!("add failed {}", e.show())),
            };
            match verdict {
                None => acc.case(true, "renders-with-defaults"),
                Some(why) => {
                    acc.case(true, "broken-shape");
                    acc.count(&format!("broken-shape|{}|{}", s.src, why), 1);
                }
            }
        },
    );
    if run.is_supervisor() {
        let broken = run.outcome("shape-self-test", "broken-shape");
        let fine = run.outcome("shape-self-test", "renders-with-defaults");
        run.guard(
            "every-shape-renders-with-its-defaults",
            broken == 0 && fine > 0,
            format!("{broken} of {} shapes do not render Ok with well-typed defaults (see the `broken-shape|…` counters of family shape-self-test)", shapes.len()),
        );
    }

    // ------------------------------------------------------------ kind-matrix-1
    let slot_items: Vec<(usize, usize)> = shapes
        .iter()
        .enumerate()
        .flat_map(|(i, s)| (0..s.slots).map(move |k| (i, k)))
        .collect();
    run.family(
        Family::new(
            "kind-matrix-1",
            slot_items.len() as u64,
            &format!("{} shapes, every operand slot x all {} values of V (1 deviation from the well-typed default), autoescape on", shapes.len(), nv),
        ),
        |item, acc: &mut Acc| {
            let (si, slot) = slot_items[item as usize];
            let s = &shapes[si];
            let prog = s.program();
            let Ok(t) = build(&prog) else { return };
            for v in &alphabet {
                let mut b = s.defaults.clone();
                b[slot] = v.clone();
                let ctx = bind(&b);
                let nontrivial = v.kind() != s.defaults[slot].kind();
                let what = format!("shape{si}");
                totality(&t, &prog, &ctx, acc, "kind-matrix-1", &what, nontrivial, &|| {
                    json!({"templates": prog.templates, "entry": prog.entry, "slot": format!("v{}", slot + 1),
                           "v1": b[0].describe(), "v2": b[1].describe(), "v3": b[2].describe()})
                });
            }
            acc.sample(|| json!({"shape": s.src, "slot": slot + 1, "values": "all of V"}));
        },
    );

    // ------------------------------------------------------------ kind-matrix-2 (thorough)
    {
        let pair_items: Vec<(usize, usize, usize, usize)> = shapes
            .iter()
            .enumerate()
            .flat_map(|(i, s)| {
                let mut v = vec![];
                for a in 0..s.slots {
                    for b in (a + 1)..s.slots {
                        for va in 0..alphabet.len() {
                            v.push((i, a, b, va));
                        }
                    }
                }
                v
            })
            .collect();
        run.family(
            Family::new(
                "kind-matrix-2",
                pair_items.len() as u64,
                &format!("every pair of operand slots of every shape x V x V (2 deviations), {} x {} values", nv, nv),
            ),
            |item, acc: &mut Acc| {
                let (si, sa, sb, va) = pair_items[item as usize];
                let s = &shapes[si];
                let prog = s.program();
                let Ok(t) = build(&prog) else { return };
                for vb in &alphabet {
                    let mut b = s.defaults.clone();
                    b[sa] = alphabet[va].clone();
                    b[sb] = vb.clone();
                    let ctx = bind(&b);
                    let nontrivial = b[sa].kind() != s.defaults[sa].kind() && vb.kind() != s.defaults[sb].kind();
                    let what = format!("shape{si}");
                    totality(&t, &prog, &ctx, acc, "kind-matrix-2", &what, nontrivial, &|| {
                        json!({"templates": prog.templates, "entry": prog.entry,
                               "v1": b[0].describe(), "v2": b[1].describe(), "v3": b[2].describe()})
                    });
                }
            },
        );
    }

    // ------------------------------------------------------------ kind-matrix-3 (thorough)
    if thorough {
        let small = vals::alphabet_small();
        let ns = small.len();
        let triple_items: Vec<(usize, usize, usize)> = shapes
            .iter()
            .enumerate()
            .filter(|(_, s)| s.slots == 3)
            .flat_map(|(i, _)| (0..ns).flat_map(move |a| (0..ns).map(move |b| (i, a, b))))
            .collect();
        run.family(
            Family::new(
                "kind-matrix-3",
                triple_items.len() as u64,
                &format!("every 3-slot shape with all three slots deviating over the {ns}-value one-or-two-per-kind alphabet ({ns}^3 bindings per shape)"),
            ),
            |item, acc: &mut Acc| {
                let (si, va, vb) = triple_items[item as usize];
                let s = &shapes[si];
                let prog = s.program();
                let Ok(t) = build(&prog) else { return };
                for vc in &small {
                    let b = [small[va].clone(), small[vb].clone(), vc.clone()];
                    let ctx = bind(&b);
                    let nontrivial = (0..3).all(|k| b[k].kind() != s.defaults[k].kind());
                    let what = format!("shape{si}");
                    totality(&t, &prog, &ctx, acc, "kind-matrix-3", &what, nontrivial, &|| {
                        json!({"templates": prog.templates, "entry": prog.entry,
                               "v1": b[0].describe(), "v2": b[1].describe(), "v3": b[2].describe()})
                    });
                }
            },
        );
    }

    // ------------------------------------------------------------ reference-matrix
    let refs = shapes::reference_matrix();
    run.extra("reference_positions", json!(refs.iter().map(|r| format!("{}@{}", r.kind, r.position)).collect::<Vec<_>>()));
    run.family(
        Family::new(
            "reference-matrix",
            refs.len() as u64,
            &format!("{} (reference kind, syntactic position) pairs with an unknown name, through add_raw_templates and render_str", refs.len()),
        ),
        |item, acc: &mut Acc| {
            let r = &refs[item as usize];
            let case = || json!({"kind": r.kind, "position": r.position, "templates": r.templates, "entry": r.entry});
            let mut t = Tera::default();
            let add = engine::add_templates(&mut t, &r.templates);
            match &add {
                Out::Err(..) => {}
                Out::Panic(p) => acc.violation(format!("panic:add:{}", r.kind), format!("add_raw_templates panicked: {p}"), case),
                Out::Ok(_) => {
                    // accepted although a referenced name does not exist
                    let ctx = bind(&[V::I64(1), V::I64(2), V::I64(3)]);
                    let rr = engine::render(&t, &r.entry, &ctx);
                    acc.violation(
                        format!("unknown-{}-accepted:{}", r.kind, r.position),
                        format!("a set referencing an unknown {} was accepted at add time; render then gave {}", r.kind, rr.show()),
                        case,
                    );
                }
            }
            acc.case(true, add.class());
            // the control: the same set with the name defined must be accepted (otherwise the
            // rejection above proves nothing)
            if let Some(ctrl) = &r.control {
                let mut t2 = Tera::default();
                t2.register_filter("known_f", |v: tera::Value, _: tera::Kwargs, _: &tera::State| v);
                t2.register_test("known_t", |_: tera::Value, _: tera::Kwargs, _: &tera::State| true);
                t2.register_function("known_fn", |_: tera::Kwargs, _: &tera::State| tera::Value::from(1));
                let add2 = engine::add_templates(&mut t2, ctrl);
                if !add2.is_ok() {
                    acc.violation(
                        format!("control-rejected:{}:{}", r.kind, r.position),
                        format!("the control set (same position, name defined) was refused: {}", add2.show()),
                        || json!({"kind": r.kind, "position": r.position, "templates": ctrl}),
                    );
                } else {
                    let ctx = bind(&[V::I64(1), V::I64(2), V::I64(3)]);
                    let prog = Program { templates: ctrl.clone(), entry: r.entry.clone(), blocks: vec![], components: vec![] };
                    totality(&t2, &prog, &ctx, acc, "reference-matrix", "control", true, &|| json!({"templates": ctrl}));
                }
            }
            // render_str validates references too (single-template positions only)
            if r.templates.len() == 1 && !r.templates[0].1.contains("{% block") && !r.templates[0].1.contains("{% extends") {
                let t3 = Tera::default();
                let o = engine::render_str(&t3, &r.templates[0].1, &bind(&[V::I64(1), V::I64(2), V::I64(3)]), true);
                match &o {
                    Out::Err(k, m) => {
                        if k != "Msg" && k != "SyntaxError" && !m.contains("Unknown") {
                            acc.violation(
                                format!("unknown-{}-reached-render:render_str:{}", r.kind, r.position),
                                format!("render_str did not refuse the unknown name up front: {}", o.show()),
                                case,
                            );
                        }
                    }
                    Out::Ok(_) => acc.violation(
                        format!("unknown-{}-accepted:render_str:{}", r.kind, r.position),
                        "render_str rendered a template that references an unknown name".to_string(),
                        case,
                    ),
                    Out::Panic(p) => acc.violation(format!("panic:render_str:{}", r.kind), format!("render_str panicked: {p}"), case),
                }
                acc.case(true, o.class());
            }
            // The same references with the tags WRAPPED over several lines and indented, so that the
            // reported span ends on a later line at a smaller column than it starts: registration,
            // render_str and the printing of whatever error comes back must not panic. (Seeded
            // change C07-13 computed the underline of a report as end column - start column.)
            {
                let wrap = |s: &str| format!("          {}", s.replace('(', "(\n").replace(" />", "\n/>").replace(" | ", "\n| ").replace(" is ", "\nis "));
                let wrapped: Vec<(String, String)> = r.templates.iter().map(|(n, s)| (n.clone(), wrap(s))).collect();
                let wcase = || json!({"kind": r.kind, "position": r.position, "templates": wrapped, "entry": r.entry, "spelling": "tags wrapped over several lines, indented"});
                let mut t4 = Tera::default();
                let mut results: Vec<(&str, Result<tera::TeraResult<()>, String>)> =
                    vec![("add_raw_templates", engine::guarded(|| t4.add_raw_templates(wrapped.iter().map(|(n, s)| (n.as_str(), s.as_str())))))];
                if wrapped.len() == 1 {
                    let t5 = Tera::default();
                    results.push(("render_str", engine::guarded(|| t5.render_str(&wrapped[0].1, &bind(&[V::I64(1), V::I64(2), V::I64(3)]), true).map(|_| ()))));
                }
                for (call, res) in results {
                    match res {
                        Err(p) => acc.violation(format!("panic:{call}:wrapped:{}", r.kind), format!("{call} panicked: {p}"), wcase),
                        Ok(Err(e)) => {
                            if let Err(p) = engine::guarded(|| e.to_string()) {
                                acc.violation(format!("panic:display:wrapped:{}", r.kind), format!("printing the error of {call} panicked: {p}"), wcase);
                            }
                        }
                        Ok(Ok(())) => {}
                    }
                    acc.case(true, "wrapped-spelling");
                }
            }
            if item < 3 {
                acc.sample(case);
            }
        },
    );

    // ------------------------------------------------------------ filters on captured text
    // Every built-in filter as the first, second and only filter of a set block, of a set_global
    // block and of a filter section, over bodies that are text (so the receiver is a string, which
    // most collection and number filters refuse): Ok or Err, never a panic - the refusal of the
    // FIRST filter of a set block is reported on the captured value. (Seeded change C07-14 emitted
    // the instruction that closes the capture without a span.)
    {
        const FILTERS: [&str; 36] = [
            "safe", "default(value=1)", "upper", "lower", "wordcount", "escape_html", "escape_xml", "newlines_to_br", "pluralize", "trim", "trim_start",
            "trim_end", "replace(from=\"1\", to=\"2\")", "capitalize", "title", "truncate(length=1)", "indent", "str", "int", "float", "length", "reverse",
            "split(pat=\".\")", "abs", "round", "first", "last", "nth(n=0)", "join(sep=\",\")", "sort", "unique", "get(key=\"a\")", "values", "keys", "pairs",
            "group_by(attribute=\"a\")",
        ];
        const BODIES: [&str; 4] = ["1.5", "abc", "", "{{ v1 }}"];
        run.family(
            Family::new(
                "filters-on-captured-text",
                (FILTERS.len() * BODIES.len()) as u64,
                &format!("{} built-in filters x {} bodies (a number as text, letters, nothing, a printed variable) as the only / first / second filter of `{{% set x | f %}}`, `{{% set_global x | f %}}` and `{{% filter f %}}`: totality", FILTERS.len(), BODIES.len()),
            ),
            |item, acc: &mut Acc| {
                let f = FILTERS[item as usize / BODIES.len()];
                let body = BODIES[item as usize % BODIES.len()];
                let ctx = bind(&[V::I64(1), V::I64(2), V::I64(3)]);
                let sources = [
                    format!("{{% set x | {f} %}}{body}{{% endset %}}{{{{ x }}}}"),
                    format!("{{% set x | {f} | str %}}{body}{{% endset %}}{{{{ x }}}}"),
                    format!("{{% set x | trim | {f} %}}{body}{{% endset %}}{{{{ x }}}}"),
                    format!("{{% for i in [1] %}}{{% set_global x | {f} %}}{body}{{% endset %}}{{% endfor %}}{{{{ x }}}}"),
                    format!("{{% filter {f} %}}{body}{{% endfilter %}}"),
                ];
                for src in sources {
                    let prog = Program { templates: vec![("t".into(), src.clone())], entry: "t".into(), blocks: vec![], components: vec![] };
                    let mut t = Tera::default();
                    if !engine::add_templates(&mut t, &prog.templates).is_ok() {
                        acc.case(false, "refused-at-registration");
                        continue;
                    }
                    totality(&t, &prog, &ctx, acc, "filters-on-captured-text", f.split('(').next().unwrap(), true, &|| json!({"template": src, "context": "v1 = 1"}));
                }
            },
        );
    }

    // ------------------------------------------------------------ chains
    for stack_mb in [8usize, 2] {
        let name = format!("chains-{stack_mb}MiB");
        run.family(
            Family::new(&name, 3 * 32, "include / extends / alternating chains of length 1..=32")
                .stack_mb(stack_mb)
                .describe(|i| { let k = ["include", "extends", "alternating"][(i / 32) as usize]; json!({"chain_kind": k, "length": i % 32 + 1}) })
                .crash_signature(move |i, kind| format!("{kind}:chain:{}:len{}:{stack_mb}MiB", ["include", "extends", "alternating"][(i / 32) as usize], i % 32 + 1)),
            |item, acc: &mut Acc| {
                let kind = item / 32;
                let len = (item % 32 + 1) as usize;
                let (prog, want) = shapes::chain(kind as usize, len);
                let case = || json!({"chain_kind": kind, "length": len, "templates": prog.templates});
                match build(&prog) {
                    Ok(t) => {
                        let ctx = bind(&[V::I64(1), V::I64(2), V::I64(3)]);
                        let r = engine::render(&t, &prog.entry, &ctx);
                        if r.ok() != Some(want.as_str()) {
                            acc.violation(
                                format!("chain-render:{}", ["include", "extends", "alternating"][kind as usize]),
                                format!("expected {want:?}, got {}", r.show()),
                                case,
                            );
                        }
                        totality(&t, &prog, &ctx, acc, "chains", "chain", true, &case);
                    }
                    Err(e) => acc.violation("chain-rejected", format!("an acyclic chain was refused: {}", e.show()), case),
                }
            },
        );
    }

    // ------------------------------------------------------------ graphs (shared model of C11)
    // every extends/include graph on 3 templates over the structure alphabet: whatever
    // add_raw_templates accepts must render (every template, every API) without crashing
    {
        use graph::{AlphabetSpec, Mode, Naming, Place};
        let spec = AlphabetSpec {
            n: 3,
            missing_extends: false,
            missing_include: false,
            child_modes: vec![Mode::Absent, Mode::Super],
            places: vec![Place::Top, Place::Block],
            max_includes: 1,
        };
        let configs = spec.configs();
        let radix = configs.len() as u64;
        let nm = Naming::plain(3);
        let sources = |item: u64| -> Vec<(String, String)> {
            let idx = graph::decode(item, 3, radix);
            (0..3)
                .map(|i| (nm.names[i].clone(), graph::source(i, &configs[idx[i]], &nm)))
                .collect()
        };
        run.family(
            Family::new(
                "graphs-totality",
                radix * radix * radix,
                &format!("all {radix}^3 extends/include graphs on 3 templates ({}): every accepted set renders every template without crash", spec.describe()),
            )
            .budget(240.0)
            .describe(|i| json!({"templates": sources(i)}))
            .crash_signature(|_, kind| format!("{kind}:accepted-graph-render")),
            |item, acc: &mut Acc| {
                let tpls = sources(item);
                let mut t = Tera::default();
                let add = engine::add_templates(&mut t, &tpls);
                if let Out::Panic(p) = &add {
                    acc.violation("panic:add:graph", format!("add_raw_templates panicked: {p}"), || json!({"templates": tpls}));
                }
                if !add.is_ok() {
                    acc.case(false, "rejected");
                    return;
                }
                let ctx = bind(&[V::I64(1), V::I64(2), V::I64(3)]);
                for (name, _) in &tpls {
                    let prog = Program { templates: tpls.clone(), entry: name.clone(), blocks: vec!["b".into()], components: vec![] };
                    totality(&t, &prog, &ctx, acc, "graphs-totality", "graph", true, &|| json!({"templates": tpls, "entry": name}));
                }
            },
        );
    }

    // ------------------------------------------------------------ after a rejected registration
    // "Once a set of templates has been accepted, rendering any of them never panics" also after a
    // LATER registration was refused: every accepted base set x every refused batch, then every
    // template and component of the instance under the totality oracle (seeded change C07-3: the
    // component table of a refused batch stayed behind and rendering panicked).
    {
        let bases: Vec<(&str, Vec<(&str, &str)>)> = vec![
            ("components", vec![("widgets.html", "{% component Btn() %}old{% endcomponent Btn %}"), ("page.html", "[{{ <Btn /> }}]")]),
            ("inheritance", vec![("base.html", "<{% block a %}A{% endblock %}>"), ("child.html", "{% extends \"base.html\" %}{% block a %}{{ super() }}c{% endblock %}")]),
            ("include", vec![("inc.html", "i{{ 1 }}"), ("main.html", "m{% include \"inc.html\" %}")]),
            ("all", vec![
                ("widgets.html", "{% component Btn() %}old{% endcomponent Btn %}"),
                ("base.html", "<{% block a %}A{{ <Btn /> }}{% endblock %}>"),
                ("child.html", "{% extends \"base.html\" %}{% block a %}{{ super() }}c{% include \"inc.html\" %}{% endblock %}"),
                ("inc.html", "i{{ <Btn /> }}"),
            ]),
        ];
        let refused: Vec<(&str, Vec<(&str, &str)>)> = vec![
            ("component-redefined-with-unknown-filter", vec![("widgets.html", "{% component Btn() %}new{{ 1 | no_such_filter }}{% endcomponent Btn %}")]),
            ("new-component-with-unknown-test", vec![("extra.html", "{% component Fresh() %}f{{ 1 is no_such_test }}{% endcomponent Fresh %}")]),
            ("new-component-then-unknown-function", vec![("extra.html", "{% component Fresh() %}f{% endcomponent Fresh %}"), ("extra2.html", "{{ no_such_fn() }}")]),
            ("parent-loses-the-block", vec![("base.html", "no block")]),
            ("syntax-error", vec![("inc.html", "{% if %}")]),
            ("valid-then-syntax-error", vec![("ok.html", "fine{{ <Btn /> }}"), ("bad.html", "{% if x %}")]),
            ("component-body-includes-missing", vec![("widgets.html", "{% component Btn() %}{% include \"nowhere.html\" %}{% endcomponent Btn %}")]),
            ("include-cycle", vec![("inc.html", "{% include \"main.html\" %}{% include \"child.html\" %}")]),
            ("unknown-component-call", vec![("page2.html", "{{ <Nope /> }}")]),
            ("duplicate-component", vec![("dup.html", "{% component Btn() %}dup{% endcomponent Btn %}")]),
        ];
        let nb = bases.len() as u64;
        let nr = refused.len() as u64;
        run.family(
            Family::new(
                "after-rejected-add",
                nb * nr * nr,
                &format!("{nb} accepted base sets x every sequence of 2 of {nr} later registrations that must be refused (unknown filter / test / function / component, orphaned block, syntax error alone and after a valid template, dangling include in a component body, include cycle, duplicate component): every template, block and component of the instance under the totality oracle after each refusal"),
            ),
            |item, acc: &mut Acc| {
                let (bname, base) = &bases[(item % nb) as usize];
                let seq = [&refused[((item / nb) % nr) as usize], &refused[(item / nb / nr) as usize]];
                let mut t = Tera::default();
                let owned = |v: &Vec<(&str, &str)>| v.iter().map(|(n, s)| (n.to_string(), s.to_string())).collect::<Vec<_>>();
                if !engine::add_templates(&mut t, &owned(base)).is_ok() {
                    acc.violation("base-set-refused", format!("the base set `{bname}` was refused"), || json!({"base": base}));
                    return;
                }
                let ctx = bind(&[V::I64(1), V::I64(2), V::I64(3)]);
                for (k, (rname, batch)) in seq.iter().enumerate() {
                    let r = engine::add_templates(&mut t, &owned(batch));
                    let case = || json!({"base": base, "then_refused": seq.iter().take(k + 1).map(|(n, b)| json!({"kind": n, "batch": b})).collect::<Vec<_>>()});
                    if let Out::Panic(p) = &r {
                        acc.violation("panic:add-after-rejected", format!("add_raw_templates panicked: {p}"), case);
                    }
                    if r.is_ok() {
                        // this batch happens to be acceptable on this base (e.g. no child needs the block): fine
                        acc.case(false, &format!("accepted:{rname}"));
                    }
                    let mut names: Vec<String> = t.get_template_names().map(|s| s.to_string()).collect();
                    names.sort();
                    for name in &names {
                        let prog = Program { templates: vec![], entry: name.clone(), blocks: vec!["a".into()], components: vec!["Btn".into(), "Fresh".into()] };
                        totality(&t, &prog, &ctx, acc, "after-rejected-add", "after-refusal", true, &case);
                    }
                }
            },
        );
    }

    // ------------------------------------------------------------ super() after a block has ended
    // Which block a `super()` belongs to is bookkeeping the VM restores when a nested block ends
    // (seeded change C07-9 kept the name of the block that had just finished: the lineage lookup of
    // the next super() then hit an `expect`). super() before, inside, between and after nested
    // blocks, with and without an ancestor, whole and by block.
    {
        let bodies: Vec<(&str, &str)> = vec![
            ("after-nested", "{% block a %}{% block b %}inner{% endblock b %}+{{ super() }}{% endblock a %}"),
            ("before-and-after-nested", "{% block a %}{{ super() }}{% block b %}i{% endblock b %}{{ super() }}{% endblock a %}"),
            ("between-two-nested", "{% block a %}{% block b %}1{% endblock b %}{{ super() }}{% block c %}2{% endblock c %}{{ super() }}{% endblock a %}"),
            ("after-doubly-nested", "{% block a %}{% block b %}{% block c %}x{% endblock c %}{{ super() }}{% endblock b %}{{ super() }}{% endblock a %}"),
            ("nested-has-super-too", "{% block a %}{% block b %}{{ super() }}{% endblock b %}{{ super() }}{% endblock a %}"),
            ("after-nested-in-capture", "{% block a %}{% set z %}{% block b %}i{% endblock b %}{% endset %}{{ z }}{{ super() }}{% endblock a %}"),
            ("after-nested-in-loop", "{% block a %}{% for i in [1, 2] %}{% block b %}i{% endblock b %}{{ super() }}{% endfor %}{% endblock a %}"),
            ("sibling-then-super", "{% block b %}B{% endblock b %}{% block a %}{{ super() }}{% endblock a %}"),
        ];
        let bases: Vec<(&str, Option<&str>)> = vec![
            ("no-ancestor", None),
            ("ancestor-defines-a", Some("<{% block a %}base-a{% endblock a %}>")),
            ("ancestor-defines-a-b-c", Some("<{% block a %}A{% block b %}B{% block c %}C{% endblock c %}{% endblock b %}{% endblock a %}>")),
        ];
        let n_items = (bodies.len() * bases.len()) as u64;
        run.family(
            Family::new(
                "super-after-block-end",
                n_items,
                "8 block bodies in which super() comes after (between, inside, before) nested blocks that have ended x 3 ancestries (none: the body is the root; an ancestor defining a; one defining a, b, c), also as the middle of a three-level chain: render, render_to, render_block of a / b / c - text or error, never a panic",
            )
            .describe(|i| json!({"body": bodies[i as usize / bases.len()].0, "ancestry": bases[i as usize % bases.len()].0})),
            |item, acc: &mut Acc| {
                let (bname, body) = bodies[item as usize / bases.len()];
                let (aname, base) = bases[item as usize % bases.len()];
                let mut templates: Vec<(String, String)> = vec![];
                let entry = match base {
                    None => {
                        templates.push(("t".into(), body.to_string()));
                        "t"
                    }
                    Some(b) => {
                        templates.push(("base".into(), b.to_string()));
                        templates.push(("t".into(), format!("{{% extends \"base\" %}}{body}")));
                        templates.push(("leaf".into(), "{% extends \"t\" %}{% block b %}L{{ super() }}{% endblock b %}".to_string()));
                        "t"
                    }
                };
                let case = || json!({"body": bname, "ancestry": aname, "templates": templates});
                let prog = Program { templates: templates.clone(), entry: entry.to_string(), blocks: vec!["a".into(), "b".into(), "c".into()], components: vec![] };
                let Ok(t) = build(&prog) else {
                    // refused at registration (a child block unknown to the ancestor, ...): fine
                    acc.case(true, "rejected");
                    return;
                };
                let ctx = bind(&[V::I64(1), V::I64(2), V::I64(3)]);
                totality(&t, &prog, &ctx, acc, "super-after-block-end", "super-after-block-end", true, &case);
                if base.is_some() {
                    let leaf = Program { entry: "leaf".into(), ..Program { templates: templates.clone(), entry: String::new(), blocks: prog.blocks.clone(), components: vec![] } };
                    totality(&t, &leaf, &ctx, acc, "super-after-block-end", "super-after-block-end", true, &case);
                }
            },
        );
    }

    // ------------------------------------------------------------ unbounded component recursion, every route
    // "never ... overflows": a component that calls itself without end must hit the nesting limit
    // whatever lies between two calls - nothing, an include, two includes, an extending template, a
    // call body, a loop, a capture (seeded changes C11-2 and C07-7 lost the depth at `include`).
    {
        let between: Vec<(&str, Vec<(&str, String)>, &str)> = vec![
            ("direct", vec![("lib", "{% component card(n=0) %}[{{ n }}{{ <card n={n + 1} /> }}]{% endcomponent card %}".into())], "lib"),
            ("include", vec![
                ("lib", "{% component card(n=0) %}[{{ n }}{% include \"inner\" %}]{% endcomponent card %}".into()),
                ("inner", "{{ <card n={n + 1} /> }}".into()),
            ], "inner"),
            ("two-includes", vec![
                ("lib", "{% component card(n=0) %}[{{ n }}{% include \"mid\" %}]{% endcomponent card %}".into()),
                ("mid", "m{% include \"inner\" %}".into()),
                ("inner", "{{ <card n={n + 1} /> }}".into()),
            ], "inner"),
            ("include-in-loop-in-capture", vec![
                ("lib", "{% component card(n=0) %}[{% for i in [1] %}{% filter upper %}{% include \"inner\" %}{% endfilter %}{% endfor %}]{% endcomponent card %}".into()),
                ("inner", "{% set k = n + 1 %}{{ <card n={k} /> }}".into()),
            ], "inner"),
            ("extending-template", vec![
                ("lib", "{% component card(n=0) %}[{% include \"page\" %}]{% endcomponent card %}".into()),
                ("base", "b{% block main %}x{% endblock %}".into()),
                ("page", "{% extends \"base\" %}{% block main %}{{ <card n={n + 1} /> }}{% endblock %}".into()),
            ], "page"),
            ("call-body", vec![
                ("lib", "{% component wrap() %}({{ body }}){% endcomponent wrap %}{% component card(n=0) %}[{% <wrap> %}{% include \"inner\" %}{% </wrap> %}]{% endcomponent card %}".into()),
                ("inner", "{{ <card n={n + 1} /> }}".into()),
            ], "inner"),
            ("mutual-through-include", vec![
                ("lib", "{% component a(n=0) %}a{% include \"toB\" %}{% endcomponent a %}{% component b(n=0) %}b{% include \"toA\" %}{% endcomponent b %}".into()),
                ("toB", "{{ <b n={n + 1} /> }}".into()),
                ("toA", "{{ <a n={n + 1} /> }}".into()),
            ], "toA"),
        ];
        let nbt = between.len() as u64;
        for stack_mb in [8usize, 2] {
            let name = format!("unbounded-component-recursion-{stack_mb}MiB");
            run.family(
                Family::new(
                    &name,
                    nbt,
                    "7 accepted sets in which a component calls itself without end - directly, through one or two includes, through an include inside a loop inside a capture, through an extending template, through a call body, two components through includes - rendered from every template, through render_component and render_block: an error value, never a crash",
                )
                .stack_mb(stack_mb)
                .timeout(60.0)
                .describe(|i| json!({"between_two_calls": between[i as usize].0, "templates": between[i as usize].1}))
                .crash_signature({
                    let names: Vec<&str> = between.iter().map(|b| b.0).collect();
                    move |i, kind| format!("{}:unbounded-component-recursion:{}:{stack_mb}MiB", if kind == "hang" { "hang" } else { "stack-overflow" }, names[i as usize])
                }),
                |item, acc: &mut Acc| {
                    let (what, tpls, entry) = &between[item as usize];
                    let prog = Program {
                        templates: tpls.iter().map(|(n, s)| (n.to_string(), s.clone())).collect(),
                        entry: entry.to_string(),
                        blocks: vec!["main".into()],
                        components: vec!["card".into(), "a".into()],
                    };
                    let Ok(t) = build(&prog) else {
                        // a stricter registration check is allowed
                        acc.case(true, "rejected");
                        return;
                    };
                    let ctx = bind(&[V::I64(1), V::I64(2), V::I64(3)]);
                    let mut nctx = tera::Context::new();
                    nctx.insert("n", &1i64);
                    for (name, _) in tpls.iter() {
                        let p = Program { templates: prog.templates.clone(), entry: name.to_string(), blocks: prog.blocks.clone(), components: prog.components.clone() };
                        let case = || json!({"between_two_calls": what, "templates": tpls, "entry": name});
                        totality(&t, &p, &ctx, acc, "unbounded-component-recursion", "recursion", true, &case);
                        totality(&t, &p, &nctx, acc, "unbounded-component-recursion", "recursion", true, &case);
                    }
                },
            );
        }
    }

    // ------------------------------------------------------------ long inputs of the ordering filters
    // std's sort panics when it notices that the comparison is not a total order - but only looks
    // for that on inputs of more than 20 elements. Values whose mutual order is the delicate part
    // of `Ord for Value` (the three zeros, NaN of both signs, the same number in several
    // encodings, a fraction, incomparable kinds), every subset of 2..4 of them laid out over
    // 21 / 24 / 33 / 64 positions in 8 arrangements, through every filter that orders or hashes.
    {
        let pool: Vec<V> = vec![
            V::I64(0),
            V::F64(0.0),
            V::F64(-0.0),
            V::F64(f64::NAN),
            V::F64(-f64::NAN),
            V::I64(1),
            V::F64(1.0),
            V::U128(1),
            V::I64(-1),
            V::F64(0.5),
            V::F64(f64::INFINITY),
            V::s("a"),
            V::None,
            V::Arr(vec![V::F64(-0.0)]),
            V::Arr(vec![V::I64(0)]),
        ];
        fn subsets(n: usize, k: usize, start: usize, cur: &mut Vec<usize>, out: &mut Vec<Vec<usize>>) {
            if cur.len() == k {
                out.push(cur.clone());
                return;
            }
            for i in start..n {
                cur.push(i);
                subsets(n, k, i + 1, cur, out);
                cur.pop();
            }
        }
        let mut bases: Vec<Vec<usize>> = vec![];
        for k in 2..=(if thorough { 5 } else { 4 }) {
            subsets(pool.len(), k, 0, &mut vec![], &mut bases);
        }
        const LENGTHS: [usize; 4] = [21, 24, 33, 64];
        const ARRANGEMENTS: [&str; 8] = ["round-robin", "round-robin-reversed", "blocks", "blocks-reversed", "stride-5", "stride-13", "organ-pipe", "pairs-round-robin"];
        let layout = |pat: usize, m: usize, n: usize, i: usize| -> usize {
            let block = |j: usize| j.min(n - 1) * m / n;
            match pat {
                0 => i % m,
                1 => m - 1 - i % m,
                2 => block(i),
                3 => block(n - 1 - i),
                4 => block((i * 5) % n),
                5 => block((i * 13) % n),
                6 => block(if i < n / 2 { 2 * i } else { 2 * (n - 1 - i) + 1 }),
                _ => (i / 2) % m,
            }
        };
        let mut t = Tera::default();
        let srcs = [
            ("sort.txt", "{{ xs | sort }}"),
            ("unique.txt", "{{ xs | unique }}"),
            ("sortattr.txt", "{{ ws | sort(attribute=\"k\") }}"),
            ("uniqueattr.txt", "{{ ws | unique(attribute=\"k\") }}"),
            ("groupby.txt", "{{ ws | group_by(attribute=\"k\") }}"),
            ("minmax.txt", "{% for x in xs | sort %}{{ x }},{% endfor %}{{ xs | sort | first }}{{ xs | sort | last }}"),
        ];
        let add = engine::add_templates(&mut t, &srcs.iter().map(|(n, s)| (n.to_string(), s.to_string())).collect::<Vec<_>>());
        let nb = bases.len() as u64;
        run.family(
            Family::new(
                "long-ordering-inputs",
                nb,
                &format!("every subset of size 2..{} of {} order-delicate values ({nb} subsets) x lengths {LENGTHS:?} x {} arrangements x {} programs (sort, unique, sort / unique / group_by by attribute, loop over a sorted array): text or error, never a panic", if thorough { 5 } else { 4 }, pool.len(), ARRANGEMENTS.len(), srcs.len()),
            )
            .describe(|i| json!({"base": bases[i as usize].iter().map(|&k| pool[k].describe()).collect::<Vec<_>>()})),
            |item, acc: &mut Acc| {
                if !add.is_ok() {
                    acc.violation("long-ordering-inputs:programs-refused", format!("the programs were refused: {}", add.show()), || json!({"programs": srcs}));
                    return;
                }
                let base = &bases[item as usize];
                for n in LENGTHS {
                    for (pat, pname) in ARRANGEMENTS.iter().enumerate() {
                        let idx: Vec<usize> = (0..n).map(|i| base[layout(pat, base.len(), n, i)]).collect();
                        let xs = V::Arr(idx.iter().map(|&k| pool[k].clone()).collect());
                        let ws = V::Arr(idx.iter().enumerate().map(|(i, &k)| V::map(&[("k", pool[k].clone()), ("id", V::I64(i as i64))])).collect());
                        let ctx = mccore::vals::context(&[("xs", &xs), ("ws", &ws)]);
                        for (name, src) in srcs {
                            let prog = Program { templates: vec![], entry: name.to_string(), blocks: vec![], components: vec![] };
                            let case = || json!({"program": src, "base": base.iter().map(|&k| pool[k].describe()).collect::<Vec<_>>(), "length": n, "arrangement": pname, "xs": xs.describe(), "ws": "[{\"k\": xs[i], \"id\": i} for every position i]"});
                            totality(&t, &prog, &ctx, acc, "long-ordering-inputs", &format!("long:{}", name.trim_end_matches(".txt")), true, &case);
                        }
                    }
                }
            },
        );
    }

    // ------------------------------------------------------------ reuse: C02 / C03 program spaces
    const SHARDS: u64 = 32;
    run.family(
        Family::new(
            "reuse-c02-expressions",
            SHARDS,
            "every program of C02's P (operator pairs; thorough: triples, capped leaf assignments), S, U, T, L families with its own context, under the totality oracle",
        ),
        |item, acc: &mut Acc| {
            let mut idx = 0u64;
            let cap = if thorough { 4 } else { 6 };
            expr::families::for_each_program(thorough, cap, &mut |case| {
                idx += 1;
                if idx % SHARDS != item {
                    return;
                }
                let prog = Program { templates: vec![("main.html".into(), case.source())], entry: "main.html".into(), blocks: vec![], components: vec![] };
                let Ok(t) = build(&prog) else {
                    acc.case(false, "rejected");
                    return;
                };
                let ctx = case.context();
                totality(&t, &prog, &ctx, acc, "reuse-c02-expressions", "c02-program", true, &|| {
                    json!({"id": case.id, "template": case.source(), "bindings": case.describe_bindings()})
                });
            });
        },
    );
    let stmt_fams: Vec<(&str, u64, fn(u64, bool, &mut stmt::fam::Emit<'_>))> = {
        let mut v: Vec<(&str, u64, fn(u64, bool, &mut stmt::fam::Emit<'_>))> = vec![
            ("reuse-c03-f5-jump-patching", stmt::fam::f5_items(thorough), stmt::fam::f5_decode),
            ("reuse-c03-f4-captures", stmt::fam::f4_items(false), stmt::fam::f4_decode),
        ];
        if thorough {
            v.push(("reuse-c03-f2-loops", stmt::fam::f2_items(thorough), stmt::fam::f2_decode));
        }
        v
    };
    for (name, items, decode) in stmt_fams {
        let th = thorough && name != "reuse-c03-f4-captures";
        run.family(
            Family::new(name, items, "the complete C03 family of the same name (every program, every binding, every placement), under the totality oracle"),
            |item, acc: &mut Acc| {
                decode(item, th, &mut |g: stmt::Group<'_>| {
                    let templates = g.program.sources();
                    let mut t = Tera::default();
                    if !engine::add_templates(&mut t, &templates).is_ok() {
                        acc.case(false, "rejected");
                        return;
                    }
                    for b in g.bindings.iter().filter(|b| b.global.is_empty()) {
                        let mut ctx = Context::new();
                        for (k, v) in &b.ctx {
                            if *v != V::Undef {
                                ctx.insert_value(k.clone(), v.to_tera());
                            }
                        }
                        for entry in &g.program.entries {
                            let prog = Program { templates: templates.clone(), entry: entry.clone(), blocks: vec![], components: vec![] };
                            totality(&t, &prog, &ctx, acc, name, "c03-program", true, &|| {
                                json!({"templates": templates, "entry": entry, "bindings": b.json()})
                            });
                        }
                    }
                });
            },
        );
    }

    if run.is_supervisor() {
        let checks = run.counter("residue_checks");
        run.guard("residue-hook-exercised", checks > 1000, format!("{checks} end-of-render residue checks on successful renders"));
        let ok = run.outcome("kind-matrix-1", "ok");
        let err = run.outcome("kind-matrix-1", "err");
        run.guard("kind-matrix-both-outcomes", ok > 1000 && err > 1000, format!("ok={ok} err={err}"));
        run.extra("residue_checks", json!(checks));
    }
    run.finish();
}
