//! Shape catalogue for C07: one instance of every expression / statement constructor with its
//! operand positions as slots @1 @2 @3 (bound to context variables v1 v2 v3), the reference
//! matrix (unknown names at every syntactic position) and chain builders.

use crate::Program;
use mccore::vals::{K, V};

pub struct Shape {
    pub src: String,
    pub slots: usize,
    pub defaults: [V; 3],
    pub aux: Vec<(String, String)>,
    pub blocks: Vec<String>,
    pub components: Vec<String>,
}

impl Shape {
    pub fn program(&self) -> Program {
        let mut templates = self.aux.clone();
        templates.push(("main.html".to_string(), self.src.clone()));
        Program {
            templates,
            entry: "main.html".to_string(),
            blocks: self.blocks.clone(),
            components: self.components.clone(),
        }
    }
}

fn dflt(c: char) -> V {
    match c {
        'I' => V::I64(6),
        'J' => V::I64(3),
        'Z' => V::I64(0),
        'S' => V::s("abc"),
        'T' => V::s("b"),
        'K' => V::s("f"),
        'A' => V::Arr(vec![V::I64(1), V::I64(2), V::I64(3)]),
        'E' => V::Arr(vec![V::map(&[("f", V::I64(2))]), V::map(&[("f", V::I64(1))])]),
        'M' => V::map(&[("f", V::I64(1)), ("k", V::map(&[("g", V::I64(2))]))]),
        'B' => V::Bool(true),
        'N' => V::None,
        'F' => V::F64(1.5),
        'P' => V::s("ceil"),
        'G' => V::s("g"),
        'H' => V::s("k"),
        'D' => V::s("12"),
        'X' => V::I64(10),
        '-' => V::I64(0),
        _ => unreachable!(),
    }
}

fn sh(src: &str, d: &str) -> Shape {
    let src = src.replace("@1", "v1").replace("@2", "v2").replace("@3", "v3");
    let ds: Vec<char> = d.chars().collect();
    let slots = ds.iter().filter(|c| **c != '-').count();
    Shape {
        src,
        slots,
        defaults: [dflt(ds[0]), dflt(ds[1]), dflt(ds[2])],
        aux: vec![],
        blocks: vec![],
        components: vec![],
    }
}

pub fn all() -> Vec<Shape> {
    let mut v: Vec<Shape> = vec![];
    // --- binary operators
    for op in ["+", "-", "*", "/", "//", "%", "**", "==", "!=", "<", "<=", ">", ">=", "and", "or"] {
        v.push(sh(&format!("{{{{ @1 {op} @2 }}}}"), "IJ-"));
    }
    v.push(sh("{{ @1 ~ @2 }}", "ST-"));
    v.push(sh("{{ @1 in @2 }}", "JA-"));
    v.push(sh("{{ @1 not in @2 }}", "JA-"));
    v.push(sh("{{ @1 in @2 }}", "TS-"));
    v.push(sh("{{ @1 in @2 }}", "KM-"));
    // --- unary, ternary, grouping
    v.push(sh("{{ -@1 }}", "I--"));
    v.push(sh("{{ not @1 }}", "B--"));
    v.push(sh("{{ @1 if @2 else @3 }}", "IBJ"));
    v.push(sh("{{ (@1 + @2) * @3 }}", "IJI"));
    v.push(sh("{{ @1 and @2 or @3 }}", "BBB"));
    // --- access (fused and unfused spellings)
    v.push(sh("{{ @1.f }}", "M--"));
    v.push(sh("{{ @1.k.g }}", "M--"));
    v.push(sh("{{ @1?.f }}", "M--"));
    v.push(sh("{{ @1?.k?.g }}", "M--"));
    v.push(sh("{{ @1.k?.g }}", "M--"));
    v.push(sh("{{ @1[\"f\"] }}", "M--"));
    v.push(sh("{{ @1?[\"f\"] }}", "M--"));
    v.push(sh("{{ @1[@2] }}", "MK-"));
    v.push(sh("{{ @1[@2] }}", "AZ-"));
    v.push(sh("{{ @1[@2] }}", "SZ-"));
    v.push(sh("{{ @1?[@2] }}", "AZ-"));
    v.push(sh("{{ @1[@2][@3] }}", "MHG"));
    v.push(sh("{{ @1[@2:@3] }}", "AZJ"));
    v.push(sh("{{ @1[@2:@3] }}", "SZJ"));
    v.push(sh("{{ @1[@2:] }}", "AZ-"));
    v.push(sh("{{ @1[:@2] }}", "AJ-"));
    v.push(sh("{{ @1[::@2] }}", "AJ-"));
    v.push(sh("{{ @1[@2:@3:2] }}", "AZJ"));
    v.push(sh("{{ @1?[@2:@3] }}", "AZJ"));
    v.push(sh("{{ @1 | length }}{{ @1 }}", "A--"));
    v.push(sh("{{ __tera_context }}{{ @1 }}", "I--"));
    // --- literals, spreads, comprehensions
    v.push(sh("{{ [@1, @2, @3] }}", "IJS"));
    v.push(sh("{{ [...@1, @2] }}", "AI-"));
    v.push(sh("{{ [@1, ...@2] }}", "IA-"));
    v.push(sh("{{ {\"a\": @1, \"b\": @2} }}", "IS-"));
    v.push(sh("{{ {...@1, \"z\": @2} }}", "MI-"));
    v.push(sh("{{ {\"z\": @2, ...@1} }}", "MI-"));
    v.push(sh("{{ [x for x in @1] }}", "A--"));
    v.push(sh("{{ [x + @2 for x in @1] }}", "AJ-"));
    v.push(sh("{{ [x for x in @1 if @2] }}", "AB-"));
    v.push(sh("{{ [x for x in @1 if x > @2] }}", "AJ-"));
    v.push(sh("{{ [k for k, v in @1] | length }}", "M--"));
    v.push(sh("{{ [@2 for x in @1] }}", "AS-"));
    v.push(sh("{{ [[y for y in @1] for x in @2] }}", "AA-"));
    // --- tests
    for t in [
        "string", "number", "map", "bool", "array", "integer", "float", "none", "iterable", "defined", "undefined",
    ] {
        v.push(sh(&format!("{{{{ @1 is {t} }}}}"), "I--"));
    }
    v.push(sh("{{ @1 is odd }}", "I--"));
    v.push(sh("{{ @1 is not even }}", "I--"));
    v.push(sh("{{ @1 is divisible_by(divisor=@2) }}", "IJ-"));
    v.push(sh("{{ @1 is starting_with(pat=@2) }}", "SS-"));
    v.push(sh("{{ @1 is ending_with(pat=@2) }}", "SS-"));
    v.push(sh("{{ @1 is containing(pat=@2) }}", "ST-"));
    v.push(sh("{{ @1 is containing(pat=@2) }}", "AJ-"));
    v.push(sh("{{ @1 is containing(pat=@2) }}", "MK-"));
    // --- filters (one shape per built-in, keyword arguments as slots)
    for f in [
        "safe", "upper", "lower", "wordcount", "escape_html", "escape_xml", "newlines_to_br", "trim", "trim_start",
        "trim_end", "capitalize", "title", "str", "length", "reverse",
    ] {
        v.push(sh(&format!("{{{{ @1 | {f} }}}}"), "S--"));
    }
    v.push(sh("{{ @1 | default(value=@2) }}", "SI-"));
    v.push(sh("{{ @1 | default(value=@2, boolean=@3) }}", "SIB"));
    v.push(sh("{{ @1 | pluralize }}", "I--"));
    v.push(sh("{{ @1 | pluralize(singular=@2, plural=@3) }}", "ISS"));
    v.push(sh("{{ @1 | trim(pat=@2) }}", "ST-"));
    v.push(sh("{{ @1 | trim_start(pat=@2) }}", "ST-"));
    v.push(sh("{{ @1 | trim_end(pat=@2) }}", "ST-"));
    v.push(sh("{{ @1 | replace(from=@2, to=@3) }}", "STS"));
    v.push(sh("{{ @1 | truncate(length=@2) }}", "SJ-"));
    v.push(sh("{{ @1 | truncate(length=@2, end=@3) }}", "SJS"));
    v.push(sh("{{ @1 | indent(width=@2) }}", "SJ-"));
    v.push(sh("{{ @1 | indent(width=@2, first=@3) }}", "SJB"));
    v.push(sh("{{ @1 | int }}", "I--"));
    v.push(sh("{{ @1 | int(base=@2) }}", "DX-"));
    v.push(sh("{{ @1 | float }}", "F--"));
    v.push(sh("{{ @1 | abs }}", "I--"));
    v.push(sh("{{ @1 | round }}", "F--"));
    v.push(sh("{{ @1 | round(method=@2, precision=@3) }}", "FPJ"));
    v.push(sh("{{ @1 | split(pat=@2) }}", "ST-"));
    v.push(sh("{{ @1 | first }}{{ @1 | last }}", "A--"));
    v.push(sh("{{ @1 | nth(n=@2) }}", "AZ-"));
    v.push(sh("{{ @1 | join(sep=@2) }}", "AS-"));
    v.push(sh("{{ @1 | sort }}", "A--"));
    v.push(sh("{{ @1 | sort(attribute=@2) }}", "EK-"));
    v.push(sh("{{ @1 | unique }}", "A--"));
    v.push(sh("{{ @1 | group_by(attribute=@2) }}", "EK-"));
    v.push(sh("{{ @1 | keys | length }}{{ @1 | values | length }}{{ @1 | pairs | length }}", "M--"));
    v.push(sh("{{ @1 | get(key=@2) }}", "MK-"));
    v.push(sh("{{ @1 | get(key=@2, default=@3) }}", "MKI"));
    v.push(sh("{{ @1 | upper | lower | length }}", "S--"));
    // --- functions
    v.push(sh("{{ range(end=@1) }}", "J--"));
    v.push(sh("{{ range(start=@1, end=@2, step_by=@3) }}", "ZIJ"));
    v.push(sh("{% if false %}{{ throw(message=@1) }}{% endif %}ok", "S--"));
    // --- statements
    v.push(sh("{% if @1 %}a{% elif @2 %}b{% else %}c{% endif %}", "BB-"));
    v.push(sh("{% if @1 > @2 and @3 %}a{% endif %}", "IJB"));
    v.push(sh("{% for x in @1 %}{{ x }}{% endfor %}", "A--"));
    v.push(sh("{% for x in @1 %}{{ loop.index }}{{ loop.index0 }}{{ loop.first }}{{ loop.last }}{{ loop.length }}{% endfor %}", "A--"));
    v.push(sh("{% for k, w in @1 %}{{ k }}{% endfor %}", "M--"));
    v.push(sh("{% for x in @1 %}{{ x }}{% else %}{{ @2 }}{% endfor %}", "AS-"));
    v.push(sh("{% for x in @1 %}{% if x == @2 %}{% break %}{% endif %}{{ x }}{% endfor %}", "AJ-"));
    v.push(sh("{% for x in @1 %}{% if x == @2 %}{% continue %}{% endif %}{{ x }}{% endfor %}", "AJ-"));
    v.push(sh("{% for x in @1 %}{% for y in @2 %}{% if y == x %}{% break %}{% endif %}{{ y }}{% endfor %}{{ x }}{% endfor %}", "AA-"));
    v.push(sh("{% for x in @1 %}{% set s = x %}{% set_global g = @2 %}{% endfor %}{{ g | default(value=0) }}", "AI-"));
    v.push(sh("{% filter upper %}{% for x in @1 %}{% if x == @2 %}{% break %}{% endif %}a{{ x }}{% endfor %}{% endfilter %}", "AJ-"));
    v.push(sh("{% set c %}{% for x in @1 %}{% if x == @2 %}{% continue %}{% endif %}{{ x }}{% endfor %}{% endset %}{{ c }}", "AJ-"));
    v.push(sh("{% for x in @1 %}{% filter upper %}a{{ x }}{% endfilter %}{% set c %}{{ x }}{% endset %}{{ c }}{% if x == @2 %}{% break %}{% endif %}{% endfor %}", "AJ-"));
    v.push(sh("{% set a = @1 %}{{ a }}", "I--"));
    v.push(sh("{% set a = @1 + @2 %}{% set_global b = a %}{{ b }}", "IJ-"));
    v.push(sh("{% set a %}x{{ @1 }}y{% endset %}{{ a }}", "S--"));
    v.push(sh("{% set a | upper | trim %} {{ @1 }} {% endset %}{{ a }}", "S--"));
    v.push(sh("{% set a | truncate(length=@2) %}{{ @1 }}{% endset %}{{ a }}", "SJ-"));
    v.push(sh("{% filter upper %}x{{ @1 }}{% endfilter %}", "S--"));
    v.push(sh("{% filter replace(from=@2, to=@3) %}{{ @1 }}{% endfilter %}", "STS"));
    v.push(sh("{% filter upper %}{% filter trim %} {{ @1 }} {% endfilter %}{% endfilter %}", "S--"));
    v.push(sh("{% raw %}{{ x }}{% endraw %}{{ @1 }}{# c #}", "S--"));
    // include / inheritance / components
    let mut s = sh("a{% include \"inc.html\" %}b", "S--");
    s.aux.push(("inc.html".into(), "{{ v1 }}{% set q = v1 %}{{ q }}".into()));
    v.push(s);
    let mut s = sh("{% for x in @1 %}{% include \"inc.html\" %}{% endfor %}", "A--");
    s.aux.push(("inc.html".into(), "{{ x }}{% set y = x %}{{ y }}".into()));
    v.push(s);
    let mut s = sh("{% set a %}{% include \"inc.html\" %}{% endset %}{{ a }}", "S--");
    s.aux.push(("inc.html".into(), "[{{ v1 }}]".into()));
    v.push(s);
    let mut s = sh("{% block a %}x{{ @1 }}{% block n %}{{ @2 }}{% endblock %}{% endblock %}", "SI-");
    s.blocks = vec!["a".into(), "n".into()];
    v.push(s);
    let mut s = sh("{% extends \"base.html\" %}{% block a %}[{{ super() }}]{{ @1 }}{% endblock %}", "SI-");
    s.aux.push(("base.html".into(), "<{% block a %}p{{ v2 }}{% endblock %}>{% filter upper %}{% block b %}q{{ v1 }}{% endblock %}{% endfilter %}".into()));
    s.blocks = vec!["a".into(), "b".into()];
    v.push(s);
    let mut s = sh("{{ <C a={@1} b={@2} /> }}", "SI-");
    s.aux.push(("comp.html".into(), "{% component C(a, b=1) %}({{ a }},{{ b }}){% endcomponent C %}".into()));
    s.components = vec!["C".into()];
    v.push(s);
    let mut s = sh("{{ <T a={@1} b={@2} c={@3} /> }}", "SIA");
    s.aux.push(("comp.html".into(), "{% component T(a: string, b: integer = 2, c: array = []) %}({{ a }},{{ b }},{{ c }}){% endcomponent T %}".into()));
    s.components = vec!["T".into()];
    v.push(s);
    let mut s = sh("{% <W t={@1}> %}x{{ @2 }}y{% </W> %}", "SS-");
    s.aux.push(("comp.html".into(), "{% component W(t, ...rest) %}<{{ t }}|{{ body }}|{{ rest }}>{% endcomponent W %}".into()));
    s.components = vec!["W".into()];
    v.push(s);
    let mut s = sh("{{ <R {...@1} z={@2} /> }}", "MI-");
    s.aux.push(("comp.html".into(), "{% component R(...rest) %}{{ rest }}{% endcomponent R %}".into()));
    s.components = vec!["R".into()];
    v.push(s);
    let mut s = sh("{% set r = <C a={@1} /> %}{{ r }}{% for x in @2 %}{{ <C a={x} /> }}{% endfor %}", "SA-");
    s.aux.push(("comp.html".into(), "{% component C(a) %}[{{ a }}]{% endcomponent C %}".into()));
    s.components = vec!["C".into()];
    v.push(s);
    v
}

// ---------------------------------------------------------------------------------------------

pub struct RefCase {
    pub kind: &'static str,
    pub position: String,
    pub templates: Vec<(String, String)>,
    pub entry: String,
    /// same set with the name defined (known_f / known_t / known_fn / component Known / template known.html)
    pub control: Option<Vec<(String, String)>>,
}

/// Expression positions: `@` is replaced by an expression that references the unknown name.
const EXPR_POSITIONS: &[(&str, &str)] = &[
    ("template-body", "{{ @ }}"),
    ("block", "{% block a %}{{ @ }}{% endblock %}"),
    ("nested-block", "{% block a %}{% block n %}{{ @ }}{% endblock %}{% endblock %}"),
    ("component-definition-body", "{% component D(p=1) %}{{ @ }}{% endcomponent D %}x"),
    ("component-call-body", "{% component D(p=1) %}{{ body }}{% endcomponent D %}{% <D> %}{{ @ }}{% </D> %}"),
    ("component-attribute", "{% component D(p=1) %}{{ p }}{% endcomponent D %}{{ <D p={@} /> }}"),
    ("kwarg-value", "{{ 1 | default(value=@) }}"),
    ("function-kwarg", "{{ range(end=@) }}"),
    ("test-kwarg", "{{ 4 is divisible_by(divisor=@) }}"),
    ("ternary-true-arm", "{{ @ if false else 2 }}"),
    ("ternary-false-arm", "{{ 2 if true else @ }}"),
    ("ternary-condition", "{{ 1 if @ else 2 }}"),
    ("dead-and-operand", "{{ false and @ }}"),
    ("dead-or-operand", "{{ true or @ }}"),
    ("if-condition", "{% if @ %}a{% endif %}"),
    ("elif-condition", "{% if true %}a{% elif @ %}b{% endif %}"),
    ("dead-else-branch", "{% if true %}a{% else %}{{ @ }}{% endif %}"),
    ("for-iterable", "{% for x in @ %}{{ x }}{% endfor %}"),
    ("for-body", "{% for x in [] %}{{ @ }}{% endfor %}"),
    ("for-else-body", "{% for x in [1] %}a{% else %}{{ @ }}{% endfor %}"),
    ("slice-bound", "{{ [1,2,3][@:] }}"),
    ("subscript", "{{ [1,2,3][@] }}"),
    ("array-spread", "{{ [...@] }}"),
    ("map-spread", "{{ {...@} }}"),
    ("array-item", "{{ [1, @] }}"),
    ("map-value", "{{ {\"a\": @} }}"),
    ("comprehension-element", "{{ [@ for x in [1]] }}"),
    ("comprehension-iterable", "{{ [x for x in @] }}"),
    ("comprehension-condition", "{{ [x for x in [1] if @] }}"),
    ("set-value", "{% set a = @ %}x"),
    ("set_global-value", "{% set_global a = @ %}x"),
    ("set-block-body", "{% set a %}{{ @ }}{% endset %}x"),
    ("filter-section-body", "{% filter upper %}{{ @ }}{% endfilter %}"),
    ("math-operand", "{{ 1 + @ }}"),
    ("unary-operand", "{{ not @ }}"),
    ("concat-operand", "{{ \"a\" ~ @ }}"),
    ("in-container", "{{ 1 in @ }}"),
    ("optional-chain-base", "{{ (@) or 1 }}"),
];

/// Statement positions: `@` is replaced by a statement (include tag).
const STMT_POSITIONS: &[(&str, &str)] = &[
    ("template-body", "@"),
    ("block", "{% block a %}@{% endblock %}"),
    ("nested-block", "{% block a %}{% block n %}@{% endblock %}{% endblock %}"),
    ("component-definition-body", "{% component D(p=1) %}@{% endcomponent D %}x"),
    ("component-call-body", "{% component D(p=1) %}{{ body }}{% endcomponent D %}{% <D> %}@{% </D> %}"),
    ("if-branch", "{% if false %}@{% endif %}"),
    ("else-branch", "{% if true %}a{% else %}@{% endif %}"),
    ("for-body", "{% for x in [] %}@{% endfor %}"),
    ("for-else-body", "{% for x in [1] %}a{% else %}@{% endfor %}"),
    ("set-block-body", "{% set a %}@{% endset %}x"),
    ("filter-section-body", "{% filter upper %}@{% endfilter %}"),
];

pub fn reference_matrix() -> Vec<RefCase> {
    let mut out = vec![];
    let one = |src: String| vec![("t.html".to_string(), src)];
    // filters / tests / functions / components at every expression position
    let expr_kinds: &[(&str, &str, &str)] = &[
        ("filter", "1 | nope_f", "1 | known_f"),
        ("filter-with-kwargs", "1 | nope_f(a=1)", "1 | known_f(a=1)"),
        ("filter-in-chain", "1 | str | nope_f | length", "1 | str | known_f | length"),
        ("test", "1 is nope_t", "1 is known_t"),
        ("negated-test", "1 is not nope_t", "1 is not known_t"),
        ("function", "nope_fn()", "known_fn()"),
        ("function-with-kwargs", "nope_fn(a=[1])", "known_fn(a=[1])"),
        ("component", "<Nope />", "<Known />"),
    ];
    for (kind, bad, good) in expr_kinds {
        for (pos, tpl) in EXPR_POSITIONS {
            // a component call cannot be an operand of most operators; keep it where the grammar
            // allows an expression value
            let mut control = one(tpl.replace('@', good));
            control.push(("known_c.html".to_string(), "{% component Known() %}k{% endcomponent Known %}".to_string()));
            out.push(RefCase {
                kind: if kind.starts_with("filter") { "filter" } else if kind.contains("test") { "test" } else if kind.starts_with("function") { "function" } else { "component" },
                position: format!("{kind}@{pos}"),
                templates: one(tpl.replace('@', bad)),
                entry: "t.html".into(),
                control: Some(control),
            });
        }
    }
    // filter names in the places that are not expressions
    for (pos, bad, good) in [
        ("filter-section-name", "{% filter nope_f %}x{% endfilter %}", "{% filter known_f %}x{% endfilter %}"),
        ("filter-section-name-with-kwargs", "{% filter nope_f(a=1) %}x{% endfilter %}", "{% filter known_f(a=1) %}x{% endfilter %}"),
        ("set-block-filter-chain", "{% set a | nope_f %}x{% endset %}y", "{% set a | known_f %}x{% endset %}y"),
        ("set-block-filter-chain-second", "{% set a | upper | nope_f %}x{% endset %}y", "{% set a | upper | known_f %}x{% endset %}y"),
        ("filter-section-in-block", "{% block a %}{% filter nope_f %}x{% endfilter %}{% endblock %}", "{% block a %}{% filter known_f %}x{% endfilter %}{% endblock %}"),
        ("set-block-filter-in-component", "{% component D() %}{% set a | nope_f %}x{% endset %}{% endcomponent D %}y", "{% component D() %}{% set a | known_f %}x{% endset %}{% endcomponent D %}y"),
        ("filter-section-in-component-call-body", "{% component D() %}{{ body }}{% endcomponent D %}{% <D> %}{% filter nope_f %}x{% endfilter %}{% </D> %}", "{% component D() %}{{ body }}{% endcomponent D %}{% <D> %}{% filter known_f %}x{% endfilter %}{% </D> %}"),
    ] {
        out.push(RefCase { kind: "filter", position: pos.into(), templates: one(bad.into()), entry: "t.html".into(), control: Some(one(good.into())) });
    }
    // component with body at statement positions
    for (pos, tpl) in STMT_POSITIONS {
        let bad = tpl.replace('@', "{% <Nope> %}b{% </Nope> %}");
        let mut control = one(tpl.replace('@', "{% <Known> %}b{% </Known> %}"));
        control.push(("known_c.html".to_string(), "{% component Known() %}k{{ body }}{% endcomponent Known %}".to_string()));
        out.push(RefCase { kind: "component", position: format!("body-call@{pos}"), templates: one(bad), entry: "t.html".into(), control: Some(control) });
    }
    // include targets at statement positions
    for (pos, tpl) in STMT_POSITIONS {
        let bad = tpl.replace('@', "{% include \"nope.html\" %}");
        let mut control = one(tpl.replace('@', "{% include \"known.html\" %}"));
        control.push(("known.html".to_string(), "k".to_string()));
        out.push(RefCase { kind: "include", position: format!("include@{pos}"), templates: one(bad), entry: "t.html".into(), control: Some(control) });
    }
    // include in a parent's block / in an included template (multi-template sets)
    out.push(RefCase {
        kind: "include",
        position: "include@parent-block".into(),
        templates: vec![("p.html".into(), "{% block a %}{% include \"nope.html\" %}{% endblock %}".into()), ("t.html".into(), "{% extends \"p.html\" %}{% block a %}x{% endblock %}".into())],
        entry: "t.html".into(),
        control: Some(vec![("p.html".into(), "{% block a %}{% include \"known.html\" %}{% endblock %}".into()), ("t.html".into(), "{% extends \"p.html\" %}{% block a %}x{% endblock %}".into()), ("known.html".into(), "k".into())]),
    });
    out.push(RefCase {
        kind: "include",
        position: "include@included-template".into(),
        templates: vec![("i.html".into(), "{% include \"nope.html\" %}".into()), ("t.html".into(), "{% include \"i.html\" %}".into())],
        entry: "t.html".into(),
        control: Some(vec![("i.html".into(), "{% include \"known.html\" %}".into()), ("t.html".into(), "{% include \"i.html\" %}".into()), ("known.html".into(), "k".into())]),
    });
    // parents
    out.push(RefCase { kind: "parent", position: "extends-missing".into(), templates: one("{% extends \"nope.html\" %}".into()), entry: "t.html".into(), control: None });
    out.push(RefCase {
        kind: "parent",
        position: "grandparent-missing".into(),
        templates: vec![("p.html".into(), "{% extends \"nope.html\" %}{% block a %}{% endblock %}".into()), ("t.html".into(), "{% extends \"p.html\" %}".into())],
        entry: "t.html".into(),
        control: None,
    });
    // child blocks unknown to every ancestor
    out.push(RefCase {
        kind: "block",
        position: "orphan-top-level-block".into(),
        templates: vec![("p.html".into(), "{% block a %}{% endblock %}".into()), ("t.html".into(), "{% extends \"p.html\" %}{% block zz %}x{% endblock %}".into())],
        entry: "t.html".into(),
        control: Some(vec![("p.html".into(), "{% block a %}{% endblock %}".into()), ("t.html".into(), "{% extends \"p.html\" %}{% block a %}x{% endblock %}".into())]),
    });
    out.push(RefCase {
        kind: "block",
        position: "orphan-block-two-levels".into(),
        templates: vec![("g.html".into(), "{% block a %}{% endblock %}".into()), ("p.html".into(), "{% extends \"g.html\" %}".into()), ("t.html".into(), "{% extends \"p.html\" %}{% block zz %}x{% endblock %}".into())],
        entry: "t.html".into(),
        control: Some(vec![("g.html".into(), "{% block a %}{% endblock %}".into()), ("p.html".into(), "{% extends \"g.html\" %}".into()), ("t.html".into(), "{% extends \"p.html\" %}{% block a %}x{% endblock %}".into())]),
    });
    // references inside a parent's blocks and inside components defined in another template
    for (kind, bad, good) in [("filter", "1 | nope_f", "1 | known_f"), ("test", "1 is nope_t", "1 is known_t"), ("function", "nope_fn()", "known_fn()"), ("component", "<Nope />", "<Known />")] {
        let mk = |e: &str| vec![
            ("p.html".to_string(), format!("{{% block a %}}{{{{ {e} }}}}{{% endblock %}}")),
            ("t.html".to_string(), "{% extends \"p.html\" %}{% block a %}x{% endblock %}".to_string()),
            ("known_c.html".to_string(), "{% component Known() %}k{% endcomponent Known %}".to_string()),
        ];
        out.push(RefCase { kind, position: format!("{kind}@overridden-parent-block"), templates: mk(bad), entry: "t.html".into(), control: Some(mk(good)) });
        let mk2 = |e: &str| vec![
            ("c.html".to_string(), format!("{{% component D() %}}{{{{ {e} }}}}{{% endcomponent D %}}")),
            ("t.html".to_string(), "{{ <D /> }}".to_string()),
            ("known_c.html".to_string(), "{% component Known() %}k{% endcomponent Known %}".to_string()),
        ];
        out.push(RefCase { kind, position: format!("{kind}@component-in-other-template"), templates: mk2(bad), entry: "t.html".into(), control: Some(mk2(good)) });
    }
    out
}

/// kind 0: include chain, 1: extends chain, 2: alternating. Returns the program and its output.
pub fn chain(kind: usize, len: usize) -> (Program, String) {
    let mut templates = vec![];
    let name = |i: usize| format!("t{i}.html");
    let mut want = String::new();
    match kind {
        0 => {
            // t0 includes t1 ... t(len-1) is a leaf
            for i in 0..len {
                if i + 1 < len {
                    templates.push((name(i), format!("a{i}{{% include \"{}\" %}}b{i}", name(i + 1))));
                } else {
                    templates.push((name(i), format!("leaf{i}{{{{ v1 }}}}")));
                }
            }
            for i in 0..len - 1 {
                want.push_str(&format!("a{i}"));
            }
            want.push_str(&format!("leaf{}1", len - 1));
            for i in (0..len - 1).rev() {
                want.push_str(&format!("b{i}"));
            }
        }
        1 => {
            // t0 extends t1 extends ... ; every level wraps super()
            for i in 0..len {
                if i + 1 < len {
                    templates.push((name(i), format!("{{% extends \"{}\" %}}{{% block a %}}[{i}{{{{ super() }}}}]{{% endblock %}}", name(i + 1))));
                } else {
                    templates.push((name(i), "<{% block a %}root{{ v1 }}{% endblock %}>".to_string()));
                }
            }
            want.push('<');
            for i in 0..len - 1 {
                want.push_str(&format!("[{i}"));
            }
            want.push_str("root1");
            for _ in 0..len - 1 {
                want.push(']');
            }
            want.push('>');
        }
        _ => {
            // t(2k) includes t(2k+1); t(2k+1) extends base and overrides block a with an include of t(2k+2)
            // (an included template that extends renders only its own top-level nodes, so the
            // alternation is: include -> template whose body has the next include inside a block of its own)
            for i in 0..len {
                if i + 1 < len {
                    templates.push((name(i), format!("a{i}{{% block k{i} %}}{{% include \"{}\" %}}{{% endblock %}}b{i}", name(i + 1))));
                } else {
                    templates.push((name(i), format!("leaf{i}")));
                }
            }
            for i in 0..len - 1 {
                want.push_str(&format!("a{i}"));
            }
            want.push_str(&format!("leaf{}", len - 1));
            for i in (0..len - 1).rev() {
                want.push_str(&format!("b{i}"));
            }
        }
    }
    let _ = K::Bool(true);
    (Program { templates, entry: name(0), blocks: vec![], components: vec![] }, want)
}
