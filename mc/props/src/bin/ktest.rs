//! Kernel self-test: crash / overflow / hang / panic isolation pins the exact item.
use mccore::{Family, Run, json};

#[allow(unconditional_recursion)]
fn recurse(n: u64) -> u64 {
    let a = [n; 64];
    std::hint::black_box(&a);
    recurse(n + 1) + a[3]
}

fn main() {
    let mut run = Run::from_env("KTEST", "exploration");
    run.rule("self-test");
    run.family(
        Family::new("iso", 4000, "self-test").timeout(3.0).describe(|i| json!({"item_is": i})),
        |i, acc| {
            match i {
                100 => panic!("boom"),
                700 => std::process::abort(),
                1500 => {
                    std::hint::black_box(recurse(0));
                }
                2500 => loop {
                    std::hint::spin_loop();
                },
                _ => {}
            }
            acc.case(i % 2 == 0, "ok");
            if i == 3 {
                acc.sample(|| json!({"i": i}));
            }
        },
    );
    run.finish();
}
