//! Components: description types, source printers and the binding-table reference (C05).
//!
//! Self-contained (depends on `mccore`, `tera` (through `mccore::vals`), `serde_json`, std) so that
//! other checks can reuse it with `#[path = "../c05/comp.rs"] mod comp;`.
//!
//! What is here
//!   * `Ty`, `Param`, `Sig`         a component signature: named parameters (untyped / typed / default /
//!                                  type inferred from the default) and an optional `...rest`
//!   * `Form`, `Call`, `BodyKind`   one call: how each argument name is supplied, and the body
//!   * `Site`                       where the call is written (top level, include, block, another
//!                                  component, set value, loop whose variable shadows a parameter name)
//!   * printers                     `Sig::definition`, `Call::source`, `site_program` -> real template
//!                                  sources + context
//!   * the reference                `bind` (the documented binding table), `type_match`, `component_text`
//!                                  (what the probe body prints for a binding), value printing
//!                                  (`print_top`, `print_nested`, `escape_html`) — the printing part is
//!                                  calibrated against the engine by the check's guards, it is not the
//!                                  property under test
//!
//! Nothing in this file calls the engine.

#![allow(dead_code)]

use mccore::vals::{K, Kind, V};
use serde_json::{Value as Json, json};

// ------------------------------------------------------------------------------------------------
// signatures

#[derive(Clone, Copy, Debug, PartialEq, Eq)]
pub enum Ty {
    String,
    Bool,
    Integer,
    Float,
    Number,
    Array,
    Map,
}

impl Ty {
    pub const ALL: [Ty; 7] = [Ty::String, Ty::Bool, Ty::Integer, Ty::Float, Ty::Number, Ty::Array, Ty::Map];
    /// The quick-tier type alphabet of DESIGN §4 C05.
    pub const QUICK: [Ty; 4] = [Ty::String, Ty::Integer, Ty::Number, Ty::Array];

    pub fn name(self) -> &'static str {
        match self {
            Ty::String => "string",
            Ty::Bool => "bool",
            Ty::Integer => "integer",
            Ty::Float => "float",
            Ty::Number => "number",
            Ty::Array => "array",
            Ty::Map => "map",
        }
    }

    /// The type the documentation says is inferred from a default literal ("an optional type that
    /// can be inferred if there is a default value"): the literal's own kind; nothing for `none`.
    pub fn inferred_from(v: &V) -> Option<Ty> {
        match v.kind() {
            Kind::Str => Some(Ty::String),
            Kind::Bool => Some(Ty::Bool),
            Kind::Int => Some(Ty::Integer),
            Kind::Float => Some(Ty::Float),
            Kind::Arr => Some(Ty::Array),
            Kind::Map => Some(Ty::Map),
            _ => None,
        }
    }
}

#[derive(Clone, Debug, PartialEq)]
pub enum Param {
    /// the name is not a parameter of the component
    Absent,
    /// `p`
    Req,
    /// `p = none` — a default, but nothing a type could be inferred from
    DefNone,
    /// `p: ty`
    TypedReq(Ty),
    /// `p: ty = literal`
    TypedDef(Ty, V),
    /// `p = literal` — the type is inferred from the literal
    Inferred(V),
}

impl Param {
    pub fn declared(&self) -> bool {
        !matches!(self, Param::Absent)
    }
    /// Declared or inferred type.
    pub fn ty(&self) -> Option<Ty> {
        match self {
            Param::TypedReq(t) | Param::TypedDef(t, _) => Some(*t),
            Param::Inferred(v) => Ty::inferred_from(v),
            _ => None,
        }
    }
    pub fn type_is_inferred(&self) -> bool {
        matches!(self, Param::Inferred(_))
    }
    pub fn default(&self) -> Option<V> {
        match self {
            Param::DefNone => Some(V::None),
            Param::TypedDef(_, v) | Param::Inferred(v) => Some(v.clone()),
            _ => None,
        }
    }
    /// Source of the parameter inside `component name( ... )`.
    pub fn source(&self, name: &str) -> Option<String> {
        Some(match self {
            Param::Absent => return None,
            Param::Req => name.to_string(),
            Param::DefNone => format!("{name} = none"),
            Param::TypedReq(t) => format!("{name}: {}", t.name()),
            Param::TypedDef(t, v) => format!("{name}: {} = {}", t.name(), v.literal().expect("default literal")),
            Param::Inferred(v) => format!("{name} = {}", v.literal().expect("default literal")),
        })
    }
    pub fn describe(&self) -> String {
        match self {
            Param::Absent => "absent".into(),
            Param::Req => "required-untyped".into(),
            Param::DefNone => "default-none".into(),
            Param::TypedReq(t) => format!("typed-required:{}", t.name()),
            Param::TypedDef(t, v) => format!("typed-default:{}={}", t.name(), v.describe()),
            Param::Inferred(v) => format!("inferred-from-default:{}", v.describe()),
        }
    }
    pub fn class(&self) -> &'static str {
        match self {
            Param::Absent => "absent",
            Param::Req => "required-untyped",
            Param::DefNone => "default-none",
            Param::TypedReq(_) => "typed-required",
            Param::TypedDef(..) => "typed-default",
            Param::Inferred(_) => "inferred",
        }
    }
}

/// Default literals: distinct per parameter position so that a swapped binding is visible.
pub fn default_literal(ty: Ty, which: usize, number_as_int: bool) -> V {
    let w = which % 2;
    match ty {
        Ty::String => V::s(["dp<", "dq&"][w]),
        Ty::Bool => V::Bool([false, true][w]),
        Ty::Integer => V::I64([3, 4][w]),
        Ty::Float => V::F64([0.5, 0.25][w]),
        Ty::Number => {
            if number_as_int {
                V::I64([30, 40][w])
            } else {
                V::F64([2.5, 3.5][w])
            }
        }
        Ty::Array => V::Arr(vec![V::I64([9, 8][w])]),
        Ty::Map => V::map(&[(["d", "e"][w], V::I64(w as i64))]),
    }
}

/// Every parameter shape over a type alphabet: absent, required, `= none`, typed required,
/// typed with a matching default (number: a float and an integer default), inferred from default.
pub fn param_kinds(types: &[Ty], which: usize) -> Vec<Param> {
    let mut v = vec![Param::Absent, Param::Req, Param::DefNone];
    for t in types {
        v.push(Param::TypedReq(*t));
    }
    for t in types {
        v.push(Param::TypedDef(*t, default_literal(*t, which, false)));
        if *t == Ty::Number {
            v.push(Param::TypedDef(*t, default_literal(*t, which, true)));
        }
    }
    for t in types {
        if *t != Ty::Number {
            v.push(Param::Inferred(default_literal(*t, which, false)));
        }
    }
    v
}

#[derive(Clone, Debug, PartialEq)]
pub struct Sig {
    pub params: Vec<(String, Param)>,
    /// name of the `...rest` parameter
    pub rest: Option<String>,
}

impl Sig {
    pub fn pq(p: Param, q: Param, rest: bool) -> Sig {
        Sig {
            params: vec![("p".into(), p), ("q".into(), q)],
            rest: rest.then(|| "rest".to_string()),
        }
    }
    pub fn param(&self, name: &str) -> Option<&Param> {
        self.params.iter().find(|(n, p)| n == name && p.declared()).map(|(_, p)| p)
    }
    pub fn declared_names(&self) -> Vec<&str> {
        self.params.iter().filter(|(_, p)| p.declared()).map(|(n, _)| n.as_str()).collect()
    }
    /// `p: string, q = 4, ...rest`
    pub fn params_source(&self) -> String {
        let mut parts: Vec<String> = self.params.iter().filter_map(|(n, p)| p.source(n)).collect();
        if let Some(r) = &self.rest {
            parts.push(format!("...{r}"));
        }
        parts.join(", ")
    }
    pub fn describe(&self) -> Json {
        json!({
            "params": self.params.iter().map(|(n, p)| format!("{n}: {}", p.describe())).collect::<Vec<_>>(),
            "rest": self.rest,
            "source": self.params_source(),
        })
    }

    /// The probe body: prints every name of `names` (bound value for declared ones, an isolation
    /// probe for the others), the rest map, the body, and the isolation probes `iso`; then tries to
    /// leak two assignments to the caller.
    pub fn definition(&self, comp: &str, names: &[&str], iso: &[&str]) -> String {
        let mut s = format!("{{% component {comp}({}) %}}<{comp}:", self.params_source());
        for n in names {
            if self.param(n).is_some() {
                s.push_str(&format!("{n}={{{{ {n} }}}}|{{{{ [{n}] }}}};"));
            } else {
                s.push_str(&format!("{n}={{{{ {n} | default(value=\"ISO\") }}}};"));
            }
        }
        match &self.rest {
            Some(r) => s.push_str(&format!("rest={{{{ {r} }}}};")),
            None => s.push_str("rest={{ rest | default(value=\"ISO\") }};"),
        }
        s.push_str("body={{ body | default(value=\"NOBODY\") }};iso=");
        for n in iso {
            s.push_str(&format!("{{{{ {n} | default(value=\"ISO\") }}}},"));
        }
        s.push_str("{% if loop is defined %}LEAK{% else %}ISO{% endif %}");
        s.push_str("{% set leak = \"L1\" %}{% set_global gleak = \"L2\" %}");
        s.push_str(&format!(":{comp}>{{% endcomponent {comp} %}}"));
        s
    }
}

/// All two-parameter signatures over a type alphabet.
pub fn signatures(types: &[Ty]) -> Vec<Sig> {
    let ps = param_kinds(types, 0);
    let qs = param_kinds(types, 1);
    let mut v = vec![];
    for p in &ps {
        for q in &qs {
            for rest in [false, true] {
                v.push(Sig::pq(p.clone(), q.clone(), rest));
            }
        }
    }
    v
}

/// Signatures with the single parameter `p` (q absent).
pub fn signatures_p_only(types: &[Ty]) -> Vec<Sig> {
    let mut v = vec![];
    for p in param_kinds(types, 0) {
        for rest in [false, true] {
            v.push(Sig::pq(p.clone(), Param::Absent, rest));
        }
    }
    v
}

// ------------------------------------------------------------------------------------------------
// calls

#[derive(Clone, Copy, Debug, PartialEq, Eq)]
pub enum Form {
    /// not supplied
    No,
    /// `p="s"`
    Str,
    /// `p={7}`
    Int,
    /// `p={1.5}`
    Float,
    /// `p={true}`
    Bool,
    /// `p={[1, "<"]}`
    Arr,
    /// `p={ {"k": 1} }`
    Map,
    /// `p={none}`
    None,
    /// `p` — shorthand for `p={p}`, the caller's variable of the same name
    Short,
    /// through `{...m}` where the caller's map `m` holds the name
    Spread,
}

impl Form {
    pub const ALL: [Form; 10] = [
        Form::No,
        Form::Str,
        Form::Int,
        Form::Float,
        Form::Bool,
        Form::Arr,
        Form::Map,
        Form::None,
        Form::Short,
        Form::Spread,
    ];
    /// Quick tier: DESIGN asks for 6 value forms; the shorthand is kept as a seventh.
    pub const QUICK: [Form; 7] = [Form::No, Form::Str, Form::Int, Form::Float, Form::Arr, Form::Short, Form::Spread];

    pub fn name(self) -> &'static str {
        match self {
            Form::No => "not-supplied",
            Form::Str => "string",
            Form::Int => "int",
            Form::Float => "float",
            Form::Bool => "bool",
            Form::Arr => "array",
            Form::Map => "map",
            Form::None => "none",
            Form::Short => "shorthand",
            Form::Spread => "spread",
        }
    }
}

/// The literal a direct form supplies for argument number `which` (0 = p, 1 = q, 2 = x): distinct
/// per argument, strings and array elements carry characters that HTML escaping changes.
pub fn direct_value(form: Form, which: usize) -> Option<V> {
    let w = which % 3;
    Some(match form {
        Form::Str => V::s(["sp<", "sq&", "sx>"][w]),
        Form::Int => V::I64([7, 70, 700][w]),
        Form::Float => V::F64([1.5, 15.5, 150.5][w]),
        Form::Bool => V::Bool([true, false, true][w]),
        Form::Arr => V::Arr(vec![V::I64(w as i64 + 1), V::s("<")]),
        Form::Map => V::map(&[("k", V::I64(w as i64 + 1))]),
        Form::None => V::None,
        _ => return None,
    })
}

/// What `{...m}` carries for argument number `which`.
pub fn spread_value(which: usize) -> V {
    match which % 3 {
        0 => V::s("mp<"),
        1 => V::I64(8),
        _ => V::F64(2.5),
    }
}

#[derive(Clone, Copy, Debug, PartialEq, Eq)]
pub enum BodyKind {
    /// `{{ <X ... /> }}`
    SelfClosing,
    /// `{% <X ...> %}b({{ h }},{{ p }}){% </X> %}`
    WithBody,
    /// `{% <X ...> %}{% </X> %}`
    EmptyBody,
}

impl BodyKind {
    pub fn name(self) -> &'static str {
        match self {
            BodyKind::SelfClosing => "self-closing",
            BodyKind::WithBody => "with-body",
            BodyKind::EmptyBody => "empty-body",
        }
    }
}

pub const BODY_SOURCE: &str = "b({{ h }},{{ p }})";

#[derive(Clone, Debug, PartialEq)]
pub struct Call {
    /// (argument name, how it is supplied); argument number = position
    pub args: Vec<(String, Form)>,
    pub body: BodyKind,
}

impl Call {
    pub fn pqx(p: Form, q: Form, x: Form, body: BodyKind) -> Call {
        Call {
            args: vec![("p".into(), p), ("q".into(), q), ("x".into(), x)],
            body,
        }
    }

    /// The attribute list: direct and shorthand attributes in argument order, then one `{...m}`
    /// when some argument travels through the spread.
    pub fn attributes(&self) -> String {
        self.attributes_spreading("m")
    }

    /// Same, with the spread variable called `mvar`.
    pub fn attributes_spreading(&self, mvar: &str) -> String {
        let mut s = String::new();
        for (i, (name, form)) in self.args.iter().enumerate() {
            match form {
                Form::No | Form::Spread => {}
                Form::Short => s.push_str(&format!(" {name}")),
                Form::Str => s.push_str(&format!(" {name}={}", direct_value(*form, i).unwrap().literal().unwrap())),
                Form::Map => s.push_str(&format!(" {name}={{ {} }}", direct_value(*form, i).unwrap().literal().unwrap())),
                _ => s.push_str(&format!(" {name}={{{}}}", direct_value(*form, i).unwrap().literal().unwrap())),
            }
        }
        if self.args.iter().any(|(_, f)| *f == Form::Spread) {
            s.push_str(&format!(" {{...{mvar}}}"));
        }
        s
    }

    /// The map the caller must hold in `m`.
    pub fn spread_map(&self) -> V {
        V::Map(
            self.args
                .iter()
                .enumerate()
                .filter(|(_, (_, f))| *f == Form::Spread)
                .map(|(i, (n, _))| (K::Str(n.clone()), spread_value(i)))
                .collect(),
        )
    }

    /// Source of the call. `body_src` is what is written between the tags of a with-body call.
    pub fn source_with(&self, comp: &str, body_src: &str) -> String {
        self.source_full(comp, body_src, "m")
    }
    pub fn source_full(&self, comp: &str, body_src: &str, mvar: &str) -> String {
        let attrs = self.attributes_spreading(mvar);
        match self.body {
            BodyKind::SelfClosing => format!("{{{{ <{comp}{attrs} /> }}}}"),
            BodyKind::WithBody => format!("{{% <{comp}{attrs}> %}}{body_src}{{% </{comp}> %}}"),
            BodyKind::EmptyBody => format!("{{% <{comp}{attrs}> %}}{{% </{comp}> %}}"),
        }
    }
    pub fn source(&self, comp: &str) -> String {
        self.source_with(comp, BODY_SOURCE)
    }
    /// The call as an expression (only a self-closing call is one): `<X ... />`.
    pub fn expression(&self, comp: &str) -> String {
        format!("<{comp}{} />", self.attributes())
    }

    /// What the call supplies, resolved in the caller's scope: (name, value) in attribute order.
    /// A shorthand whose variable is unbound supplies `V::Undef`.
    pub fn supplied(&self, scope: &Scope) -> Vec<(String, V)> {
        let mut v = vec![];
        for (i, (name, form)) in self.args.iter().enumerate() {
            match form {
                Form::No => {}
                Form::Short => v.push((name.clone(), scope.get(name))),
                Form::Spread => v.push((name.clone(), spread_value(i))),
                _ => v.push((name.clone(), direct_value(*form, i).unwrap())),
            }
        }
        v
    }

    pub fn describe(&self) -> Json {
        json!({
            "args": self.args.iter().map(|(n, f)| format!("{n}: {}", f.name())).collect::<Vec<_>>(),
            "body": self.body.name(),
        })
    }
}

/// Every call over a form alphabet (p, q, x) x body kinds.
pub fn calls(forms: &[Form], bodies: &[BodyKind]) -> Vec<Call> {
    let mut v = vec![];
    for p in forms {
        for q in forms {
            for x in forms {
                for b in bodies {
                    v.push(Call::pqx(*p, *q, *x, *b));
                }
            }
        }
    }
    v
}

// ------------------------------------------------------------------------------------------------
// scopes and sites

/// The variables a caller can see, innermost binding last.
#[derive(Clone, Debug, Default)]
pub struct Scope {
    pub vars: Vec<(String, V)>,
}

impl Scope {
    pub fn get(&self, name: &str) -> V {
        self.vars.iter().rev().find(|(n, _)| n == name).map(|(_, v)| v.clone()).unwrap_or(V::Undef)
    }
    pub fn with(mut self, name: &str, v: V) -> Scope {
        self.vars.push((name.to_string(), v));
        self
    }
}

#[derive(Clone, Copy, Debug, PartialEq, Eq)]
pub enum Site {
    Top,
    Include,
    Block,
    /// inside the body of another component `W`
    Comp,
    /// `{% set r = <X/> %}{{ r }}` (a call with a body: inside a `{% set r %}…{% endset %}` block)
    SetVal,
    /// inside `{% for lv in ["LV"] %}{% for p in ["LP&"] %}` — `p` is named like a parameter
    Loop,
}

impl Site {
    pub const ALL: [Site; 6] = [Site::Top, Site::Include, Site::Block, Site::Comp, Site::SetVal, Site::Loop];
    pub const QUICK: [Site; 3] = [Site::Top, Site::Comp, Site::Loop];
    pub fn name(self) -> &'static str {
        match self {
            Site::Top => "top",
            Site::Include => "include",
            Site::Block => "block",
            Site::Comp => "component",
            Site::SetVal => "set",
            Site::Loop => "loop",
        }
    }
}

/// Context of every render (besides `m`): `p`, `q`, `x` feed the shorthand attributes, `h` the
/// call body, `cv` is a pure isolation probe.
pub fn base_context() -> Vec<(String, V)> {
    vec![
        ("p".into(), V::s("cp<")),
        ("q".into(), V::I64(5)),
        ("x".into(), V::Arr(vec![V::I64(3)])),
        ("h".into(), V::s("<h>")),
        ("cv".into(), V::s("CV")),
    ]
}

/// The global context of the instance: one isolation probe.
pub fn global_context() -> Vec<(String, V)> {
    vec![("gv".into(), V::s("GV"))]
}

/// Names probed by the component body besides its parameters: caller `set`, loop variable,
/// context variable, global-context variable, and the two context variables every call site uses.
pub const ISO_PROBES: [&str; 6] = ["sv", "lv", "cv", "gv", "h", "m"];

/// Parameter list of the wrapper component of `Site::Comp` (its scope is all the inner call sees).
pub const WRAPPER_PARAMS: &str = "p = \"wp<\", q = 6, x = [4], h = \"<w>\", m = {}";

/// The caller's scope at a site (what shorthand attributes and the call body resolve against).
pub fn site_scope(site: Site, m: &V) -> Scope {
    let mut s = Scope::default();
    match site {
        Site::Comp => {
            s = s
                .with("p", V::s("wp<"))
                .with("q", V::I64(6))
                .with("x", V::Arr(vec![V::I64(4)]))
                .with("h", V::s("<w>"))
                .with("m", m.clone());
        }
        _ => {
            for (n, v) in global_context() {
                s = s.with(&n, v);
            }
            for (n, v) in base_context() {
                s = s.with(&n, v);
            }
            s = s.with("m", m.clone());
            if site == Site::Loop {
                s = s.with("lv", V::s("LV")).with("p", V::s("LP&"));
            }
        }
    }
    s.with("sv", V::s("SV"))
}

/// A complete program: templates to register, the one to render, its context.
#[derive(Clone, Debug)]
pub struct Program {
    pub templates: Vec<(String, String)>,
    pub entry: String,
    pub context: Vec<(String, V)>,
}

impl Program {
    pub fn describe(&self) -> Json {
        json!({
            "templates": self.templates.iter().map(|(n, s)| json!({"name": n, "source": s})).collect::<Vec<_>>(),
            "render": self.entry,
            "context": self.context.iter().map(|(n, v)| format!("{n} = {}", v.describe())).collect::<Vec<_>>(),
            "global_context": global_context().iter().map(|(n, v)| format!("{n} = {}", v.describe())).collect::<Vec<_>>(),
        })
    }
}

/// After the call every site prints the two names the component body tried to leak.
pub const LEAK_PROBE: &str = "{{ leak | default(value=\"ISO\") }}{{ gleak | default(value=\"ISO\") }}";

/// Templates of one call at one site. `tag` makes template / wrapper names unique so that many
/// programs can live in one `Tera`; `ext` is the template-name suffix (".html" = autoescape on).
/// The templates that hold the component definition (and `base<ext>` for `Site::Block`) are
/// *not* included: see `shared_templates`.
pub fn site_program(site: Site, call_src: &str, call_expr: Option<&str>, m: &V, tag: &str, ext: &str) -> Program {
    let set_sv = "{% set sv = \"SV\" %}";
    let entry = format!("t{tag}{ext}");
    let mut templates = vec![];
    match site {
        Site::Top => templates.push((entry.clone(), format!("{set_sv}T[{call_src}]{LEAK_PROBE}"))),
        Site::Include => {
            templates.push((format!("i{tag}{ext}"), format!("{set_sv}{call_src}]{LEAK_PROBE}")));
            templates.push((entry.clone(), format!("I[{{% include \"i{tag}{ext}\" %}}")));
        }
        Site::Block => templates.push((
            entry.clone(),
            format!("{{% extends \"base{ext}\" %}}{{% block b %}}{set_sv}{call_src}]{LEAK_PROBE}{{% endblock %}}"),
        )),
        Site::Comp => templates.push((
            entry.clone(),
            format!(
                "{{% component W{tag}({WRAPPER_PARAMS}) %}}{set_sv}W[{call_src}]{LEAK_PROBE}{{% endcomponent W{tag} %}}C[{{{{ <W{tag} m={{m}} /> }}}}]"
            ),
        )),
        Site::SetVal => match call_expr {
            Some(e) => templates.push((entry.clone(), format!("{set_sv}{{% set r = {e} %}}S[{{{{ r }}}}]{LEAK_PROBE}"))),
            None => templates.push((
                entry.clone(),
                format!("{set_sv}{{% set r %}}{call_src}{{% endset %}}S[{{{{ r }}}}]{LEAK_PROBE}"),
            )),
        },
        Site::Loop => templates.push((
            entry.clone(),
            format!("{{% for lv in [\"LV\"] %}}{{% for p in [\"LP&\"] %}}{set_sv}L[{call_src}]{LEAK_PROBE}{{% endfor %}}{{% endfor %}}"),
        )),
    }
    let mut context = base_context();
    context.push(("m".into(), m.clone()));
    Program { templates, entry, context }
}

/// Text around the component's output at a site.
pub fn site_wrap(site: Site, component_text: &str) -> String {
    match site {
        Site::Top => format!("T[{component_text}]ISOISO"),
        Site::Include => format!("I[{component_text}]ISOISO"),
        Site::Block => format!("K[{component_text}]ISOISO"),
        Site::Comp => format!("C[W[{component_text}]ISOISO]"),
        Site::SetVal => format!("S[{component_text}]ISOISO"),
        Site::Loop => format!("L[{component_text}]ISOISO"),
    }
}

/// Templates shared by all programs of one signature: the definition, and the base of the block site.
pub fn shared_templates(sig: &Sig, comp: &str, ext: &str) -> Vec<(String, String)> {
    vec![
        (format!("c{ext}"), sig.definition(comp, &["p", "q", "x"], &ISO_PROBES)),
        (format!("base{ext}"), "K[{% block b %}{% endblock %}".to_string()),
    ]
}

// ------------------------------------------------------------------------------------------------
// the reference: binding table

#[derive(Clone, Copy, Debug, PartialEq, Eq)]
pub enum Match {
    Yes,
    No,
    /// the documentation does not say (an integer for a `float` parameter; an undefined value)
    Unspecified,
}

/// "The available types are: string, bool, integer, float, number (matches both integer and
/// float), array, map."
pub fn type_match(ty: Ty, v: &V) -> Match {
    match (ty, v.kind()) {
        (_, Kind::Undef) => Match::Unspecified,
        (Ty::String, Kind::Str)
        | (Ty::Bool, Kind::Bool)
        | (Ty::Integer, Kind::Int)
        | (Ty::Float, Kind::Float)
        | (Ty::Number, Kind::Int | Kind::Float)
        | (Ty::Array, Kind::Arr)
        | (Ty::Map, Kind::Map) => Match::Yes,
        // widening of an integer to `float` is neither promised nor excluded
        (Ty::Float, Kind::Int) => Match::Unspecified,
        _ => Match::No,
    }
}

#[derive(Clone, Debug, PartialEq)]
pub enum Reason {
    /// an argument that is not a parameter, and no rest parameter
    Unknown(String),
    /// a required parameter was not supplied
    Missing(String),
    /// the value does not match the declared / inferred type
    Type(String),
}

impl Reason {
    pub fn class(&self) -> &'static str {
        match self {
            Reason::Unknown(_) => "unknown-argument",
            Reason::Missing(_) => "missing-argument",
            Reason::Type(_) => "type-mismatch",
        }
    }
    pub fn describe(&self) -> String {
        match self {
            Reason::Unknown(n) => format!("argument `{n}` is not a parameter and there is no rest parameter"),
            Reason::Missing(n) => format!("required parameter `{n}` is not supplied"),
            Reason::Type(n) => format!("the value supplied for `{n}` does not match its type"),
        }
    }
}

#[derive(Clone, Debug, PartialEq, Default)]
pub struct Bound {
    /// declared parameters in declaration order with the value they are bound to
    pub params: Vec<(String, V)>,
    /// the rest map when the signature has one (insertion order = call order)
    pub rest: Option<Vec<(String, V)>>,
    pub defaults_used: usize,
    pub rest_collected: usize,
    pub typed_checked: usize,
    pub inferred_checked: usize,
}

#[derive(Clone, Debug, PartialEq)]
pub enum Verdict {
    Bound(Bound),
    Reject(Reason),
    /// the documentation does not decide: the call is either rejected or bound like this
    Either(Bound, String),
}

impl Verdict {
    pub fn class(&self) -> String {
        match self {
            Verdict::Bound(_) => "bound".into(),
            Verdict::Reject(r) => format!("reject:{}", r.class()),
            Verdict::Either(..) => "unspecified".into(),
        }
    }
}

/// The binding table of the documentation / property statement:
///   declared ∧ supplied   → the value, which must match the declared or inferred type
///   declared ∧ ¬supplied  → the default, else rejected
///   ¬declared ∧ supplied  → into the rest map when there is one, else rejected
pub fn bind(sig: &Sig, supplied: &[(String, V)]) -> Verdict {
    let mut b = Bound::default();
    let mut reject: Option<Reason> = None;
    let mut unspecified: Option<String> = None;
    let mut rest = vec![];
    for (name, v) in supplied {
        if sig.param(name).is_none() {
            if sig.rest.is_some() {
                if *v == V::Undef {
                    unspecified.get_or_insert(format!("undefined value for the undeclared argument `{name}`"));
                }
                rest.push((name.clone(), v.clone()));
                b.rest_collected += 1;
            } else {
                reject.get_or_insert(Reason::Unknown(name.clone()));
            }
        }
    }
    for (name, param) in &sig.params {
        if !param.declared() {
            continue;
        }
        match supplied.iter().rev().find(|(n, _)| n == name) {
            Some((_, v)) => {
                if *v == V::Undef {
                    unspecified.get_or_insert(format!("undefined value supplied for `{name}`"));
                } else if let Some(t) = param.ty() {
                    if param.type_is_inferred() {
                        b.inferred_checked += 1;
                    } else {
                        b.typed_checked += 1;
                    }
                    match type_match(t, v) {
                        Match::Yes => {}
                        Match::No => {
                            reject.get_or_insert(Reason::Type(name.clone()));
                        }
                        Match::Unspecified => {
                            unspecified.get_or_insert(format!(
                                "{} supplied for the `{}` parameter `{name}`",
                                v.describe(),
                                t.name()
                            ));
                        }
                    }
                }
                b.params.push((name.clone(), v.clone()));
            }
            None => match param.default() {
                Some(d) => {
                    b.defaults_used += 1;
                    b.params.push((name.clone(), d));
                }
                None => {
                    reject.get_or_insert(Reason::Missing(name.clone()));
                }
            },
        }
    }
    if sig.rest.is_some() {
        b.rest = Some(rest);
    }
    if let Some(r) = reject {
        return Verdict::Reject(r);
    }
    if let Some(u) = unspecified {
        return Verdict::Either(b, u);
    }
    Verdict::Bound(b)
}

// ------------------------------------------------------------------------------------------------
// the reference: what the probe body prints

/// `{{ v }}` before escaping (calibrated against the engine by the check; printing is C01/C02's
/// subject, not this one's).
pub fn print_top(v: &V) -> String {
    match v {
        V::Str(s) | V::Safe(s) => s.clone(),
        _ => print_nested(v),
    }
}

/// A value inside an array / map.
pub fn print_nested(v: &V) -> String {
    match v {
        V::Undef | V::None => String::new(),
        V::Bool(b) => format!("{b}"),
        V::I64(i) => format!("{i}"),
        V::U64(i) => format!("{i}"),
        V::I128(i) => format!("{i}"),
        V::U128(i) => format!("{i}"),
        V::F64(f) => format!("{f:?}"),
        V::Str(s) | V::Safe(s) => format!("\"{s}\""),
        V::Bytes(_) => "<bytes>".into(),
        V::Arr(xs) => format!("[{}]", xs.iter().map(print_nested).collect::<Vec<_>>().join(", ")),
        V::Map(kv) => {
            let mut es: Vec<(String, String)> = kv
                .iter()
                .map(|(k, v)| {
                    let ks = match k {
                        K::Str(s) => s.clone(),
                        other => other.as_v().describe(),
                    };
                    (ks, print_nested(v))
                })
                .collect();
            es.sort();
            format!(
                "{{{}}}",
                es.iter().map(|(k, v)| format!("\"{k}\": {v}")).collect::<Vec<_>>().join(", ")
            )
        }
    }
}

pub fn escape_html(s: &str) -> String {
    let mut o = String::with_capacity(s.len() + 8);
    for c in s.chars() {
        match c {
            '&' => o.push_str("&amp;"),
            '<' => o.push_str("&lt;"),
            '>' => o.push_str("&gt;"),
            '"' => o.push_str("&quot;"),
            '\'' => o.push_str("&#39;"),
            c => o.push(c),
        }
    }
    o
}

pub fn esc(s: &str, autoescape: bool) -> String {
    if autoescape { escape_html(s) } else { s.to_string() }
}

/// The text of `BODY_SOURCE` rendered in the caller's scope and escaping mode.
pub fn body_text(scope: &Scope, autoescape: bool) -> String {
    format!(
        "b({},{})",
        esc(&print_top(&scope.get("h")), autoescape),
        esc(&print_top(&scope.get("p")), autoescape)
    )
}

/// Expected output of the probe body with the offsets at which each field starts (for diagnosis).
#[derive(Clone, Debug)]
pub struct Text {
    pub text: String,
    pub fields: Vec<(String, usize)>,
}

impl Text {
    /// Name of the field in which `observed` first departs from the expected text, after
    /// `prefix_len` bytes of site wrapper.
    pub fn first_difference(&self, prefix_len: usize, expected_full: &str, observed: &str) -> String {
        let common = expected_full.bytes().zip(observed.bytes()).take_while(|(a, b)| a == b).count();
        if common < prefix_len {
            return "site-prefix".into();
        }
        let off = common - prefix_len;
        if off >= self.text.len() {
            return "site-suffix".into();
        }
        let mut name = "header";
        for (n, start) in &self.fields {
            if *start <= off {
                name = n;
            }
        }
        name.to_string()
    }
}

/// What the definition printed by `Sig::definition(comp, names, iso)` writes for a binding.
/// `body`: the already rendered body (inserted as is), `None` for a self-closing call.
pub fn component_text(sig: &Sig, comp: &str, names: &[&str], n_iso: usize, b: &Bound, body: Option<&str>, autoescape: bool) -> Text {
    let mut s = format!("<{comp}:");
    let mut fields = vec![];
    for n in names {
        fields.push((n.to_string(), s.len()));
        if sig.param(n).is_some() {
            let v = b.params.iter().find(|(pn, _)| pn == n).map(|(_, v)| v.clone()).unwrap_or(V::Undef);
            s.push_str(&format!(
                "{n}={}|{};",
                esc(&print_top(&v), autoescape),
                esc(&print_nested(&V::Arr(vec![v.clone()])), autoescape)
            ));
        } else {
            s.push_str(&format!("{n}=ISO;"));
        }
    }
    fields.push(("rest".into(), s.len()));
    match &b.rest {
        Some(r) if sig.rest.is_some() => {
            let m = V::Map(r.iter().map(|(k, v)| (K::Str(k.clone()), v.clone())).collect());
            s.push_str(&format!("rest={};", esc(&print_top(&m), autoescape)));
        }
        _ => s.push_str("rest=ISO;"),
    }
    fields.push(("body".into(), s.len()));
    s.push_str(&format!("body={};", body.unwrap_or("NOBODY")));
    fields.push(("iso".into(), s.len()));
    s.push_str("iso=");
    for _ in 0..n_iso {
        s.push_str("ISO,");
    }
    s.push_str("ISO");
    s.push_str(&format!(":{comp}>"));
    Text { text: s, fields }
}

/// Expected component output of one call at one site (pqx names, standard probes).
pub fn expected_component(sig: &Sig, comp: &str, b: &Bound, call: &Call, scope: &Scope, autoescape: bool) -> Text {
    let body = match call.body {
        BodyKind::SelfClosing => None,
        BodyKind::WithBody => Some(body_text(scope, autoescape)),
        BodyKind::EmptyBody => Some(String::new()),
    };
    component_text(sig, comp, &["p", "q", "x"], ISO_PROBES.len(), b, body.as_deref(), autoescape)
}

// ------------------------------------------------------------------------------------------------
// the documentation's own examples as self-tests of the reference (run by the check at start-up)

pub fn self_test() -> Result<(), String> {
    // {% component button(label: string, variant = "primary", ...rest) %}
    let button = Sig {
        params: vec![
            ("label".into(), Param::TypedReq(Ty::String)),
            ("variant".into(), Param::Inferred(V::s("primary"))),
        ],
        rest: Some("rest".into()),
    };
    let want = "label: string, variant = \"primary\", ...rest";
    if button.params_source() != want {
        return Err(format!("params_source: {} != {want}", button.params_source()));
    }
    // <ui.button label="Click me" variant="secondary" {...obj} /> with obj = {"important": true}
    match bind(
        &button,
        &[
            ("label".into(), V::s("Click me")),
            ("variant".into(), V::s("secondary")),
            ("important".into(), V::Bool(true)),
        ],
    ) {
        Verdict::Bound(b) => {
            if b.params != vec![("label".to_string(), V::s("Click me")), ("variant".to_string(), V::s("secondary"))]
                || b.rest != Some(vec![("important".to_string(), V::Bool(true))])
            {
                return Err(format!("doc example bound wrongly: {b:?}"));
            }
        }
        other => return Err(format!("doc example not bound: {other:?}")),
    }
    // default used
    match bind(&button, &[("label".into(), V::s("x"))]) {
        Verdict::Bound(b) if b.params[1].1 == V::s("primary") && b.defaults_used == 1 => {}
        other => return Err(format!("default not applied: {other:?}")),
    }
    // "The component above is closed: any templates using an argument not listed will error."
    let closed = Sig {
        params: vec![("label".into(), Param::Req), ("variant".into(), Param::Inferred(V::s("primary")))],
        rest: None,
    };
    if !matches!(
        bind(&closed, &[("label".into(), V::s("x")), ("other".into(), V::I64(1))]),
        Verdict::Reject(Reason::Unknown(_))
    ) {
        return Err("closed component accepted an unknown argument".into());
    }
    if !matches!(bind(&closed, &[]), Verdict::Reject(Reason::Missing(_))) {
        return Err("missing required argument accepted".into());
    }
    // forms.input(name: string, label: string, required: bool = false) with required={true}
    let input = Sig {
        params: vec![
            ("name".into(), Param::TypedReq(Ty::String)),
            ("label".into(), Param::TypedReq(Ty::String)),
            ("required".into(), Param::TypedDef(Ty::Bool, V::Bool(false))),
        ],
        rest: None,
    };
    if !matches!(
        bind(
            &input,
            &[
                ("name".into(), V::s("email")),
                ("label".into(), V::s("Email Address")),
                ("required".into(), V::Bool(true))
            ]
        ),
        Verdict::Bound(_)
    ) {
        return Err("forms.input example rejected".into());
    }
    if !matches!(
        bind(&input, &[("name".into(), V::I64(1)), ("label".into(), V::s("x"))]),
        Verdict::Reject(Reason::Type(_))
    ) {
        return Err("integer accepted for a string parameter".into());
    }
    // number matches both integer and float
    for v in [V::I64(1), V::F64(1.5)] {
        if type_match(Ty::Number, &v) != Match::Yes {
            return Err("number must match integer and float".into());
        }
    }
    if type_match(Ty::Integer, &V::F64(1.5)) != Match::No || type_match(Ty::Float, &V::I64(1)) != Match::Unspecified {
        return Err("integer/float table".into());
    }
    // inferred type is enforced
    if !matches!(
        bind(&button, &[("label".into(), V::s("x")), ("variant".into(), V::I64(1))]),
        Verdict::Reject(Reason::Type(_))
    ) {
        return Err("inferred type not enforced".into());
    }
    Ok(())
}
