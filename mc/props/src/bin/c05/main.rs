//! C05 — components: arguments checked and bound, scope isolated, body passed, result not
//! re-escaped, fallback-prefix priority, recursion bounded, API == template call.
//!
//! Families (every program is registered and rendered on the real engine):
//!   calls              every signature (p, q: absent / required / `= none` / typed / typed+default /
//!                      inferred; with and without `...rest`) x every call (p, q and an undeclared x each
//!                      not supplied / literal forms / shorthand / through `{...m}`; self-closing, with
//!                      body, empty body) x every call site, judged by the binding table of the
//!                      documentation (comp.rs); the probe body prints every parameter, the rest map,
//!                      the body and isolation probes; each distinct call is also issued through
//!                      `render_component`
//!   calls-noescape     the same programs in `.txt` templates (autoescape off, API autoescape=false)
//!   mixed-escape       definition and caller in templates of different escaping modes
//!   pairs, nest3       (thorough) two calls in one template; three calls nested through bodies
//!   undefined-arg      pinned only: an argument whose value is undefined
//!   mismatched-default pinned only: `p: string = 1`
//!   recursion          self / body / mutual 2, 3 / through an include / in a loop / in a set, counted
//!                      down from d, started from a template, an include, a block, a component, the API
//!   priority           X defined in every subset of seven templates x four fallback-prefix lists,
//!                      registered at once and one by one in every order

mod bodies;
mod comp;

use comp::{BodyKind, Call, Form, Param, Sig, Site, Ty, Verdict};
use mccore::engine::{self, Out};
use mccore::vals::{self, V};
use mccore::{Acc, Family, Run, json};
use std::collections::BTreeMap;
use tera::{Context, Tera};

const COMP: &str = "X";

fn new_tera() -> Tera {
    let mut t = Tera::default();
    for (n, v) in comp::global_context() {
        t.global_context().insert_value(n, v.to_tera());
    }
    t
}

fn ctx_of(bindings: &[(String, V)]) -> Context {
    let mut c = Context::new();
    for (k, v) in bindings {
        if *v != V::Undef {
            c.insert_value(k.clone(), v.to_tera());
        }
    }
    c
}

fn ext_of(autoescape: bool) -> &'static str {
    if autoescape { ".html" } else { ".txt" }
}

/// Per-item counters, flushed once (string-keyed counters are too slow per case).
#[derive(Default)]
struct Tally {
    m: BTreeMap<&'static str, u64>,
}
impl Tally {
    fn add(&mut self, k: &'static str, n: u64) {
        if n > 0 {
            *self.m.entry(k).or_insert(0) += n;
        }
    }
    fn flush(self, acc: &mut Acc) {
        for (k, n) in self.m {
            acc.count(k, n);
        }
    }
}

fn tally_bound(t: &mut Tally, b: &comp::Bound) {
    t.add("defaults-applied", b.defaults_used as u64);
    t.add("collected-into-rest", b.rest_collected as u64);
    t.add("declared-type-checks", b.typed_checked as u64);
    t.add("inferred-type-checks", b.inferred_checked as u64);
}

/// Judges one template-route observation against the reference verdict.
/// Returns the outcome class.
#[allow(clippy::too_many_arguments)]
fn judge(
    acc: &mut Acc,
    what: &str,
    where_: &str,
    verdict: &Verdict,
    expected: Option<&(comp::Text, String, usize)>, // (component text, full expected, prefix length)
    out: &Out,
    case: &dyn Fn() -> serde_json::Value,
) -> &'static str {
    match (verdict, out) {
        (_, Out::Panic(p)) => {
            acc.violation(format!("panic:{what}:{where_}"), format!("the engine panicked: {p}"), case);
            "panic"
        }
        (Verdict::Reject(_), Out::Err(..)) => "rejected",
        (Verdict::Reject(r), Out::Ok(s)) => {
            acc.violation(
                format!("{what}-accepted:{}:{where_}", r.class()),
                format!("{}; the call must be rejected but rendered {s:?}", r.describe()),
                case,
            );
            "wrongly-accepted"
        }
        (Verdict::Bound(_), Out::Err(..)) => {
            acc.violation(
                format!("{what}-rejected:{where_}"),
                format!(
                    "the binding table accepts this call (expected {:?}) but the engine gave {}",
                    expected.map(|e| e.1.as_str()).unwrap_or(""),
                    out.show()
                ),
                case,
            );
            "wrongly-rejected"
        }
        (Verdict::Either(..), Out::Err(..)) => "unspecified:rejected",
        (Verdict::Bound(_) | Verdict::Either(..), Out::Ok(s)) => {
            let (text, full, prefix) = expected.expect("expected text for an accepted call");
            if s != full {
                let field = text.first_difference(*prefix, full, s);
                acc.violation(
                    format!("{what}-text:{field}:{where_}"),
                    format!("rendered {s:?}, the binding table gives {full:?} (first difference in `{field}`)"),
                    case,
                );
                "wrong-text"
            } else if matches!(verdict, Verdict::Either(..)) {
                "unspecified:bound"
            } else {
                "bound"
            }
        }
    }
}

/// One `calls` work item: one signature at one site, all calls, registered in one instance.
thread_local! {
    /// Set by the family `calls-after-refused-redefinition`.
    static AFTER_REFUSED_REDEFINITION: std::cell::Cell<bool> = const { std::cell::Cell::new(false) };
}

fn run_calls_item(cname: &str, sig: &Sig, site: Site, calls: &[Call], autoescape: bool, acc: &mut Acc, sample: bool) {
    let ext = ext_of(autoescape);
    let shared = comp::shared_templates(sig, cname, ext);
    let mut tpls = shared.clone();
    let mut progs = Vec::with_capacity(calls.len());
    for (i, call) in calls.iter().enumerate() {
        let m = call.spread_map();
        let expr = (call.body == BodyKind::SelfClosing).then(|| call.expression(cname));
        let prog = comp::site_program(site, &call.source(cname), expr.as_deref(), &m, &i.to_string(), ext);
        tpls.extend(prog.templates.iter().cloned());
        progs.push((prog, m));
    }
    let mut tera = new_tera();
    let batch_ok = engine::add_templates(&mut tera, &tpls).is_ok();
    if batch_ok && AFTER_REFUSED_REDEFINITION.with(|c| c.get()) {
        // The defining template is offered again with ANOTHER definition of the component (one
        // required parameter nobody supplies, another body) together with a template that uses an
        // unknown filter: the batch is refused at validation time and every call below must still
        // meet the definition that is registered.
        let redefinition = vec![
            (format!("c{ext}"), format!("{{% component {cname}(zzq) %}}REDEFINED{{{{ zzq }}}}{{% endcomponent {cname} %}}")),
            (format!("zz-bad{ext}"), "{{ 1 | zz_no_such_filter }}".to_string()),
        ];
        let r = engine::add_templates(&mut tera, &redefinition);
        acc.count(if r.is_ok() { "redefinition-batch-not-refused" } else { "redefinition-batch-refused" }, 1);
        if r.is_ok() {
            // acceptance is C07's business; without a refusal there is nothing to judge here
            acc.case(false, "redefinition-batch-not-refused");
            return;
        }
    }
    let mut tally = Tally::default();
    let declared = sig.declared_names().len();
    let mut sampled = false;

    for (i, call) in calls.iter().enumerate() {
        let (prog, m) = &progs[i];
        let case = || {
            let mut d = prog.describe();
            let o = d.as_object_mut().unwrap();
            let mut all = shared.clone();
            all.extend(prog.templates.iter().cloned());
            o.insert(
                "templates".into(),
                json!(all.iter().map(|(n, s)| json!({"name": n, "source": s})).collect::<Vec<_>>()),
            );
            o.insert("signature".into(), sig.describe());
            o.insert("call".into(), call.describe());
            o.insert("site".into(), json!(site.name()));
            o.insert("autoescape".into(), json!(autoescape));
            d
        };
        // a registration failure of the batch is pinned down program by program
        let single;
        let t: &Tera = if batch_ok {
            &tera
        } else {
            let mut one = new_tera();
            let mut all = shared.clone();
            all.extend(prog.templates.iter().cloned());
            let r = engine::add_templates(&mut one, &all);
            if !r.is_ok() {
                acc.violation(
                    format!("call-refused-at-registration:{}", site.name()),
                    format!("a syntactically valid call program was refused when it was added: {}", r.show()),
                    &case,
                );
                acc.case(true, "refused-at-registration");
                continue;
            }
            single = one;
            &single
        };

        let scope = comp::site_scope(site, m);
        let supplied = call.supplied(&scope);
        let verdict = comp::bind(sig, &supplied);
        let expected = match &verdict {
            Verdict::Bound(b) | Verdict::Either(b, _) => {
                let text = comp::expected_component(sig, cname, b, call, &scope, autoescape);
                let full = comp::site_wrap(site, &text.text);
                let prefix = full.find(&text.text).unwrap_or(0);
                Some((text, full, prefix))
            }
            Verdict::Reject(_) => None,
        };
        let out = engine::render(t, &prog.entry, &ctx_of(&prog.context));
        let class = judge(acc, "call", site.name(), &verdict, expected.as_ref(), &out, &case);
        let nontrivial = declared + supplied.len() > 0;
        match &verdict {
            Verdict::Reject(r) => acc.case(nontrivial, if class == "rejected" { reject_class(r) } else { class }),
            _ => acc.case(nontrivial, class),
        }
        if let Verdict::Bound(b) | Verdict::Either(b, _) = &verdict {
            if out.is_ok() {
                tally_bound(&mut tally, b);
            }
        }
        if sample && !sampled && class == "bound" && supplied.len() >= 2 {
            sampled = true;
            acc.sample(|| {
                let mut d = case();
                d.as_object_mut().unwrap().insert("observed".into(), json!(out.show()));
                d
            });
        }

        // the same call through the API: once per distinct (arguments, body); the scope only
        // matters for shorthand attributes and a non-empty body
        let scope_dependent =
            call.body == BodyKind::WithBody || call.args.iter().any(|(_, f)| *f == Form::Short);
        let api_here = match site {
            Site::Top => true,
            Site::Comp | Site::Loop => scope_dependent,
            _ => false,
        };
        if api_here && !supplied.iter().any(|(_, v)| *v == V::Undef) {
            let body = match call.body {
                BodyKind::SelfClosing => None,
                BodyKind::WithBody => Some(comp::body_text(&scope, autoescape)),
                BodyKind::EmptyBody => Some(String::new()),
            };
            let actx = ctx_of(&supplied);
            let aout = engine::to_out(engine::guarded(|| {
                t.render_component(cname, &actx, body.as_deref(), autoescape)
            }));
            let aexp = expected.as_ref().map(|(text, _, _)| (text.clone(), text.text.clone(), 0usize));
            let acase = || {
                json!({
                    "templates": shared.iter().map(|(n, s)| json!({"name": n, "source": s})).collect::<Vec<_>>(),
                    "api": format!("render_component({cname:?}, context, body, autoescape={autoescape})"),
                    "context": supplied.iter().map(|(n, v)| format!("{n} = {}", v.describe())).collect::<Vec<_>>(),
                    "body": body,
                    "signature": sig.describe(),
                    "equivalent_template_call": call.source(cname),
                    "template_call_gave": out.show(),
                })
            };
            let aclass = judge(acc, "api", site.name(), &verdict, aexp.as_ref(), &aout, &acase);
            // API and template route must agree with each other as well
            if out.class() != aout.class() && !matches!(aclass, "wrong-text" | "wrongly-accepted" | "wrongly-rejected" | "panic") {
                acc.violation(
                    format!("api-vs-template:{}", site.name()),
                    format!("template call gave {}, render_component gave {}", out.show(), aout.show()),
                    &acase,
                );
            }
            acc.case(nontrivial, &format!("api:{aclass}"));
        }
    }
    tally.flush(acc);
}

fn reject_class(r: &comp::Reason) -> &'static str {
    match r {
        comp::Reason::Unknown(_) => "rejected:unknown-argument",
        comp::Reason::Missing(_) => "rejected:missing-argument",
        comp::Reason::Type(_) => "rejected:type-mismatch",
    }
}

// ------------------------------------------------------------------------------------------------
// recursion

#[derive(Clone, Copy, Debug, PartialEq, Eq)]
enum RecKind {
    SelfCall,
    SelfWithBody,
    InsideBodyOfOther,
    Mutual2,
    Mutual3,
    ViaInclude,
    InLoop,
    InSet,
}

impl RecKind {
    const ALL: [RecKind; 8] = [
        RecKind::SelfCall,
        RecKind::SelfWithBody,
        RecKind::InsideBodyOfOther,
        RecKind::Mutual2,
        RecKind::Mutual3,
        RecKind::ViaInclude,
        RecKind::InLoop,
        RecKind::InSet,
    ];
    fn name(self) -> &'static str {
        match self {
            RecKind::SelfCall => "self",
            RecKind::SelfWithBody => "self-with-body",
            RecKind::InsideBodyOfOther => "inside-body-of-other",
            RecKind::Mutual2 => "mutual-2",
            RecKind::Mutual3 => "mutual-3",
            RecKind::ViaInclude => "through-include",
            RecKind::InLoop => "in-loop",
            RecKind::InSet => "in-set",
        }
    }
    /// Templates defining the recursive component(s). The entry component is `R`.
    /// `countdown = false`: the recursion never stops by itself.
    fn templates(self, countdown: bool) -> Vec<(String, String)> {
        let (sig, arg, cond_open, cond_else) = if countdown {
            ("n: integer", " n={n - 1}", "{% if n > 1 %}", "{% else %}END{% endif %}")
        } else {
            ("n: integer", " n={n}", "", "")
        };
        let def = |name: &str, tag: &str, inner: &str| {
            format!("{{% component {name}({sig}) %}}{tag}{{{{ n }}}}.{cond_open}{inner}{cond_else}{{% endcomponent {name} %}}")
        };
        match self {
            RecKind::SelfCall => vec![("r.html".into(), def("R", "", &format!("{{{{ <R{arg} /> }}}}")))],
            RecKind::SelfWithBody => vec![(
                "r.html".into(),
                def("R", "", &format!("{{% <R{arg}> %}}unused{{% </R> %}}")),
            )],
            RecKind::InsideBodyOfOther => vec![(
                "r.html".into(),
                format!(
                    "{}{{% component Wr() %}}({{{{ body }}}}){{% endcomponent Wr %}}",
                    def("R", "", &format!("{{% <Wr> %}}{{{{ <R{arg} /> }}}}{{% </Wr> %}}"))
                ),
            )],
            RecKind::Mutual2 => vec![
                ("r.html".into(), def("R", "a", &format!("{{{{ <B{arg} /> }}}}"))),
                ("b.html".into(), def("B", "b", &format!("{{{{ <R{arg} /> }}}}"))),
            ],
            RecKind::Mutual3 => vec![
                ("r.html".into(), def("R", "a", &format!("{{{{ <B{arg} /> }}}}"))),
                ("b.html".into(), def("B", "b", &format!("{{{{ <C{arg} /> }}}}"))),
                ("c.html".into(), def("C", "c", &format!("{{{{ <R{arg} /> }}}}"))),
            ],
            RecKind::ViaInclude => vec![
                (
                    "r.html".into(),
                    "{% component R(n: integer) %}{{ n }}.{% include \"ri.html\" %}{% endcomponent R %}".to_string(),
                ),
                ("ri.html".into(), format!("{cond_open}{{{{ <R{arg} /> }}}}{cond_else}")),
            ],
            RecKind::InLoop => vec![(
                "r.html".into(),
                def("R", "", &format!("{{% for i in [1] %}}{{{{ <R{arg} /> }}}}{{% endfor %}}")),
            )],
            RecKind::InSet => vec![(
                "r.html".into(),
                def("R", "", &format!("{{% set r = <R{arg} /> %}}{{{{ r }}}}")),
            )],
        }
    }
    /// Text of a finite recursion started with n = d.
    fn text(self, d: u64) -> String {
        let mut s = String::new();
        let mut close = String::new();
        for (level, n) in (1..=d).rev().enumerate() {
            let tag = match self {
                RecKind::Mutual2 => ["a", "b"][level % 2],
                RecKind::Mutual3 => ["a", "b", "c"][level % 3],
                _ => "",
            };
            s.push_str(&format!("{tag}{n}."));
            if self == RecKind::InsideBodyOfOther && n > 1 {
                s.push('(');
                close.push(')');
            }
        }
        s.push_str("END");
        s.push_str(&close);
        s
    }
}

#[derive(Clone, Copy, Debug, PartialEq, Eq)]
enum RecStart {
    Top,
    Include,
    Block,
    /// from inside a non-recursive component: one more level of nesting
    Component,
    Api,
}

impl RecStart {
    const ALL: [RecStart; 5] = [RecStart::Top, RecStart::Include, RecStart::Block, RecStart::Component, RecStart::Api];
    fn name(self) -> &'static str {
        match self {
            RecStart::Top => "top",
            RecStart::Include => "include",
            RecStart::Block => "block",
            RecStart::Component => "component",
            RecStart::Api => "api",
        }
    }
}

/// The nesting limit of the engine (`MAX_COMPONENT_RECURSION_DEPTH`), pinned from the source: the
/// documentation does not state a number.
const NESTING_LIMIT: u64 = 20;
const REC_DEPTHS: [u64; 10] = [1, 2, 18, 19, 20, 21, 22, 40, 10_000, u64::MAX];

fn run_recursion_item(kind: RecKind, start: RecStart, d: u64, acc: &mut Acc) {
    let countdown = d != u64::MAX;
    let n0 = if countdown { d } else { 5 };
    let mut tpls = kind.templates(countdown);
    let call = format!("{{{{ <R n={{{n0}}} /> }}}}");
    match start {
        RecStart::Top | RecStart::Api => tpls.push(("main.html".into(), format!("S[{call}]"))),
        RecStart::Include => {
            tpls.push(("s.html".into(), call.clone()));
            tpls.push(("main.html".into(), "S[{% include \"s.html\" %}]".into()));
        }
        RecStart::Block => {
            tpls.push(("base.html".into(), "S[{% block b %}{% endblock %}]".into()));
            tpls.push((
                "main.html".into(),
                format!("{{% extends \"base.html\" %}}{{% block b %}}{call}{{% endblock %}}"),
            ));
        }
        RecStart::Component => tpls.push((
            "main.html".into(),
            format!("{{% component St() %}}{call}{{% endcomponent St %}}S[{{{{ <St /> }}}}]"),
        )),
    }
    let nesting = if !countdown {
        u64::MAX
    } else if start == RecStart::Component {
        d + 1
    } else {
        d
    };
    let want_ok = nesting <= NESTING_LIMIT;
    let case = || {
        json!({
            "templates": tpls.iter().map(|(n, s)| json!({"name": n, "source": s})).collect::<Vec<_>>(),
            "kind": kind.name(),
            "start": start.name(),
            "counted_down_from": if countdown { json!(d) } else { json!("never stops") },
            "nesting": if countdown { json!(nesting) } else { json!("unbounded") },
            "entry": if start == RecStart::Api { format!("render_component(\"R\", {{n: {n0}}}, None, true)") } else { "render(\"main.html\", {})".to_string() },
        })
    };
    let mut tera = new_tera();
    let added = engine::add_templates(&mut tera, &tpls);
    if !added.is_ok() {
        acc.violation(
            format!("recursion-refused-at-registration:{}", kind.name()),
            format!("recursive component program refused when added: {}", added.show()),
            case,
        );
        acc.case(true, "refused-at-registration");
        return;
    }
    let out = if start == RecStart::Api {
        let mut c = Context::new();
        c.insert_value("n", V::I64(n0 as i64).to_tera());
        engine::to_out(engine::guarded(|| tera.render_component("R", &c, None, true)))
    } else {
        engine::render(&tera, "main.html", &Context::new())
    };
    let want_text = if countdown && want_ok {
        let t = kind.text(d);
        Some(if start == RecStart::Api { t } else { format!("S[{t}]") })
    } else {
        None
    };
    let where_ = if start == RecStart::Api { "api" } else { "template" };
    match (&out, want_ok) {
        (Out::Panic(p), _) => acc.violation(
            format!("panic:recursion:{}", kind.name()),
            format!("the engine panicked: {p}"),
            case,
        ),
        (Out::Ok(s), true) => {
            if Some(s) != want_text.as_ref() {
                acc.violation(
                    format!("recursion-text:{}:{}", kind.name(), start.name()),
                    format!("rendered {s:?}, expected {want_text:?}"),
                    case,
                );
            }
        }
        (Out::Err(..), false) => {}
        (Out::Err(..), true) => acc.violation(
            format!("recursion-rejected-within-limit:{where_}:{}", kind.name()),
            format!("nesting {nesting} <= {NESTING_LIMIT} must render, got {}", out.show()),
            case,
        ),
        (Out::Ok(s), false) => acc.violation(
            format!("recursion-limit-exceeded:{where_}:nesting-{}", if countdown { nesting.to_string() } else { "unbounded".into() }),
            format!(
                "nesting {} exceeds the limit of {NESTING_LIMIT} and must be an error (as it is for the same call written in a template), got Ok({:?})",
                if countdown { nesting.to_string() } else { "unbounded".into() },
                s.chars().take(60).collect::<String>()
            ),
            case,
        ),
    }
    // non-trivial: the recursion goes at least two levels deep
    acc.case(nesting >= 2, &format!("{}:{}", if want_ok { "within-limit" } else { "beyond-limit" }, out.class()));
    if kind == RecKind::Mutual3 && start == RecStart::Include && d == 20 {
        acc.sample(|| {
            let mut c = case();
            c.as_object_mut().unwrap().insert("observed".into(), json!(out.show()));
            c
        });
    }
}

// ------------------------------------------------------------------------------------------------
// fallback-prefix priority

// `p1z.html` is unprefixed and sorts between the two prefixes, so that with three priority levels
// every order of (best, middle, worst) in the name-sorted walk occurs (seeded change C05-1)
const PRIO_UNIVERSE: [&str; 7] = ["c.html", "other.html", "p1/c.html", "p1/d.html", "p1z.html", "p2/c.html", "z.html"];
const PRIO_PREFIX_LISTS: [&[&str]; 4] = [&[], &["p1/"], &["p1/", "p2/"], &["p2/", "p1/"]];
const PRIO_CALLERS: [&str; 3] = ["main.html", "p1/m.html", "p2/m.html"];

/// Documented rule (`set_fallback_prefixes`, `get_template_priority`): a template whose name starts
/// with the i-th prefix has priority i+1, any other template priority 0; lower number wins.
fn ref_priority(name: &str, prefixes: &[&str]) -> usize {
    for (i, p) in prefixes.iter().enumerate() {
        if name.starts_with(p) {
            return i + 1;
        }
    }
    0
}

#[derive(Debug, PartialEq)]
enum PrioVerdict {
    /// no definition at all: the callers reference an unknown component
    Undefined,
    /// two definitions share the highest priority present
    TopTie,
    /// a unique best definition, but two lower ones share a priority: documentation silent
    LowerTie(String),
    Winner(String),
}

fn ref_winner(defs: &[String], prefixes: &[&str]) -> PrioVerdict {
    if defs.is_empty() {
        return PrioVerdict::Undefined;
    }
    let prios: Vec<usize> = defs.iter().map(|d| ref_priority(d, prefixes)).collect();
    let best = *prios.iter().min().unwrap();
    if prios.iter().filter(|p| **p == best).count() > 1 {
        return PrioVerdict::TopTie;
    }
    let winner = defs[prios.iter().position(|p| *p == best).unwrap()].clone();
    let mut sorted = prios.clone();
    sorted.sort();
    if sorted.windows(2).any(|w| w[0] == w[1]) {
        return PrioVerdict::LowerTie(winner);
    }
    PrioVerdict::Winner(winner)
}

fn prio_def_source(name: &str) -> String {
    format!("{{% component X(o = \"{name}\") %}}from {name}{{% endcomponent X %}}[{{{{ <X /> }}}}]")
}

fn prio_new(prefixes: &[&str]) -> Tera {
    let mut t = Tera::default();
    t.set_fallback_prefixes(prefixes.iter().map(|s| s.to_string()).collect::<Vec<_>>())
        .expect("set_fallback_prefixes on an empty instance");
    t
}

/// Renders everything that can reach X and compares with the winner.
fn prio_check_winner(
    acc: &mut Acc,
    tera: &Tera,
    defs: &[String],
    winner: &str,
    with_callers: bool,
    case: &dyn Fn() -> serde_json::Value,
) {
    let want = format!("from {winner}");
    let mut bad = |how: &str, got: String| {
        acc.violation(
            format!("priority-wrong-definition:{how}"),
            format!("{how}: expected the definition of `{winner}` ({want:?}), got {got}"),
            case,
        );
    };
    let empty = Context::new();
    if with_callers {
        for c in PRIO_CALLERS {
            let o = engine::render(tera, c, &empty);
            if o.ok() != Some(want.as_str()) {
                bad("call-from-template", format!("{} from {c}", o.show()));
            }
        }
    }
    for d in defs {
        let o = engine::render(tera, d, &empty);
        if o.ok() != Some(format!("[{want}]").as_str()) {
            bad("call-from-defining-template", format!("{} from {d}", o.show()));
        }
    }
    let o = engine::to_out(engine::guarded(|| tera.render_component("X", &empty, None, true)));
    if o.ok() != Some(want.as_str()) {
        bad("render_component", o.show());
    }
    let o = engine::render_str(tera, "{{ <X /> }}", &empty, true);
    if o.ok() != Some(want.as_str()) {
        bad("render_str", o.show());
    }
    match engine::guarded(|| {
        tera.get_component_definition("X")
            .and_then(|i| i.args().first().and_then(|a| a.default().cloned()))
    }) {
        Ok(Some(v)) if v.as_str() == Some(winner) => {}
        other => bad("get_component_definition", format!("{other:?}")),
    }
}

fn permutations(n: usize) -> Vec<Vec<usize>> {
    fn rec(cur: &mut Vec<usize>, used: &mut Vec<bool>, out: &mut Vec<Vec<usize>>) {
        if cur.len() == used.len() {
            out.push(cur.clone());
            return;
        }
        for i in 0..used.len() {
            if !used[i] {
                used[i] = true;
                cur.push(i);
                rec(cur, used, out);
                cur.pop();
                used[i] = false;
            }
        }
    }
    let mut out = vec![];
    rec(&mut vec![], &mut vec![false; n], &mut out);
    out
}

fn run_priority_item(mask: u64, prefixes: &[&str], acc: &mut Acc) {
    let defs: Vec<String> = PRIO_UNIVERSE
        .iter()
        .enumerate()
        .filter(|(i, _)| mask >> i & 1 == 1)
        .map(|(_, n)| n.to_string())
        .collect();
    let verdict = ref_winner(&defs, prefixes);
    let callers: Vec<(String, String)> =
        PRIO_CALLERS.iter().map(|c| (c.to_string(), "{{ <X /> }}".to_string())).collect();
    let describe = |order: &str, names: &[String]| {
        json!({
            "fallback_prefixes": prefixes,
            "definitions": names.iter().map(|n| json!({"name": n, "source": prio_def_source(n), "priority": ref_priority(n, prefixes)})).collect::<Vec<_>>(),
            "callers": PRIO_CALLERS.iter().map(|c| json!({"name": c, "source": "{{ <X /> }}"})).collect::<Vec<_>>(),
            "registration": order,
        })
    };
    let nontrivial = defs.len() >= 2;

    // --- all at once
    let all_at_once = |names: &[String]| -> (Tera, Out) {
        let mut t = prio_new(prefixes);
        let mut tpls: Vec<(String, String)> = names.iter().map(|n| (n.clone(), prio_def_source(n))).collect();
        tpls.extend(callers.iter().cloned());
        let r = engine::add_templates(&mut t, &tpls);
        (t, r)
    };
    {
        let (t, added) = all_at_once(&defs);
        let case = || describe("add_raw_templates (one call)", &defs);
        let class = match (&verdict, &added) {
            (_, Out::Panic(p)) => {
                acc.violation("panic:priority", format!("panicked: {p}"), &case);
                "panic".to_string()
            }
            (PrioVerdict::Undefined, Out::Err(..)) => "undefined:rejected".into(),
            (PrioVerdict::Undefined, Out::Ok(_)) => {
                acc.violation("priority-unknown-component-accepted", "no template defines X but the callers were accepted", &case);
                "undefined:accepted".into()
            }
            (PrioVerdict::TopTie, Out::Err(..)) => "top-tie:rejected".into(),
            (PrioVerdict::TopTie, Out::Ok(_)) => {
                acc.violation(
                    "priority-tie-accepted",
                    "two definitions share the highest priority; registration must fail",
                    &case,
                );
                "top-tie:accepted".into()
            }
            (PrioVerdict::Winner(w), Out::Ok(_)) => {
                prio_check_winner(acc, &t, &defs, w, true, &case);
                // A configuration call that is REFUSED changes nothing: `set_fallback_prefixes` on
                // an instance that already has templates fails, and after one more (unrelated)
                // registration - which rebuilds the component table - the winner is still the one
                // of the prefixes the instance was built with. (Seeded change C05-13 stored the new
                // list before the "templates were already added" check.)
                for other in PRIO_PREFIX_LISTS.iter().filter(|l| **l != prefixes) {
                    let mut t2 = t.clone();
                    let refused = engine::guarded(|| t2.set_fallback_prefixes(other.iter().map(|s| s.to_string()).collect::<Vec<_>>()));
                    let case2 = || {
                        let mut j = case();
                        j.as_object_mut().unwrap().insert("then".into(), json!({"refused_call": format!("set_fallback_prefixes({other:?})"), "followed_by": "add_raw_template(\"zz-later.html\", \"later\")"}));
                        j
                    };
                    match refused {
                        Ok(Err(_)) => {}
                        Ok(Ok(())) => {
                            // documented: "must be called before adding templates"
                            acc.violation("priority-late-prefix-change-accepted", format!("set_fallback_prefixes({other:?}) on an instance holding templates returned Ok"), &case2);
                            continue;
                        }
                        Err(p) => {
                            acc.violation("panic:priority", format!("set_fallback_prefixes panicked: {p}"), &case2);
                            continue;
                        }
                    }
                    let later = engine::add_templates(&mut t2, &[("zz-later.html".to_string(), "later".to_string())]);
                    if !later.is_ok() {
                        acc.violation("priority-after-refused-prefix-change", format!("after the refused set_fallback_prefixes({other:?}) an unrelated add_raw_template failed: {}", later.show()), &case2);
                    } else {
                        prio_check_winner(acc, &t2, &defs, w, true, &case2);
                    }
                    acc.case(nontrivial, "winner:after-refused-prefix-change");
                }
                "winner:accepted".into()
            }
            (PrioVerdict::Winner(w), Out::Err(..)) => {
                acc.violation(
                    "priority-unique-winner-rejected",
                    format!("all definitions have distinct priorities ({w} wins) but registration failed: {}", added.show()),
                    &case,
                );
                "winner:rejected".into()
            }
            (PrioVerdict::LowerTie(w), Out::Ok(_)) => {
                prio_check_winner(acc, &t, &defs, w, true, &case);
                "lower-tie:accepted".into()
            }
            (PrioVerdict::LowerTie(_), Out::Err(..)) => "lower-tie:rejected".into(),
        };
        acc.case(nontrivial, &class);

        // A tie below the best definition: whether that is an error is not documented, but the
        // answer must not depend on how the templates happen to be called. Rename the priority-0
        // templates so that they sort before / after the prefixed ones and compare.
        if let PrioVerdict::LowerTie(w) = &verdict {
            let rename = |pre: &str| -> Vec<String> {
                defs.iter()
                    .map(|d| if ref_priority(d, prefixes) == 0 { format!("{pre}{d}") } else { d.clone() })
                    .collect()
            };
            let before = rename("a_");
            let after = rename("zz_");
            let (tb, rb) = all_at_once(&before);
            let (ta, ra) = all_at_once(&after);
            if rb.is_ok() != ra.is_ok() {
                let (bad, good, rbad) = if rb.is_ok() { (&after, &before, &ra) } else { (&before, &after, &rb) };
                acc.violation(
                    "priority-lower-tie-depends-on-template-names",
                    format!(
                        "the highest-priority definition is unique, two lower-priority ones tie: accepted when registered as {good:?} but refused as {bad:?} ({}); the verdict depends on the sort order of template names",
                        rbad.show()
                    ),
                    || describe("add_raw_templates (one call)", bad),
                );
            }
            for (t, r, names) in [(&tb, &rb, &before), (&ta, &ra, &after)] {
                if r.is_ok() {
                    let wn = names[defs.iter().position(|d| d == w).unwrap()].clone();
                    prio_check_winner(acc, t, names, &wn, true, &|| describe("add_raw_templates (one call)", names));
                }
                acc.case(true, &format!("lower-tie-renamed:{}", if r.is_ok() { "accepted" } else { "rejected" }));
            }
        }
    }

    // --- one by one, every order; stop at the first refusal
    if defs.len() >= 2 {
        for perm in permutations(defs.len()) {
            let order: Vec<String> = perm.iter().map(|i| defs[*i].clone()).collect();
            let case = || describe(&format!("add_raw_template one by one in this order: {order:?}, then the callers"), &order);
            let mut t = prio_new(prefixes);
            let mut class = "sequence:all-accepted";
            let mut alive = true;
            for k in 0..order.len() {
                let so_far = &order[..=k];
                let v = ref_winner(so_far, prefixes);
                let r = engine::to_out_unit(engine::guarded(|| t.add_raw_template(&order[k], &prio_def_source(&order[k]))));
                match (&v, &r) {
                    (_, Out::Panic(p)) => {
                        acc.violation("panic:priority", format!("panicked: {p}"), &case);
                        alive = false;
                    }
                    (PrioVerdict::TopTie, Out::Err(..)) => {
                        class = "sequence:top-tie-rejected";
                        alive = false;
                    }
                    (PrioVerdict::TopTie, Out::Ok(_)) => {
                        acc.violation(
                            "priority-tie-accepted",
                            format!("after adding {so_far:?} two definitions share the highest priority; the last add must fail"),
                            &case,
                        );
                        alive = false;
                    }
                    (PrioVerdict::Winner(w), Out::Ok(_)) | (PrioVerdict::LowerTie(w), Out::Ok(_)) => {
                        prio_check_winner(acc, &t, so_far, w, false, &case);
                    }
                    (PrioVerdict::Winner(w), Out::Err(..)) => {
                        acc.violation(
                            "priority-unique-winner-rejected",
                            format!("after adding {so_far:?} all priorities are distinct ({w} wins) but the add failed: {}", r.show()),
                            &case,
                        );
                        alive = false;
                    }
                    (PrioVerdict::LowerTie(_), Out::Err(..)) => {
                        class = "sequence:lower-tie-rejected";
                        alive = false;
                    }
                    (PrioVerdict::Undefined, _) => unreachable!(),
                }
                if !alive {
                    break;
                }
            }
            if alive {
                let r = engine::add_templates(&mut t, &callers);
                if !r.is_ok() {
                    acc.violation("priority-callers-rejected", format!("callers refused: {}", r.show()), &case);
                } else if let PrioVerdict::Winner(w) | PrioVerdict::LowerTie(w) = ref_winner(&order, prefixes) {
                    prio_check_winner(acc, &t, &order, &w, true, &case);
                }
            }
            acc.case(true, class);
        }
    }
    if mask == 0b010101 && prefixes.len() == 2 && prefixes[0] == "p1/" {
        acc.sample(|| describe("add_raw_templates (one call)", &defs));
    }
}

// ------------------------------------------------------------------------------------------------

fn calibration() -> Result<String, String> {
    // the value printer and the escaping table of comp.rs against the engine, outside components
    let t = Tera::default();
    let mut vs: Vec<V> = vec![];
    for w in 0..3 {
        for f in Form::ALL {
            if let Some(v) = comp::direct_value(f, w) {
                vs.push(v);
            }
        }
        vs.push(comp::spread_value(w));
    }
    for w in 0..2 {
        for ty in Ty::ALL {
            vs.push(comp::default_literal(ty, w, false));
            vs.push(comp::default_literal(ty, w, true));
        }
    }
    for (_, v) in comp::base_context() {
        vs.push(v);
    }
    vs.push(V::s("LP&"));
    vs.push(V::s("wp<"));
    vs.push(V::s("<w>"));
    vs.push(V::s("it's"));
    vs.push(V::map(&[("b", V::s("x<")), ("a", V::None), ("c", V::Arr(vec![V::None, V::Bool(true)]))]));
    let mut n = 0;
    for v in &vs {
        for autoescape in [true, false] {
            let ctx = vals::context(&[("v", v)]);
            for (src, want) in [
                ("{{ v }}", comp::esc(&comp::print_top(v), autoescape)),
                ("{{ [v] }}", comp::esc(&comp::print_nested(&V::Arr(vec![v.clone()])), autoescape)),
            ] {
                let o = engine::render_str(&t, src, &ctx, autoescape);
                if o.ok() != Some(want.as_str()) {
                    return Err(format!(
                        "value printer out of calibration: {src} with v = {} (autoescape={autoescape}) gives {}, comp.rs prints {want:?}",
                        v.describe(),
                        o.show()
                    ));
                }
                n += 1;
            }
            if let Some(lit) = v.literal() {
                let src = format!("{{{{ {lit} }}}}");
                let o = engine::render_str(&t, &src, &Context::new(), autoescape);
                let want = comp::esc(&comp::print_top(v), autoescape);
                if o.ok() != Some(want.as_str()) {
                    return Err(format!("literal out of calibration: {src} gives {}, expected {want:?}", o.show()));
                }
                n += 1;
            }
        }
    }
    // template-name suffix decides the escaping mode
    let mut t = Tera::default();
    let _ = t.add_raw_templates(vec![("a.html", "{{ h }}"), ("a.txt", "{{ h }}")]);
    let ctx = vals::context(&[("h", &V::s("<"))]);
    if engine::render(&t, "a.html", &ctx).ok() != Some("&lt;") || engine::render(&t, "a.txt", &ctx).ok() != Some("<") {
        return Err("autoescape is not decided by the .html / .txt suffix as assumed".into());
    }
    Ok(format!("{n} renderings of {} values agree with the reference printer", vs.len()))
}

fn main() {
    let mut run = Run::from_env("C05", "exploration");
    let thorough = run.tier.is_thorough();
    run.rule(
        "calls / calls-noescape: one case per (signature, call, call site) program and one per distinct \
         (signature, supplied arguments, body) issued through render_component; non-trivial = the signature declares \
         at least one parameter or the call supplies at least one argument (a row of the binding table is exercised). \
         pairs / nest3: one case per program of two / three calls (non-trivial = every call of it is accepted by the table, so all bindings are printed). \
         recursion: one case per (cycle shape, entry point, depth); non-trivial = at least two levels of nesting. \
         priority: one case per (definition subset, prefix list) registered at once, plus one per registration order; non-trivial = at least two definitions. \
         undefined-arg / mismatched-default: pinned outcomes only (no-panic is asserted). Cases are distinct by construction.",
    );
    run.assume("binding reference = the table of the documentation (docs/content/_index.md, Components) and of the property statement, written in comp.rs; it never calls the engine");
    run.assume("value printing and HTML escaping inside the probe body are not under test here (C01/C02): comp.rs's printer is calibrated against the engine at start-up (guard `printer-calibrated`)");
    run.assume("the nesting limit 20 is pinned from the source constant MAX_COMPONENT_RECURSION_DEPTH; the documentation states no number");
    run.assume("not asserted (documentation silent), outcomes only recorded: an integer supplied for a `float` parameter; an argument whose value is undefined; a default that does not match the declared type; a priority tie below a unique best definition (only its independence of template names is asserted); duplicate attributes in one call are not generated");
    run.assume("attribute order is fixed (p, q, x, then {...m}); every name is supplied through at most one route");
    run.assume("`bytes` parameter type (present in the source, absent from the documentation) is not explored");

    let types: &[Ty] = if thorough { &Ty::ALL } else { &Ty::QUICK };
    let forms: &[Form] = if thorough { &Form::ALL } else { &Form::QUICK };
    let sites: &[Site] = if thorough { &Site::ALL } else { &Site::QUICK };
    let bodies: &[BodyKind] = if thorough {
        &[BodyKind::SelfClosing, BodyKind::WithBody, BodyKind::EmptyBody]
    } else {
        &[BodyKind::SelfClosing, BodyKind::WithBody]
    };
    let sigs = comp::signatures(types);
    let calls = comp::calls(forms, bodies);
    let nsig = sigs.len() as u64;
    let nsite = sites.len() as u64;
    run.extra(
        "alphabets",
        json!({
            "parameter_shapes_p": comp::param_kinds(types, 0).iter().map(|p| p.source("p").unwrap_or("(absent)".into())).collect::<Vec<_>>(),
            "parameter_shapes_q": comp::param_kinds(types, 1).iter().map(|p| p.source("q").unwrap_or("(absent)".into())).collect::<Vec<_>>(),
            "rest": ["(none)", "...rest"],
            "argument_forms": forms.iter().enumerate().map(|(_, f)| json!({"form": f.name(), "p": Call::pqx(*f, Form::No, Form::No, BodyKind::SelfClosing).attributes().trim(), "q": Call::pqx(Form::No, *f, Form::No, BodyKind::SelfClosing).attributes().trim(), "x": Call::pqx(Form::No, Form::No, *f, BodyKind::SelfClosing).attributes().trim()})).collect::<Vec<_>>(),
            "spread_values": (0..3).map(|w| comp::spread_value(w).describe()).collect::<Vec<_>>(),
            "bodies": bodies.iter().map(|b| b.name()).collect::<Vec<_>>(),
            "body_source": comp::BODY_SOURCE,
            "call_sites": sites.iter().map(|s| json!({"site": s.name(), "program": comp::site_program(*s, "CALL", Some("<X />"), &V::Map(vec![]), "N", ".html").templates})).collect::<Vec<_>>(),
            "context": comp::base_context().iter().map(|(n, v)| format!("{n} = {}", v.describe())).collect::<Vec<_>>(),
            "global_context": comp::global_context().iter().map(|(n, v)| format!("{n} = {}", v.describe())).collect::<Vec<_>>(),
            "probe_body_example": Sig::pq(Param::Req, Param::Absent, true).definition(COMP, &["p", "q", "x"], &comp::ISO_PROBES),
            "recursion_depths": REC_DEPTHS.iter().map(|d| if *d == u64::MAX { "never stops".to_string() } else { d.to_string() }).collect::<Vec<_>>(),
            "recursion_kinds": RecKind::ALL.iter().map(|k| k.name()).collect::<Vec<_>>(),
            "recursion_entry_points": RecStart::ALL.iter().map(|k| k.name()).collect::<Vec<_>>(),
            "priority_templates": PRIO_UNIVERSE,
            "priority_prefix_lists": PRIO_PREFIX_LISTS,
        }),
    );
    run.extra(
        "bounds",
        json!({
            "signatures": nsig,
            "calls_per_signature_and_site": calls.len(),
            "call_sites": nsite,
            "call_programs": nsig * nsite * calls.len() as u64,
        }),
    );

    // ---------------------------------------------------------------- calls
    run.family(
        Family::new(
            "calls",
            nsig * nsite,
            &format!(
                "all {nsig} signatures x {} calls ({}^3 argument forms x {} body kinds) x {nsite} call sites, autoescape on; + API",
                calls.len(),
                forms.len(),
                bodies.len()
            ),
        )
        .describe(|i| json!({"signature": sigs[(i / nsite) as usize].describe(), "site": sites[(i % nsite) as usize].name()})),
        |item, acc: &mut Acc| {
            let sig = &sigs[(item / nsite) as usize];
            let site = sites[(item % nsite) as usize];
            run_calls_item(COMP, sig, site, &calls, true, acc, true);
        },
    );

    // ---------------------------------------------------------------- calls after a refused redefinition
    // "exactly its declared parameters": the ones of the definition that is registered. Seeded
    // change C05-5: a batch refused at validation time left its component table behind.
    let rd_sigs = comp::signatures_p_only(&Ty::QUICK);
    let n_rd = rd_sigs.len() as u64;
    run.family(
        Family::new(
            "calls-after-refused-redefinition",
            n_rd * nsite,
            &format!(
                "{n_rd} signatures (quick type alphabet, p only) x {} calls x {nsite} call sites, judged like `calls`, after add_raw_templates([the defining template with another definition of the component, a template using an unknown filter]) was refused on the same instance; + API",
                calls.len()
            ),
        )
        .describe(|i| json!({"signature": rd_sigs[(i / nsite) as usize].describe(), "site": sites[(i % nsite) as usize].name(), "history": "after a refused redefinition"})),
        |item, acc: &mut Acc| {
            let sig = &rd_sigs[(item / nsite) as usize];
            let site = sites[(item % nsite) as usize];
            AFTER_REFUSED_REDEFINITION.with(|c| c.set(true));
            run_calls_item(COMP, sig, site, &calls, true, acc, false);
            AFTER_REFUSED_REDEFINITION.with(|c| c.set(false));
        },
    );
    if run.is_supervisor() {
        let (r, n) = (run.counter("redefinition-batch-refused"), run.counter("redefinition-batch-not-refused"));
        run.guard("redefinition-batches-refused", r > 0 && n == 0, format!("{r} refused, {n} not refused"));
    }

    // ---------------------------------------------------------------- integer encodings against declared types
    // "a value not matching a declared or inferred type rejected" - and one that matches, bound:
    // `integer` means every integer, whatever width the embedder's Rust type had (seeded change
    // C05-9 asked `as_number()`, which has no answer for a u128 above i128::MAX).
    {
        let nums: Vec<V> = vec![
            V::I64(5), V::I64(i64::MIN), V::U64(u64::MAX), V::I128(i128::MIN), V::I128(i128::MAX), V::U128(7), V::U128(1 << 127), V::U128(u128::MAX),
            V::F64(2.0), V::F64(2.5),
        ];
        let decls: Vec<(&str, Option<Ty>)> = vec![
            ("n: integer", Some(Ty::Integer)),
            ("n = 0", Some(Ty::Integer)),
            ("n: number", Some(Ty::Number)),
            ("n: number = 1.5", Some(Ty::Number)),
            ("n: float", Some(Ty::Float)),
            ("n = 0.5", Some(Ty::Float)),
            ("n", None),
        ];
        let routes = ["shorthand", "explicit-variable", "spread", "api"];
        let n_items = (decls.len() * nums.len()) as u64;
        run.family(
            Family::new(
                "integer-encodings",
                n_items,
                &format!("{} parameter declarations (integer / number / float, declared and inferred, untyped) x {} numbers in every integer encoding (i64, u64, i128, u128 up to u128::MAX) and two floats x {} routes (shorthand, explicit variable, spread, render_component): bound and printed, or rejected, as the declared type says", decls.len(), nums.len(), routes.len()),
            ),
            |item, acc: &mut Acc| {
                let (decl, ty) = decls[item as usize / nums.len()];
                let v = &nums[item as usize % nums.len()];
                let mut t = new_tera();
                let def = format!("{{% component Num({decl}) %}}[{{{{ n }}}}]{{% endcomponent Num %}}");
                let tpls = vec![
                    ("c.txt".to_string(), def.clone()),
                    ("shorthand.txt".to_string(), "{{ <Num n /> }}".to_string()),
                    ("explicit-variable.txt".to_string(), "{{ <Num n={n} /> }}".to_string()),
                    ("spread.txt".to_string(), "{{ <Num {...m} /> }}".to_string()),
                ];
                if !engine::add_templates(&mut t, &tpls).is_ok() {
                    acc.violation("integer-encodings:refused-at-registration".to_string(), format!("the definition `{def}` and its callers were refused"), || json!({"templates": tpls}));
                    return;
                }
                let want = match ty.map(|ty| comp::type_match(ty, v)) {
                    None | Some(comp::Match::Yes) => Some(true),
                    Some(comp::Match::No) => Some(false),
                    Some(comp::Match::Unspecified) => None,
                };
                let shown = engine::render_str(&t, "{{ n }}", &ctx_of(&[("n".to_string(), v.clone())]), false);
                for route in routes {
                    let ctx = ctx_of(&[("n".to_string(), v.clone()), ("m".to_string(), V::map(&[("n", v.clone())]))]);
                    let out = if route == "api" {
                        engine::to_out(engine::guarded(|| t.render_component("Num", &ctx_of(&[("n".to_string(), v.clone())]), None, false)))
                    } else {
                        engine::render(&t, &format!("{route}.txt"), &ctx)
                    };
                    let case = || json!({"definition": def, "route": route, "n": v.describe()});
                    let class = match (&out, want) {
                        (Out::Panic(p), _) => {
                            acc.violation("integer-encodings:panic".to_string(), format!("panicked: {p}"), case);
                            "panic"
                        }
                        (Out::Ok(text), Some(true)) | (Out::Ok(text), None) => {
                            let expect = format!("[{}]", shown.ok().unwrap_or("?"));
                            if *text != expect {
                                acc.violation(format!("integer-encodings:wrong-text:{route}"), format!("rendered {text:?}, expected {expect:?}"), case);
                            }
                            "bound"
                        }
                        (Out::Err(..), Some(false)) | (Out::Err(..), None) => "rejected",
                        (Out::Err(k, m), Some(true)) => {
                            acc.violation(format!("integer-encodings:matching-value-rejected:{route}"), format!("`{decl}` rejected {}: {k}: {}", v.describe(), m.lines().next().unwrap_or("")), case);
                            "WRONGLY-REJECTED"
                        }
                        (Out::Ok(text), Some(false)) => {
                            acc.violation(format!("integer-encodings:mismatching-value-bound:{route}"), format!("`{decl}` bound {} and rendered {text:?}", v.describe()), case);
                            "WRONGLY-BOUND"
                        }
                    };
                    acc.case(true, &format!("integer-encodings:{class}"));
                }
            },
        );
    }

    // ---------------------------------------------------------------- calls-noescape
    // the quick alphabets again, in .txt templates (nothing may be escaped; API autoescape=false)
    let ne_sigs = if thorough { comp::signatures(&Ty::QUICK) } else { comp::signatures_p_only(&Ty::QUICK) };
    let ne_calls = comp::calls(&Form::QUICK, bodies);
    let n_ne = ne_sigs.len() as u64;
    run.family(
        Family::new(
            "calls-noescape",
            n_ne * nsite,
            &format!(
                "{n_ne} signatures (quick type alphabet{}) x {} calls x {nsite} call sites in .txt templates (autoescape off), component under the dotted name `ns.X`; + API with autoescape=false",
                if thorough { "" } else { ", p only" },
                ne_calls.len()
            ),
        ),
        |item, acc: &mut Acc| {
            let sig = &ne_sigs[(item / nsite) as usize];
            let site = sites[(item % nsite) as usize];
            run_calls_item("ns.X", sig, site, &ne_calls, false, acc, true);
        },
    );

    // ---------------------------------------------------------------- mixed-escape
    // definition in a template of one escaping mode, caller in the other: the body must be rendered
    // in the caller's mode (statement); which mode the component's own output uses is not documented,
    // both are accepted (and recorded).
    let mx_sigs = comp::signatures_p_only(types);
    let mut mx_calls = vec![];
    for p in forms {
        for x in forms {
            for b in bodies {
                mx_calls.push(Call::pqx(*p, Form::No, *x, *b));
            }
        }
    }
    let n_mx = mx_sigs.len() as u64;
    run.family(
        Family::new(
            "mixed-escape",
            n_mx * 2,
            &format!(
                "{n_mx} single-parameter signatures x {} calls (p, x forms x bodies) at top level, definition in .html / caller in .txt and the reverse",
                mx_calls.len()
            ),
        ),
        |item, acc: &mut Acc| {
            let sig = &mx_sigs[(item / 2) as usize];
            let caller_escapes = item % 2 == 0;
            let (def_ext, call_ext) = if caller_escapes { (".txt", ".html") } else { (".html", ".txt") };
            let mut tpls = vec![(format!("c{def_ext}"), sig.definition(COMP, &["p", "q", "x"], &comp::ISO_PROBES))];
            let mut progs = vec![];
            for (i, call) in mx_calls.iter().enumerate() {
                let m = call.spread_map();
                let prog = comp::site_program(Site::Top, &call.source(COMP), None, &m, &i.to_string(), call_ext);
                tpls.extend(prog.templates.iter().cloned());
                progs.push((prog, m));
            }
            let mut tera = new_tera();
            let added = engine::add_templates(&mut tera, &tpls);
            if !added.is_ok() {
                acc.violation("mixed-escape-refused-at-registration", added.show(), || json!({"templates": tpls}));
                return;
            }
            for (i, call) in mx_calls.iter().enumerate() {
                let (prog, m) = &progs[i];
                let scope = comp::site_scope(Site::Top, m);
                let supplied = call.supplied(&scope);
                let verdict = comp::bind(sig, &supplied);
                let out = engine::render(&tera, &prog.entry, &ctx_of(&prog.context));
                let case = || {
                    let mut d = prog.describe();
                    let o = d.as_object_mut().unwrap();
                    let mut all = vec![tpls[0].clone()];
                    all.extend(prog.templates.iter().cloned());
                    o.insert("templates".into(), json!(all.iter().map(|(n, s)| json!({"name": n, "source": s})).collect::<Vec<_>>()));
                    o.insert("signature".into(), sig.describe());
                    o.insert("call".into(), call.describe());
                    d
                };
                let class: String = match (&verdict, &out) {
                    (_, Out::Panic(p)) => {
                        acc.violation("panic:mixed-escape", format!("panicked: {p}"), &case);
                        "panic".into()
                    }
                    (Verdict::Reject(_), Out::Err(..)) => "rejected".into(),
                    (Verdict::Reject(r), Out::Ok(s)) => {
                        acc.violation(format!("call-accepted:{}:mixed-escape", r.class()), format!("{}; rendered {s:?}", r.describe()), &case);
                        "wrongly-accepted".into()
                    }
                    (Verdict::Either(..), Out::Err(..)) => "unspecified:rejected".into(),
                    (Verdict::Bound(_), Out::Err(..)) => {
                        acc.violation("call-rejected:mixed-escape", format!("accepted by the table, engine gave {}", out.show()), &case);
                        "wrongly-rejected".into()
                    }
                    (Verdict::Bound(b) | Verdict::Either(b, _), Out::Ok(s)) => {
                        // body always in the caller's mode; component's own fields in either mode
                        let body = match call.body {
                            BodyKind::SelfClosing => None,
                            BodyKind::WithBody => Some(comp::body_text(&scope, caller_escapes)),
                            BodyKind::EmptyBody => Some(String::new()),
                        };
                        let as_caller = comp::component_text(sig, COMP, &["p", "q", "x"], comp::ISO_PROBES.len(), b, body.as_deref(), caller_escapes);
                        let as_definer = comp::component_text(sig, COMP, &["p", "q", "x"], comp::ISO_PROBES.len(), b, body.as_deref(), !caller_escapes);
                        // "rendering a component through the API gives the same text as the equivalent
                        // call from a template": the equivalent API call passes the calling template's
                        // escaping mode as its flag, whatever the mode of the defining template
                        // (seeded change C05-3: nested VM built on the defining template)
                        if !supplied.iter().any(|(_, v)| *v == V::Undef) {
                            let actx = ctx_of(&supplied);
                            let aout = engine::to_out(engine::guarded(|| tera.render_component(COMP, &actx, body.as_deref(), caller_escapes)));
                            if let Out::Ok(atext) = &aout {
                                if comp::site_wrap(Site::Top, atext) != *s {
                                    acc.violation(
                                        "api-vs-template:mixed-escape",
                                        format!("template call from a {call_ext} template rendered {s:?}; render_component(.., autoescape={caller_escapes}) rendered {atext:?}"),
                                        &case,
                                    );
                                }
                            } else {
                                acc.violation("api-vs-template:mixed-escape", format!("template call rendered {s:?}, render_component gave {}", aout.show()), &case);
                            }
                        }
                        if *s == comp::site_wrap(Site::Top, &as_caller.text) {
                            "bound:component-output-in-callers-mode".into()
                        } else if *s == comp::site_wrap(Site::Top, &as_definer.text) {
                            "bound:component-output-in-definers-mode".into()
                        } else {
                            let full = comp::site_wrap(Site::Top, &as_caller.text);
                            let field = as_caller.first_difference(2, &full, s);
                            acc.violation(
                                format!("call-text:{field}:mixed-escape"),
                                format!("rendered {s:?}; expected {full:?} (or the component's own fields in the other escaping mode; the body always in the caller's)"),
                                &case,
                            );
                            "wrong-text".into()
                        }
                    }
                };
                acc.case(call.body == BodyKind::WithBody || !supplied.is_empty(), &class);
            }
        },
    );

    // ---------------------------------------------------------------- pairs and nest3
    // quick: the p-only signatures (two calls of one component in one template, three nested through
    // bodies: state that survives from one invocation to the next shows only here)
    let q_sigs = if thorough { comp::signatures(&Ty::QUICK) } else { comp::signatures_p_only(&Ty::QUICK) };
    let q_args: Vec<Call> = comp::calls(&Form::QUICK, &[BodyKind::SelfClosing]);
    let nq = Form::QUICK.len() as u64;
    {
        let nqs = q_sigs.len() as u64;
        run.family(
            Family::new(
                "pairs",
                nqs * nq,
                &format!(
                    "{nqs} signatures (quick alphabet) x every ordered pair (first, second) of the {} self-closing calls whose first call the binding table accepts, written one after the other in one template",
                    q_args.len()
                ),
            ),
            |item, acc: &mut Acc| {
                let sig = &q_sigs[(item / nq) as usize];
                let p1 = (item % nq) as usize;
                let per_p = q_args.len() / nq as usize;
                let firsts = &q_args[p1 * per_p..(p1 + 1) * per_p];
                let shared = comp::shared_templates(sig, COMP, ".html");
                let scope = comp::site_scope(Site::Top, &V::Map(vec![]));
                // judge every single call once
                let judge_one = |c: &Call| -> (Verdict, Option<String>) {
                    let v = comp::bind(sig, &c.supplied(&scope));
                    let t = match &v {
                        Verdict::Bound(b) | Verdict::Either(b, _) => Some(comp::expected_component(sig, COMP, b, c, &scope, true).text),
                        _ => None,
                    };
                    (v, t)
                };
                let judged: Vec<(Verdict, Option<String>)> = q_args.iter().map(judge_one).collect();
                for (i1, c1) in firsts.iter().enumerate() {
                    let (v1, t1) = &judged[p1 * per_p + i1];
                    if matches!(v1, Verdict::Reject(_)) {
                        // a rejected first call aborts the render before the second one is reached;
                        // such calls are covered one by one in `calls`
                        acc.count("first-calls-rejected-by-the-table-not-paired", 1);
                        continue;
                    }
                    let mut tpls = shared.clone();
                    for (i2, c2) in q_args.iter().enumerate() {
                        tpls.push((
                            format!("t{i2}.html"),
                            format!("{}|{}", c1.source_full(COMP, "", "m"), c2.source_full(COMP, "", "m2")),
                        ));
                    }
                    let mut tera = new_tera();
                    let added = engine::add_templates(&mut tera, &tpls);
                    if !added.is_ok() {
                        acc.violation("pairs-refused-at-registration", added.show(), || json!({"templates": tpls, "signature": sig.describe()}));
                        continue;
                    }
                    for (i2, c2) in q_args.iter().enumerate() {
                        let (v2, t2) = &judged[i2];
                        let mut ctx = comp::base_context();
                        ctx.push(("m".into(), c1.spread_map()));
                        ctx.push(("m2".into(), c2.spread_map()));
                        let out = engine::render(&tera, &format!("t{i2}.html"), &ctx_of(&ctx));
                        let case = || {
                            json!({
                                "templates": [shared[0], (format!("t{i2}.html"), &tpls[shared.len() + i2].1)],
                                "render": format!("t{i2}.html"),
                                "context": ctx.iter().map(|(n, v)| format!("{n} = {}", v.describe())).collect::<Vec<_>>(),
                                "signature": sig.describe(),
                                "first_call": c1.describe(),
                                "second_call": c2.describe(),
                            })
                        };
                        let any_reject = matches!(v1, Verdict::Reject(_)) || matches!(v2, Verdict::Reject(_));
                        let any_unspec = matches!(v1, Verdict::Either(..)) || matches!(v2, Verdict::Either(..));
                        let class = match (&out, any_reject) {
                            (Out::Panic(p), _) => {
                                acc.violation("panic:pairs", format!("panicked: {p}"), &case);
                                "panic"
                            }
                            (Out::Err(..), true) => "rejected",
                            (Out::Ok(s), true) => {
                                acc.violation("pair-accepted", format!("one of the two calls must be rejected, rendered {s:?}"), &case);
                                "wrongly-accepted"
                            }
                            (Out::Err(..), false) if any_unspec => "unspecified:rejected",
                            (Out::Err(..), false) => {
                                acc.violation("pair-rejected", format!("both calls are accepted by the table, got {}", out.show()), &case);
                                "wrongly-rejected"
                            }
                            (Out::Ok(s), false) => {
                                let want = format!("{}|{}", t1.as_ref().unwrap(), t2.as_ref().unwrap());
                                if *s != want {
                                    let first_differs = !s.starts_with(&format!("{}|", t1.as_ref().unwrap()));
                                    acc.violation(
                                        format!("pair-text:{}", if first_differs { "first-call" } else { "second-call" }),
                                        format!("rendered {s:?}, expected {want:?}"),
                                        &case,
                                    );
                                    "wrong-text"
                                } else if any_unspec {
                                    "unspecified:bound"
                                } else {
                                    "bound"
                                }
                            }
                        };
                        acc.case(!any_reject, class);
                    }
                }
            },
        );

        // nest3: {% <X a1> %}n1({% <X a2> %}n2({{ <X a3 /> }}){% </X> %}){% </X> %}
        let n_sigs = comp::signatures_p_only(&Ty::QUICK);
        let mut n_args = vec![];
        for p in Form::QUICK {
            for x in Form::QUICK {
                n_args.push(Call::pqx(p, Form::No, x, BodyKind::WithBody));
            }
        }
        let na = n_args.len() as u64;
        let nns = n_sigs.len() as u64;
        run.family(
            Family::new(
                "nest3",
                nns * na,
                &format!("{nns} single-parameter signatures (quick alphabet) x {na}^3 argument choices for three calls nested through their bodies"),
            ),
            |item, acc: &mut Acc| {
                let sig = &n_sigs[(item / na) as usize];
                let c1 = &n_args[(item % na) as usize];
                let shared = comp::shared_templates(sig, COMP, ".html");
                let mut tpls = shared.clone();
                let mut cases = vec![];
                for (i2, c2) in n_args.iter().enumerate() {
                    for (i3, c3) in n_args.iter().enumerate() {
                        let mut inner = c3.clone();
                        inner.body = BodyKind::SelfClosing;
                        let src = c1.source_full(
                            COMP,
                            &format!(
                                "n1({})",
                                c2.source_full(COMP, &format!("n2({})", inner.source_full(COMP, "", "m3")), "m2")
                            ),
                            "m",
                        );
                        let name = format!("t{i2}_{i3}.html");
                        tpls.push((name.clone(), src));
                        cases.push((name, c2, inner, tpls.len() - 1));
                    }
                }
                let mut tera = new_tera();
                let added = engine::add_templates(&mut tera, &tpls);
                if !added.is_ok() {
                    acc.violation("nest3-refused-at-registration", added.show(), || json!({"signature": sig.describe(), "outer": c1.describe()}));
                    return;
                }
                for (name, c2, c3, ti) in &cases {
                    let scope = comp::site_scope(Site::Top, &V::Map(vec![]));
                    let mut ctx = comp::base_context();
                    ctx.push(("m".into(), c1.spread_map()));
                    ctx.push(("m2".into(), c2.spread_map()));
                    ctx.push(("m3".into(), c3.spread_map()));
                    let v3 = comp::bind(sig, &c3.supplied(&scope));
                    let v2 = comp::bind(sig, &c2.supplied(&scope));
                    let v1 = comp::bind(sig, &c1.supplied(&scope));
                    let vs = [&v1, &v2, &v3];
                    let any_reject = vs.iter().any(|v| matches!(v, Verdict::Reject(_)));
                    let any_unspec = vs.iter().any(|v| matches!(v, Verdict::Either(..)));
                    let want = if any_reject {
                        None
                    } else {
                        let b = |v: &Verdict| match v {
                            Verdict::Bound(b) | Verdict::Either(b, _) => b.clone(),
                            _ => unreachable!(),
                        };
                        let names = ["p", "q", "x"];
                        let n = comp::ISO_PROBES.len();
                        let t3 = comp::component_text(sig, COMP, &names, n, &b(&v3), None, true).text;
                        let t2 = comp::component_text(sig, COMP, &names, n, &b(&v2), Some(&format!("n2({t3})")), true).text;
                        Some(comp::component_text(sig, COMP, &names, n, &b(&v1), Some(&format!("n1({t2})")), true).text)
                    };
                    let out = engine::render(&tera, name, &ctx_of(&ctx));
                    let case = || {
                        json!({
                            "templates": [shared[0], tpls[*ti]],
                            "render": name,
                            "context": ctx.iter().map(|(n, v)| format!("{n} = {}", v.describe())).collect::<Vec<_>>(),
                            "signature": sig.describe(),
                            "calls_outer_to_inner": [c1.describe(), c2.describe(), c3.describe()],
                        })
                    };
                    let class = match (&out, &want) {
                        (Out::Panic(p), _) => {
                            acc.violation("panic:nest3", format!("panicked: {p}"), &case);
                            "panic"
                        }
                        (Out::Err(..), None) => "rejected",
                        (Out::Ok(s), None) => {
                            acc.violation("nest3-accepted", format!("one of the calls must be rejected, rendered {s:?}"), &case);
                            "wrongly-accepted"
                        }
                        (Out::Err(..), Some(_)) if any_unspec => "unspecified:rejected",
                        (Out::Err(..), Some(w)) => {
                            acc.violation("nest3-rejected", format!("expected {w:?}, got {}", out.show()), &case);
                            "wrongly-rejected"
                        }
                        (Out::Ok(s), Some(w)) => {
                            if s != w {
                                acc.violation("nest3-text", format!("rendered {s:?}, expected {w:?}"), &case);
                                "wrong-text"
                            } else if any_unspec {
                                "unspecified:bound"
                            } else {
                                "bound"
                            }
                        }
                    };
                    acc.case(!any_reject, class);
                }
            },
        );
    }

    // ---------------------------------------------------------------- body-contents
    // What the body of a call is made of (bodies.rs): every forest of at most N nodes.
    {
        let max_nodes = if thorough { 6 } else { 5 };
        let per_size: Vec<u64> = (1..=max_nodes).map(bodies::forests).collect();
        let total: u64 = per_size.iter().sum();
        run.family(
            Family::new(
                "body-contents",
                total,
                &format!(
                    "every ordered forest of <= {max_nodes} nodes over {{text, caller variable, include (whose template makes a call with a body itself), loop, the counters of the loop the call sits in; nested call with body, set block, filter section (also empty)}} as the body of one call ({}): rendered by name and through render_str, against the text the forest denotes",
                    per_size.iter().enumerate().map(|(i, n)| format!("{} nodes: {n}", i + 1)).collect::<Vec<_>>().join(", ")
                ),
            )
            .describe(|i| {
                let (mut n, mut idx) = (1usize, i);
                while idx >= bodies::forests(n) {
                    idx -= bodies::forests(n);
                    n += 1;
                }
                json!({"main": bodies::source(&bodies::unrank_forest(n, idx))})
            }),
            |item, acc: &mut Acc| {
                let (mut n, mut idx) = (1usize, item);
                while idx >= bodies::forests(n) {
                    idx -= bodies::forests(n);
                    n += 1;
                }
                let forest = bodies::unrank_forest(n, idx);
                let main = bodies::source(&forest);
                let want = bodies::expected(&forest);
                let tpls = vec![
                    (format!("comps{}", bodies::EXT), bodies::BOX.to_string()),
                    (format!("part{}", bodies::EXT), bodies::PART.to_string()),
                    (format!("main{}", bodies::EXT), main.clone()),
                ];
                let case = || json!({"templates": tpls, "render": format!("main{}", bodies::EXT), "context": {bodies::CALLER_VAR.0: bodies::CALLER_VAR.1}, "expected": want});
                let mut tera = Tera::default();
                let added = engine::add_templates(&mut tera, &tpls);
                if !added.is_ok() {
                    acc.violation("body-contents:refused-at-registration", added.show(), &case);
                    acc.case(false, "refused");
                    return;
                }
                let mut ctx = Context::new();
                ctx.insert(bodies::CALLER_VAR.0, bodies::CALLER_VAR.1);
                let by_name = engine::render(&tera, &format!("main{}", bodies::EXT), &ctx);
                let one_off = match engine::guarded(|| tera.render_str(&main, &ctx, false)) {
                    Ok(Ok(s)) => Out::Ok(s),
                    Ok(Err(e)) => Out::Err(engine::kind_tag(e.kind()).to_string(), engine::err_message(&e)),
                    Err(p) => Out::Panic(p),
                };
                let d = bodies::depth(&forest);
                let class = format!(
                    "depth-{d}{}",
                    if bodies::has_include_under_wrapper(&forest, false) { "/include-under-2-or-more-captures" } else { "" }
                );
                for (api, out) in [("render", &by_name), ("render_str", &one_off)] {
                    match out {
                        Out::Ok(s) if *s == want => acc.case(true, &class),
                        Out::Ok(s) => {
                            acc.violation(format!("body-contents:wrong-text:{api}"), format!("{api} gave {s:?}, the body denotes {want:?}"), &case);
                            acc.case(true, "wrong-text");
                        }
                        Out::Err(..) => {
                            acc.violation(format!("body-contents:refused:{api}"), format!("{api} failed: {}", out.show()), &case);
                            acc.case(true, "refused");
                        }
                        Out::Panic(p) => {
                            acc.violation(format!("body-contents:panic:{api}"), format!("{api} panicked: {p}"), &case);
                            acc.case(true, "panic");
                        }
                    }
                }
            },
        );
    }

    // ---------------------------------------------------------------- undefined-arg (pinned)
    let u_sigs = comp::signatures_p_only(&Ty::ALL);
    let n_us = u_sigs.len() as u64;
    run.family(
        Family::new(
            "undefined-arg",
            n_us,
            &format!("{n_us} single-parameter signatures x 4 ways to supply an undefined value x 2 targets (p, undeclared x): outcomes recorded, only no-panic asserted"),
        ),
        |item, acc: &mut Acc| {
            let sig = &u_sigs[item as usize];
            let def = format!(
                "{{% component X({}) %}}<p={{{{ p | default(value=\"UNDEF\") }}}};x={{{{ x | default(value=\"UNDEF\") }}}};rest={{{{ rest | default(value=\"ISO\") }}}}>{{% endcomponent X %}}",
                sig.params_source()
            );
            let ways: [(&str, &str); 4] = [
                ("direct", "{{ <X NAME={nope} /> }}"),
                ("attribute-of-undefined", "{{ <X NAME={nope.a} /> }}"),
                ("shorthand", "{{ <X NAME /> }}"),
                ("spread", "{{ <X {...m} /> }}"),
            ];
            for target in ["p", "x"] {
                for (way, tpl) in ways {
                    let src = tpl.replace("NAME", target);
                    let mut tera = new_tera();
                    let tpls = vec![("c.html".to_string(), def.clone()), ("t.html".to_string(), src.clone())];
                    let added = engine::add_templates(&mut tera, &tpls);
                    let m = V::Map(vec![(vals::K::Str(target.into()), V::Undef)]);
                    let out = if added.is_ok() {
                        engine::render(&tera, "t.html", &vals::context(&[("m", &m)]))
                    } else {
                        added.clone()
                    };
                    if let Out::Panic(p) = &out {
                        acc.violation(
                            format!("panic:undefined-arg:{way}"),
                            format!("panicked: {p}"),
                            || json!({"templates": tpls, "context": format!("m = {}", m.describe())}),
                        );
                    }
                    let pclass = if target == "p" { sig.params[0].1.class() } else if sig.rest.is_some() { "undeclared-with-rest" } else { "undeclared-no-rest" };
                    acc.case(true, &format!("pinned:{way}:{target}:{pclass}:{}", out.class()));
                    if item == 3 && way == "direct" {
                        acc.sample(|| json!({"templates": tpls, "observed": out.show()}));
                    }
                }
            }
        },
    );

    // ---------------------------------------------------------------- mismatched-default (pinned)
    let md_defaults: Vec<V> = vec![
        V::s("d"),
        V::Bool(true),
        V::I64(3),
        V::F64(0.5),
        V::Arr(vec![V::I64(9)]),
        V::map(&[("d", V::I64(0))]),
        V::None,
    ];
    let n_md = (Ty::ALL.len() * md_defaults.len()) as u64;
    run.family(
        Family::new(
            "mismatched-default",
            n_md,
            "every declared type x every default literal kind that does not match it: a supplied matching value must still be bound; what happens to the default is only recorded",
        ),
        |item, acc: &mut Acc| {
            let ty = Ty::ALL[item as usize / md_defaults.len()];
            let d = &md_defaults[item as usize % md_defaults.len()];
            if comp::type_match(ty, d) == comp::Match::Yes {
                return;
            }
            let sig = Sig::pq(Param::TypedDef(ty, d.clone()), Param::Absent, false);
            let shared = comp::shared_templates(&sig, COMP, ".html");
            let good = comp::default_literal(ty, 0, false);
            let supplied_call = format!("{{{{ <X p={{ {} }} /> }}}}", good.literal().unwrap());
            let mut tpls = shared.clone();
            tpls.push(("a.html".into(), "{{ <X /> }}".into()));
            tpls.push(("b.html".into(), supplied_call));
            let case = || json!({"templates": tpls, "render": ["a.html", "b.html"]});
            let mut tera = new_tera();
            let added = engine::add_templates(&mut tera, &tpls);
            match &added {
                Out::Panic(p) => {
                    acc.violation("panic:mismatched-default", format!("panicked: {p}"), &case);
                    acc.case(true, "panic");
                }
                Out::Err(..) => acc.case(true, "pinned:definition-refused"),
                Out::Ok(_) => {
                    let a = engine::render(&tera, "a.html", &Context::new());
                    if a.is_panic() {
                        acc.violation("panic:mismatched-default", a.show(), &case);
                    }
                    acc.case(true, &format!("pinned:default-not-supplied:{}", a.class()));
                    let b = engine::render(&tera, "b.html", &Context::new());
                    let bound = comp::Bound { params: vec![("p".into(), good.clone())], ..Default::default() };
                    let want = comp::component_text(&sig, COMP, &["p", "q", "x"], comp::ISO_PROBES.len(), &bound, None, true).text;
                    if b.ok() != Some(want.as_str()) {
                        acc.violation(
                            "mismatched-default:supplied-value-not-bound",
                            format!("a value of the declared type was supplied; expected {want:?}, got {}", b.show()),
                            &case,
                        );
                    }
                    acc.case(true, &format!("supplied:{}", b.class()));
                }
            }
        },
    );

    // ---------------------------------------------------------------- reserved-body (pinned)
    let rb_defs: [&str; 6] = ["body", "body = 1", "p, body: string", "...body", "p = 1, ...body", "Body"];
    let rb_calls: [&str; 4] = [
        "{{ <X body=\"zz\" /> }}",
        "{% <X body=\"zz\"> %}real{% </X> %}",
        "{{ <X p={1} body=\"zz\" /> }}",
        "{% <X> %}real{% </X> %}",
    ];
    run.family(
        Family::new(
            "reserved-body",
            (rb_defs.len() + 4) as u64,
            "the reserved name `body`: 6 definitions that try to declare it, and an explicit body=\"zz\" attribute on closed / open components: outcomes recorded, only no-panic asserted",
        ),
        |item, acc: &mut Acc| {
            let i = item as usize;
            let (params, calls): (&str, &[&str]) = if i < rb_defs.len() {
                (rb_defs[i], &rb_calls[3..])
            } else {
                (["", "...rest", "p = 2", "p = 2, ...rest"][i - rb_defs.len()], &rb_calls[..])
            };
            let def = format!("{{% component X({params}) %}}<{{{{ body | default(value=\"NOBODY\") }}}}|{{{{ rest | default(value=\"NOREST\") }}}}>{{% endcomponent X %}}");
            for call in calls {
                let tpls = vec![("c.html".to_string(), def.clone()), ("t.html".to_string(), call.to_string())];
                let mut tera = new_tera();
                let added = engine::add_templates(&mut tera, &tpls);
                let out = if added.is_ok() { engine::render(&tera, "t.html", &Context::new()) } else { added.clone() };
                if out.is_panic() {
                    acc.violation("panic:reserved-body", out.show(), || json!({"templates": tpls}));
                }
                acc.case(true, &format!("pinned:X({params}):{}:{}", if added.is_ok() { "registered" } else { "refused" }, out.coarse()));
            }
        },
    );

    // ---------------------------------------------------------------- recursion
    let n_rec = (RecKind::ALL.len() * RecStart::ALL.len() * REC_DEPTHS.len()) as u64;
    let rec_decode = |item: u64| {
        let d = REC_DEPTHS[item as usize % REC_DEPTHS.len()];
        let r = item as usize / REC_DEPTHS.len();
        (RecKind::ALL[r / RecStart::ALL.len()], RecStart::ALL[r % RecStart::ALL.len()], d)
    };
    for (fam_name, stack) in [("recursion", 8usize), ("recursion-2MiB-stack", 2usize)] {
        run.family(
            Family::new(
                fam_name,
                n_rec,
                &format!(
                    "{} cycle shapes x {} entry points x depths {{1, 2, 18, 19, 20, 21, 22, 40, 10^4, never stops}} on a {stack} MiB stack",
                    RecKind::ALL.len(),
                    RecStart::ALL.len()
                ),
            )
            .stack_mb(stack)
            .timeout(20.0)
            .describe(|i| {
                let (k, s, d) = rec_decode(i);
                json!({"kind": k.name(), "start": s.name(), "depth": if d == u64::MAX { json!("never stops") } else { json!(d) }, "templates": k.templates(d != u64::MAX)})
            })
            .crash_signature(|i, what| {
                let (k, s, _) = rec_decode(i);
                format!("{what}:recursion:{}:{}", k.name(), s.name())
            }),
            |item, acc: &mut Acc| {
                let (k, s, d) = rec_decode(item);
                run_recursion_item(k, s, d, acc);
            },
        );
    }

    // ---------------------------------------------------------------- priority
    let n_prio = (1u64 << PRIO_UNIVERSE.len()) * PRIO_PREFIX_LISTS.len() as u64;
    run.family(
        Family::new(
            "priority",
            n_prio,
            "X defined in every subset of 7 templates (2 under p1/, 1 under p2/, 4 unprefixed: sorting before, between and after the prefixes) x 4 fallback-prefix lists; registered in one call and one by one in every order; called from 3 templates, from each defining template, through render_component, render_str, get_component_definition",
        ),
        |item, acc: &mut Acc| {
            let mask = item / PRIO_PREFIX_LISTS.len() as u64;
            let prefixes = PRIO_PREFIX_LISTS[(item % PRIO_PREFIX_LISTS.len() as u64) as usize];
            run_priority_item(mask, prefixes, acc);
        },
    );

    // ---------------------------------------------------------------- guards
    if run.is_supervisor() {
        match comp::self_test() {
            Ok(()) => run.guard("reference-agrees-with-documentation-examples", true, "comp::self_test passed".into()),
            Err(e) => run.guard("reference-agrees-with-documentation-examples", false, e),
        }
        match calibration() {
            Ok(s) => run.guard("printer-calibrated", true, s),
            Err(e) => run.guard("printer-calibrated", false, e),
        }
        for class in ["bound", "rejected:unknown-argument", "rejected:missing-argument", "rejected:type-mismatch", "api:bound", "api:rejected"] {
            let n = run.outcome("calls", class);
            run.guard(&format!("calls-reach:{class}"), n > 0, format!("{n} cases"));
        }
        for c in ["defaults-applied", "collected-into-rest", "declared-type-checks", "inferred-type-checks"] {
            let n = run.counter(c);
            run.guard(&format!("binding-rule-exercised:{c}"), n > 0, format!("{n}"));
        }
        let (w_ok, b_err) = (run.outcome("recursion", "within-limit:ok"), run.outcome("recursion", "beyond-limit:err"));
        run.guard("recursion-both-sides-of-limit", w_ok > 0 && b_err > 0, format!("within-limit ok={w_ok}, beyond-limit err={b_err}"));
        let (win, tie) = (run.outcome("priority", "winner:accepted"), run.outcome("priority", "top-tie:rejected"));
        run.guard("priority-both-outcomes", win > 0 && tie > 0, format!("unique winner accepted={win}, top tie rejected={tie}"));
        let mx = run.outcome("mixed-escape", "bound:component-output-in-callers-mode") + run.outcome("mixed-escape", "bound:component-output-in-definers-mode");
        run.guard("mixed-escape-bound", mx > 0, format!("{mx}"));
    }
    run.finish();
}
