//! What a call's body may contain: "a call with a body passes the body, rendered in the caller's
//! scope, as `body`" - whatever the body is made of. Every ordered forest of at most N nodes over
//!
//!   leaves    text, a print of a caller variable, an include (whose template prints the same
//!             variable and makes a call with a body of its own), a loop of the caller, the counters
//!             of the loop the whole call sits in
//!   wrappers  a nested call with a body, a set block printed right after, a filter section
//!
//! is written as the body of one outer call and rendered. Each wrapper captures what is inside it,
//! so a forest of depth d has d + 1 captures open at its innermost node. (Seeded change C05-10
//! wrote an include's output into the outermost open capture instead of the innermost.)
//!
//! The forests with exactly n nodes are ranked by counting (no list is materialised):
//!   F(0) = 1, F(n) = sum_{k=1..n} T(k) F(n-k)      a first tree of k nodes, then the rest
//!   T(1) = 5 + 3, T(k) = 3 F(k-1)                  a leaf or an empty wrapper; a wrapper around a forest

#[derive(Clone, Debug, PartialEq, Eq)]
pub enum Node {
    Text,
    Var,
    Include,
    Loop,
    /// `{{ loop.index }}{{ loop.last }}` of the CALLER's loop (the whole program sits in a loop of
    /// one iteration): a body is rendered in the caller's scope, its loop counters included
    /// (seeded change C05-14 stopped looking for an enclosing loop at the first capture)
    LoopField,
    Call(Vec<Node>),
    SetBlock(Vec<Node>),
    Filter(Vec<Node>),
}

pub const EXT: &str = ".txt";
pub const CALLER_VAR: (&str, &str) = ("cv", "v");
pub const BOX: &str = "{% component Box() %}<b>{{ body }}</b>{% endcomponent Box %}";
pub const PART: &str = "P{{ cv }}{% <Box> %}q{% </Box> %}";
const PART_TEXT: &str = "Pv<b>q</b>";

pub fn forests(n: usize) -> u64 {
    if n == 0 {
        return 1;
    }
    (1..=n).map(|k| trees(k) * forests(n - k)).sum()
}

fn trees(k: usize) -> u64 {
    if k == 1 { 8 } else { 3 * forests(k - 1) }
}

pub fn unrank_forest(n: usize, mut idx: u64) -> Vec<Node> {
    if n == 0 {
        assert_eq!(idx, 0);
        return vec![];
    }
    for k in 1..=n {
        let block = trees(k) * forests(n - k);
        if idx < block {
            let rest = forests(n - k);
            let first = unrank_tree(k, idx / rest);
            let mut out = vec![first];
            out.extend(unrank_forest(n - k, idx % rest));
            return out;
        }
        idx -= block;
    }
    unreachable!("index past the number of forests")
}

fn unrank_tree(k: usize, idx: u64) -> Node {
    let wrapper = |w: u64, inner: Vec<Node>| match w {
        0 => Node::Call(inner),
        1 => Node::SetBlock(inner),
        _ => Node::Filter(inner),
    };
    if k == 1 {
        return match idx {
            0 => Node::Text,
            1 => Node::Var,
            2 => Node::Include,
            3 => Node::Loop,
            4 => Node::LoopField,
            w => wrapper(w - 5, vec![]),
        };
    }
    let f = forests(k - 1);
    wrapper(idx / f, unrank_forest(k - 1, idx % f))
}

fn write_source(nodes: &[Node], counter: &mut usize, out: &mut String) {
    for n in nodes {
        match n {
            Node::Text => out.push('t'),
            Node::Var => out.push_str("{{ cv }}"),
            Node::Include => out.push_str(&format!("{{% include \"part{EXT}\" %}}")),
            Node::Loop => out.push_str("{% for i in [1, 2] %}{{ i }}{{ cv }}{% endfor %}"),
            Node::LoopField => out.push_str("{{ loop.index }}{{ loop.last }}"),
            Node::Call(inner) => {
                out.push_str("{% <Box> %}");
                write_source(inner, counter, out);
                out.push_str("{% </Box> %}");
            }
            Node::SetBlock(inner) => {
                *counter += 1;
                let v = format!("s{counter}");
                out.push_str(&format!("{{% set {v} %}}"));
                write_source(inner, counter, out);
                out.push_str(&format!("{{% endset %}}[{{{{ {v} }}}}]"));
            }
            Node::Filter(inner) => {
                out.push_str("{% filter upper %}");
                write_source(inner, counter, out);
                out.push_str("{% endfilter %}");
            }
        }
    }
}

/// The forest as the body of one outer call.
pub fn source(forest: &[Node]) -> String {
    let mut s = String::from("{% for z in [7] %}{% <Box> %}");
    write_source(forest, &mut 0, &mut s);
    s.push_str("{% </Box> %}{% endfor %}");
    s
}

fn text_of(nodes: &[Node]) -> String {
    nodes
        .iter()
        .map(|n| match n {
            Node::Text => "t".to_string(),
            Node::Var => CALLER_VAR.1.to_string(),
            Node::Include => PART_TEXT.to_string(),
            Node::Loop => format!("1{0}2{0}", CALLER_VAR.1),
            Node::LoopField => "1true".to_string(),
            Node::Call(inner) => format!("<b>{}</b>", text_of(inner)),
            Node::SetBlock(inner) => format!("[{}]", text_of(inner)),
            Node::Filter(inner) => text_of(inner).to_uppercase(),
        })
        .collect()
}

pub fn expected(forest: &[Node]) -> String {
    format!("<b>{}</b>", text_of(forest))
}

pub fn depth(nodes: &[Node]) -> usize {
    nodes
        .iter()
        .map(|n| match n {
            Node::Call(i) | Node::SetBlock(i) | Node::Filter(i) => 1 + depth(i),
            _ => 0,
        })
        .max()
        .unwrap_or(0)
}

pub fn has_include_under_wrapper(nodes: &[Node], under: bool) -> bool {
    nodes.iter().any(|n| match n {
        Node::Include => under,
        Node::Call(i) | Node::SetBlock(i) | Node::Filter(i) => has_include_under_wrapper(i, true),
        _ => false,
    })
}
