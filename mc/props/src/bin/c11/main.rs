//! C11 — cyclic or dangling template graphs are rejected; accepted graphs render finitely.
//!
//! Exhaustive exploration of all labelled extends/include graphs on n templates (no symmetry
//! reduction). Every graph is registered on the real engine with `add_raw_templates`; the verdict
//! and `ErrorKind` are judged against reference relations computed from the graph (module
//! `graph`); every accepted graph has every template rendered, and the output is compared with a
//! reference simulation of the render call graph (which also predicts unbounded recursion).
//!
//! Verdict rules (DESIGN.md §4 C11):
//!   1. dangling extends/include target, extends cycle or PURE include cycle ∧ accepted → violation;
//!   2. rejected ∧ no dangling target, no extends cycle, no cycle even in the EXECUTED include
//!      relation (own includes ∪ includes of every ancestor) → violation; the ErrorKind must name
//!      a fault that is present;
//!   3. cycles of the executed relation only: accepted or rejected, both fine;
//!   4. every accepted graph: every template renders to text or Err (a stack overflow kills the
//!      worker; the kernel pins the graph and reports it).
//!
//! Families:
//!   graphs-*           add + verdict rules 1–3 for every graph; render clause for every accepted
//!                      graph whose simulation is finite
//!   infinite-render-*  the same spaces again, filtered by the oracle alone to the graphs whose
//!                      simulation is infinite: if the engine accepts one, it is rendered here (so a
//!                      crash costs a worker restart in this family, not in the fast one)
//!   orders-n3          every registration order of every graph: verdict and kind are order-free
//!   chains             extends / include / alternating chains up to 33 templates (32 edges),
//!                      open, closed into a cycle, closed into a cycle entered from a tail

mod graph;
#[path = "../c04/inherit.rs"]
#[allow(dead_code)]
mod inherit;
#[path = "../c10x/glob.rs"]
#[allow(dead_code)]
mod globfam;

use graph::*;
use mccore::engine::{self, kind_tag};
use mccore::{Acc, Family, Run, json};
use serde_json::Value;

// ------------------------------------------------------------------------------------------
// a graph space: alphabet^n under one naming

struct Space {
    label: String,
    nm: Naming,
    spec: AlphabetSpec,
    cfgs: Vec<Tpl>,
    rels: Vec<Rel>,
    /// srcs[node][cfg]
    srcs: Vec<Vec<String>>,
    radix: u64,
    items: u64,
    /// pristine instance (fallback prefixes set) that every registration clones
    proto: tera::Tera,
    /// nodes whose edges spell them without the prefix they are registered under
    via_fallback: u64,
    /// nodes spelled exactly while `prefix + spelling` names another registered template
    exact_with_competitor: u64,
}

impl Space {
    fn new(label: &str, nm: Naming, spec: AlphabetSpec) -> Space {
        assert_eq!(nm.n(), spec.n);
        let cfgs = spec.configs();
        let rels = cfgs.iter().map(|t| Rel::of(t, &nm)).collect();
        let srcs = (0..spec.n).map(|i| cfgs.iter().map(|t| source(i, t, &nm)).collect()).collect();
        let radix = cfgs.len() as u64;
        let proto = pristine(&nm);
        let (mut via_fallback, mut exact_with_competitor) = (0u64, 0u64);
        for i in 0..nm.n() {
            if nm.spell[i] != nm.names[i] {
                via_fallback |= 1 << i;
            } else if nm.prefixes.iter().any(|p| nm.names.contains(&format!("{p}{}", nm.spell[i]))) {
                exact_with_competitor |= 1 << i;
            }
        }
        Space { label: label.into(), items: radix.pow(spec.n as u32), nm, spec, cfgs, rels, srcs, radix, proto, via_fallback, exact_with_competitor }
    }
    fn idx(&self, item: u64) -> Vec<usize> {
        decode(item, self.spec.n, self.radix)
    }
    fn tpls(&self, idx: &[usize]) -> Vec<&Tpl> {
        idx.iter().map(|&c| &self.cfgs[c]).collect()
    }
    fn sources(&self, idx: &[usize]) -> Vec<&str> {
        idx.iter().enumerate().map(|(i, &c)| self.srcs[i][c].as_str()).collect()
    }
    fn facts(&self, idx: &[usize]) -> Facts {
        let rels: Vec<&Rel> = idx.iter().map(|&c| &self.rels[c]).collect();
        facts(&rels)
    }
    fn bounds(&self) -> String {
        format!(
            "all {}^{} = {} labelled graphs; naming {}; {}",
            self.radix,
            self.spec.n,
            self.items,
            self.nm.label,
            self.spec.describe()
        )
    }
}

fn case_json(nm: &Naming, srcs: &[&str], order: &[usize], f: &Facts) -> Value {
    json!({
        "fallback_prefixes": nm.prefixes,
        "templates_in_registration_order": order.iter().map(|&i| json!([nm.names[i], srcs[i]])).collect::<Vec<_>>(),
        "call": "Tera::default(); set_fallback_prefixes(..); add_raw_templates(all at once); render(each name, empty context)",
        "reference": {
            "faults_present": f.fault_names(),
            "pure_include_relation": rel_text(nm, &f.pure),
            "executed_include_relation": rel_text(nm, &f.exec),
            "extends": f.parent.iter().enumerate().filter_map(|(i, p)| p.map(|p| format!("{} -> {}", nm.names[i], nm.names[p]))).collect::<Vec<_>>(),
        }
    })
}

fn rel_text(nm: &Naming, rel: &[u64]) -> Vec<String> {
    let mut v = vec![];
    for (i, m) in rel.iter().enumerate() {
        for j in 0..rel.len() {
            if m >> j & 1 == 1 {
                v.push(format!("{} -> {}", nm.names[i], nm.names[j]));
            }
        }
    }
    v
}

// ------------------------------------------------------------------------------------------
// the engine side

enum Added {
    Accepted(Box<tera::Tera>),
    Rejected(tera::Error),
    Panic(String),
}

/// A pristine instance with the fallback prefixes of the naming set.
fn pristine(nm: &Naming) -> tera::Tera {
    let mut t = tera::Tera::default();
    if !nm.prefixes.is_empty() {
        t.set_fallback_prefixes(nm.prefixes.clone()).expect("prefixes on an empty instance");
    }
    // a name every template may read: bound (to the empty text) in the instance's global context,
    // so that a read of it deep in an include chain resolves THROUGH every including template
    t.global_context().insert("bound_w", "");
    t
}

/// Registers the whole set with one `add_raw_templates` call, on a clone of the pristine
/// prototype when one is given (11 µs cheaper than `Tera::default()`), else on a new instance.
fn add(nm: &Naming, proto: Option<&tera::Tera>, srcs: &[&str], order: &[usize]) -> Added {
    let r = engine::guarded(|| {
        let mut t = match proto {
            Some(p) => p.clone(),
            None => pristine(nm),
        };
        let r = t.add_raw_templates(order.iter().map(|&i| (nm.names[i].as_str(), srcs[i])));
        r.map(|()| t)
    });
    match r {
        Ok(Ok(t)) => Added::Accepted(Box::new(t)),
        Ok(Err(e)) => Added::Rejected(e),
        Err(p) => Added::Panic(p),
    }
}

/// Rule 2, second half: the reported kind must name a fault that is present. Returns the
/// outcome class, reports violations.
fn judge_rejection(
    acc: &mut Acc,
    nm: &Naming,
    g: &[&Tpl],
    f: &Facts,
    e: &tera::Error,
    case: &dyn Fn() -> Value,
) -> &'static str {
    use tera::ErrorKind as K;
    let name_idx = |s: &str| nm.names.iter().position(|n| n == s);
    if !f.may_reject() {
        acc.violation(
            format!("spurious-rejection:{}", kind_tag(e.kind())),
            format!(
                "the set has no dangling target, no extends cycle and no include cycle even in the executed relation, but was rejected: {}",
                first_line(&e.to_string())
            ),
            case,
        );
        return "rejected:SPURIOUS";
    }
    match e.kind() {
        K::MissingParent { current, parent } => {
            if f.dangling_extends == 0 {
                acc.violation(
                    "wrong-error-kind:MissingParent",
                    format!("MissingParent reported but every extends target resolves (faults present: {:?})", f.fault_names()),
                    case,
                );
            } else {
                let ok = name_idx(current).is_some_and(|i| {
                    f.dangling_extends >> i & 1 == 1
                        && g[i].extends.map(|p| nm.spelled(p)) == Some(parent.as_str())
                });
                if !ok {
                    acc.violation(
                        "error-detail:MissingParent",
                        format!("MissingParent {{ current: {current:?}, parent: {parent:?} }} does not name a dangling extends edge of the set"),
                        case,
                    );
                }
            }
            "rejected:MissingParent"
        }
        K::CircularExtend { tpl, .. } => {
            if !f.ext_cycle() {
                acc.violation(
                    "wrong-error-kind:CircularExtend",
                    format!("CircularExtend reported but the extends relation is acyclic (faults present: {:?})", f.fault_names()),
                    case,
                );
            } else if !name_idx(tpl).is_some_and(|i| f.ext_loop_from >> i & 1 == 1) {
                acc.violation(
                    "error-detail:CircularExtend",
                    format!("CircularExtend names template {tpl:?} whose inheritance chain has no loop"),
                    case,
                );
            }
            "rejected:CircularExtend"
        }
        K::CircularInclude { tpl, .. } => {
            if !f.exec_cycle() {
                acc.violation(
                    "wrong-error-kind:CircularInclude",
                    format!("CircularInclude reported but there is no include cycle, not even in the executed relation (faults present: {:?})", f.fault_names()),
                    case,
                );
            } else if !name_idx(tpl).is_some_and(|i| f.on_exec_cycle >> i & 1 == 1) {
                acc.violation(
                    "error-detail:CircularInclude",
                    format!("CircularInclude names template {tpl:?} which lies on no include cycle (executed relation)"),
                    case,
                );
            }
            if f.pure_cycle() { "rejected:CircularInclude(pure cycle)" } else { "rejected:CircularInclude(executed-only cycle)" }
        }
        K::Msg(m) => {
            // the add-time report of references that do not exist
            let mut named: Vec<&str> = vec![];
            let mut rest = m.as_str();
            while let Some(p) = rest.find("Unknown template `") {
                rest = &rest[p + "Unknown template `".len()..];
                if let Some(q) = rest.find('`') {
                    named.push(&rest[..q]);
                }
            }
            if f.dangling_includes == 0 || named.is_empty() {
                acc.violation(
                    "wrong-error-kind:Msg",
                    format!(
                        "a plain message was reported; dangling include present: {}; text: {}",
                        f.dangling_includes != 0,
                        first_line(m)
                    ),
                    case,
                );
            } else if named.iter().any(|s| nm.resolve_spelled(s).is_some()) {
                acc.violation(
                    "error-detail:UnknownTemplate",
                    format!("\"Unknown template\" reported for {named:?}, one of which resolves"),
                    case,
                );
            }
            "rejected:Msg(Unknown template)"
        }
        other => {
            acc.violation(
                format!("wrong-error-kind:{}", kind_tag(other)),
                format!("rejected with a kind that names no graph fault: {}", first_line(&e.to_string())),
                case,
            );
            "rejected:OTHER"
        }
    }
}

fn first_line(s: &str) -> String {
    s.lines().next().unwrap_or("").chars().take(200).collect()
}

fn sim_text(s: &Sim) -> String {
    match s {
        Sim::Text(t) => format!("Ok({t:?})"),
        Sim::Err(e) => format!("Err[{e}]"),
        Sim::Infinite(_) => "unbounded recursion".into(),
    }
}

/// Rule 4 for the templates in `which`: render on the real engine, compare with the simulation.
/// A disagreement between engine and simulation on a terminating render is not a breach of C11
/// (it is counted, sampled and turned into a failed guard: the reference model is out of step).
fn render_templates(
    acc: &mut Acc,
    nm: &Naming,
    tera: &tera::Tera,
    sims: &[Sim],
    which: impl Iterator<Item = usize>,
    case: &dyn Fn() -> Value,
) {
    let ctx = tera::Context::new();
    for t in which {
        acc.count("renders", 1);
        let out = engine::render(tera, &nm.names[t], &ctx);
        let agrees = match (&out, &sims[t]) {
            (engine::Out::Ok(s), Sim::Text(w)) => s == w,
            (engine::Out::Err(..), Sim::Err(_)) => true,
            _ => false,
        };
        if let engine::Out::Panic(p) = &out {
            acc.violation(
                "render-panic",
                format!("render({:?}) of an accepted set panicked: {p}", nm.names[t]),
                case,
            );
        } else if sims[t].is_infinite() {
            // terminated although the simulation recurses forever: fine for the property
            acc.count("predicted-infinite-but-terminated", 1);
        } else if !agrees {
            note_mismatch(acc, || {
                json!({"template": nm.names[t], "engine": out.show(), "simulation": sim_text(&sims[t]), "case": case()})
            });
        } else {
            match &sims[t] {
                Sim::Text(_) => acc.count("renders-text", 1),
                Sim::Err("component-depth") => acc.count("renders-err-component-depth", 1),
                Sim::Err(_) => acc.count("renders-err-other", 1),
                Sim::Infinite(_) => {}
            }
            // the same template asked for by the spelling that only resolves through a prefix
            if nm.spell[t] != nm.names[t] {
                acc.count("renders", 1);
                acc.count("renders-by-a-name-resolved-through-a-fallback-prefix", 1);
                let alias = engine::render(tera, &nm.spell[t], &ctx);
                if alias != out {
                    note_mismatch(acc, || {
                        json!({"template": nm.names[t], "rendered_as": nm.spell[t], "engine_by_alias": alias.show(), "engine_by_name": out.show(), "case": case()})
                    });
                }
            }
        }
    }
}

/// A terminating render on which engine and reference simulation disagree: counted (the guard
/// then fails the run as a machinery error) and kept, at most twice per worker process, as the
/// name of a counter so that the example survives sampling.
fn note_mismatch(acc: &mut Acc, example: impl FnOnce() -> Value) {
    use std::sync::atomic::{AtomicUsize, Ordering};
    static KEPT: AtomicUsize = AtomicUsize::new(0);
    acc.count("sim-mismatch", 1);
    if KEPT.fetch_add(1, Ordering::Relaxed) < 2 {
        acc.count(&format!("sim-mismatch-example {}", example()), 1);
    }
}

/// add + rules 1–3 + render clause for simulated-finite accepted graphs.
fn run_graph(
    acc: &mut Acc,
    nm: &Naming,
    proto: Option<&tera::Tera>,
    g: &[&Tpl],
    srcs: &[&str],
    f: &Facts,
    order: &[usize],
) {
    let case = || case_json(nm, srcs, order, f);
    // non-trivial = "sharp": the graph has an edge and at most one class of fault, so that the
    // verdict and the error kind are determined by the rules (with two classes of fault either
    // kind passes)
    let nontrivial = f.edges > 0 && f.fault_classes() <= 1;
    acc.count("graphs", 1);
    acc.count("adds", 1);
    if f.exec_cycle() && !f.must_reject() {
        acc.count("graphs-with-executed-only-cycle-and-no-other-fault", 1);
    }
    match add(nm, proto, srcs, order) {
        Added::Panic(p) => {
            acc.violation("add-panic", format!("add_raw_templates panicked: {p}"), &case);
            acc.case(nontrivial, "panic");
        }
        Added::Rejected(e) => {
            let class = judge_rejection(acc, nm, g, f, &e, &case);
            acc.case(nontrivial, class);
        }
        Added::Accepted(tera) => {
            if f.must_reject() {
                acc.violation(
                    format!("missed-rejection:{}", f.class()),
                    format!("the set was accepted although it has: {:?}", f.fault_names()),
                    &case,
                );
                acc.case(nontrivial, "accepted:MISSED-REJECTION");
                return;
            }
            let sims = simulate_all(g, nm, f).expect("no rule-1 fault means simulable");
            if sims.iter().any(|s| s.is_infinite()) {
                // rendered in the infinite-render family
                acc.count("accepted-predicted-infinite(render deferred)", 1);
                acc.case(nontrivial, "accepted:predicted-infinite(render in infinite-render family)");
                return;
            }
            render_templates(acc, nm, &tera, &sims, 0..g.len(), &case);
            acc.case(
                nontrivial,
                if f.exec_cycle() { "accepted:rendered(executed-only cycle present)" } else { "accepted:rendered" },
            );
            if acc.wants_sample() && f.edges >= 3 {
                acc.sample(|| json!({"verdict": "accepted", "renders": sims.iter().map(sim_text).collect::<Vec<_>>(), "case": case()}));
            }
        }
    }
}

/// Graphs whose simulation recurses forever, and the frames of the first such render.
fn infinite_prediction(nm: &Naming, g: &[&Tpl], f: &Facts) -> Option<(Vec<Sim>, usize)> {
    // unbounded recursion needs a cycle of the executed relation
    if !f.simulable() || !f.exec_cycle() {
        return None;
    }
    let sims = simulate_all(g, nm, f)?;
    let first = sims.iter().position(|s| s.is_infinite())?;
    Some((sims, first))
}

fn run_infinite(
    acc: &mut Acc,
    nm: &Naming,
    proto: Option<&tera::Tera>,
    g: &[&Tpl],
    srcs: &[&str],
    f: &Facts,
    order: &[usize],
) {
    let Some((sims, _)) = infinite_prediction(nm, g, f) else {
        acc.count("filtered-out(simulation finite or graph not simulable)", 1);
        return;
    };
    let case = || case_json(nm, srcs, order, f);
    acc.count("adds", 1);
    match add(nm, proto, srcs, order) {
        Added::Panic(p) => {
            acc.violation("add-panic", format!("add_raw_templates panicked: {p}"), &case);
            acc.case(true, "panic");
        }
        Added::Rejected(_) => {
            // judged by the graphs-* family; here it only means there is nothing to render (a
            // repeat of a graphs-* case: not counted as a distinct non-trivial case)
            acc.case(false, if f.pure_cycle() { "rejected(pure cycle)" } else { "rejected(executed-only cycle)" });
        }
        Added::Accepted(tera) => {
            // finite renders first, then the ones predicted to recurse forever (a stack overflow
            // ends the worker here; the kernel pins this graph)
            let n = g.len();
            let fin = (0..n).filter(|&t| !sims[t].is_infinite());
            let inf = (0..n).filter(|&t| sims[t].is_infinite());
            render_templates(acc, nm, &tera, &sims, fin.chain(inf), &case);
            acc.case(true, "accepted:every-render-terminated(simulation said unbounded)");
        }
    }
}

fn describe_graph(nm: &Naming, g: &[&Tpl], srcs: &[&str], f: &Facts) -> Value {
    let order: Vec<usize> = (0..g.len()).collect();
    let mut d = case_json(nm, srcs, &order, f);
    if let Some((sims, first)) = infinite_prediction(nm, g, f) {
        let m = Model::new(g, nm);
        if let Sim::Infinite(frames) = &sims[first] {
            d["simulated_unbounded_recursion"] = json!({
                "render": nm.names[first],
                "class": m.cycle_class(frames),
                "call_stack_until_first_repeated_frame": frames.iter().map(|fr| m.frame_text(fr, nm)).collect::<Vec<_>>(),
            });
        }
    } else if f.simulable() {
        d["simulation"] = json!("every render is predicted to terminate");
    }
    d
}

fn crash_class(nm: &Naming, g: &[&Tpl], f: &Facts) -> String {
    match infinite_prediction(nm, g, f) {
        Some((sims, first)) => {
            let m = Model::new(g, nm);
            match &sims[first] {
                Sim::Infinite(fr) => m.cycle_class(fr).to_string(),
                _ => unreachable!(),
            }
        }
        None => format!("simulation-finite({})", f.class()),
    }
}

// ------------------------------------------------------------------------------------------
// chains

#[derive(Clone, Copy, Debug, PartialEq)]
enum ChainKind {
    Extends,
    IncludeTop,
    IncludeBlock,
    IncludeComp,
    Alternating,
}
#[derive(Clone, Copy, Debug, PartialEq)]
enum Closure {
    Open,
    /// last template points back to the first
    Closed,
    /// last template points back to the middle one: a cycle entered from a tail
    Tail,
}
const CHAIN_KINDS: [ChainKind; 5] = [
    ChainKind::Extends,
    ChainKind::IncludeTop,
    ChainKind::IncludeBlock,
    ChainKind::IncludeComp,
    ChainKind::Alternating,
];
const CLOSURES: [Closure; 3] = [Closure::Open, Closure::Closed, Closure::Tail];
const CHAIN_MAX_NODES: usize = 33;
const CHAIN_NAMINGS: usize = 3;

fn chain_naming(n: usize, which: usize) -> Naming {
    match which {
        0 => Naming::numbered(n, "names sorted in chain order", |i| i),
        1 => Naming::numbered(n, "names sorted against chain order", |i| n - 1 - i),
        // 7 is coprime to every n that is not a multiple of 7; use 5 then
        _ => Naming::numbered(n, "names scrambled (i*k mod n)", |i| {
            let k = if n % 7 == 0 { 5 } else { 7 };
            (i * k) % n
        }),
    }
}

fn chain_graph(n: usize, kind: ChainKind, closure: Closure) -> Vec<Tpl> {
    // edge i -> next(i); the last node's edge exists only when the chain is closed
    let next = |i: usize| -> Option<usize> {
        if i + 1 < n {
            Some(i + 1)
        } else {
            match closure {
                Closure::Open => None,
                Closure::Closed => Some(0),
                Closure::Tail => Some(n / 2),
            }
        }
    };
    (0..n)
        .map(|i| {
            let mut t = Tpl::leaf();
            let Some(j) = next(i) else { return t };
            let j = Target::Node(j);
            match kind {
                ChainKind::Extends => {
                    t.extends = Some(j);
                    t.mode = Mode::Super;
                }
                ChainKind::IncludeTop => t.includes.push((j, Place::Top)),
                ChainKind::IncludeBlock => t.includes.push((j, Place::Block)),
                ChainKind::IncludeComp => t.includes.push((j, Place::Comp)),
                ChainKind::Alternating => {
                    // even: include (inside the block, so that a child running it through super()
                    // executes it); odd: extends + super()
                    if i % 2 == 0 {
                        t.includes.push((j, Place::Block));
                    } else {
                        t.extends = Some(j);
                        t.mode = Mode::Super;
                    }
                }
            }
            t
        })
        .collect()
}

fn chain_decode(item: u64) -> (usize, ChainKind, Closure, usize) {
    let mut x = item as usize;
    let n = 1 + x % CHAIN_MAX_NODES;
    x /= CHAIN_MAX_NODES;
    let kind = CHAIN_KINDS[x % CHAIN_KINDS.len()];
    x /= CHAIN_KINDS.len();
    let closure = CLOSURES[x % CLOSURES.len()];
    x /= CLOSURES.len();
    (n, kind, closure, x % CHAIN_NAMINGS)
}

// ------------------------------------------------------------------------------------------

fn permutations(n: usize) -> Vec<Vec<usize>> {
    fn rec(cur: &mut Vec<usize>, used: &mut Vec<bool>, out: &mut Vec<Vec<usize>>) {
        if cur.len() == used.len() {
            out.push(cur.clone());
            return;
        }
        for i in 0..used.len() {
            if !used[i] {
                used[i] = true;
                cur.push(i);
                rec(cur, used, out);
                cur.pop();
                used[i] = false;
            }
        }
    }
    let mut out = vec![];
    rec(&mut vec![], &mut vec![false; n], &mut out);
    out
}

fn graph_family(run: &mut Run, sp: &Space, budget_s: f64) {
    let identity: Vec<usize> = (0..sp.spec.n).collect();
    run.family(
        Family::new(&format!("graphs-{}", sp.label), sp.items, &sp.bounds())
            .budget(budget_s)
            .describe(|item| {
                let idx = sp.idx(item);
                describe_graph(&sp.nm, &sp.tpls(&idx), &sp.sources(&idx), &sp.facts(&idx))
            })
            .crash_signature(|item, kind| {
                let idx = sp.idx(item);
                format!("{kind}-in-add-or-render:{}", crash_class(&sp.nm, &sp.tpls(&idx), &sp.facts(&idx)))
            }),
        |item, acc: &mut Acc| {
            let idx = sp.idx(item);
            let f = sp.facts(&idx);
            if sp.via_fallback != 0 {
                let targets = idx.iter().fold(0u64, |m, &c| {
                    m | sp.rels[c].pure | sp.rels[c].parent.map_or(0, |p| 1 << p)
                });
                if targets & sp.via_fallback != 0 {
                    acc.count("graphs-with-an-edge-resolved-through-a-fallback-prefix", 1);
                }
                if targets & sp.exact_with_competitor != 0 {
                    acc.count("graphs-with-an-exact-name-edge-that-has-a-prefixed-competitor", 1);
                }
            }
            run_graph(acc, &sp.nm, Some(&sp.proto), &sp.tpls(&idx), &sp.sources(&idx), &f, &identity);
        },
    );
}

fn infinite_family(run: &mut Run, sp: &Space, budget_s: f64) {
    let identity: Vec<usize> = (0..sp.spec.n).collect();
    run.family(
        Family::new(
            &format!("infinite-render-{}", sp.label),
            sp.items,
            &format!(
                "the graphs of the same space whose reference simulation recurses without bound (selected by the oracle alone): registered, and rendered if the engine accepts them; {}",
                sp.bounds()
            ),
        )
        .budget(budget_s)
        .timeout(30.0)
        .describe(|item| {
            let idx = sp.idx(item);
            describe_graph(&sp.nm, &sp.tpls(&idx), &sp.sources(&idx), &sp.facts(&idx))
        })
        .crash_signature(|item, kind| {
            let idx = sp.idx(item);
            let what = if kind == "hang" { "hang" } else { "overflow" };
            format!("accepted-graph-render-{what}:{}", crash_class(&sp.nm, &sp.tpls(&idx), &sp.facts(&idx)))
        }),
        |item, acc: &mut Acc| {
            let idx = sp.idx(item);
            let f = sp.facts(&idx);
            run_infinite(acc, &sp.nm, Some(&sp.proto), &sp.tpls(&idx), &sp.sources(&idx), &f, &identity);
        },
    );
}

fn main() {
    let mut run = Run::from_env("C11", "model_checking");
    let thorough = run.tier.is_thorough();
    run.rule(
        "graphs-*: one case per labelled graph (a tuple of per-template configurations: extends target, block mode, \
         include edges with placement), registered with one add_raw_templates call on a pristine Tera and judged by rules 1-3; \
         accepted graphs have every template rendered and compared with the reference simulation. Non-trivial = 'sharp': the \
         graph has at least one edge and at most one class of fault (dangling extends / dangling include / extends cycle / \
         include cycle), so that verdict and error kind are fully determined by the rules (with several classes of fault any \
         of the corresponding kinds passes). infinite-render-*: one case per graph whose simulation recurses without bound; \
         these repeat graphs-* cases and count as non-trivial only when the engine accepts the graph (then it is rendered). \
         orders-n3: one case per (graph, registration order); the identity order repeats a graphs-* case and is not counted \
         as non-trivial. chains: one case per (length, chain kind, closure, naming). Cases are distinct by construction of \
         the mixed-radix enumeration; no symmetry reduction.",
    );
    run.assume(
        "templates are generated from one layout (marker text, one block name `b`, one component per component-placed \
         include, no whitespace, no conditionals): acceptance is assumed to depend on the extends/include structure and \
         placement only, not on the surrounding text",
    );
    run.assume(
        "executed include relation used for rule 2/3 = own includes plus the includes of every template reachable through \
         extends (the documented behaviour of check_include_cycles after f6dd586); an engine rejecting a subset of these \
         cycles only would also pass as long as every accepted graph renders finitely",
    );
    run.assume(
        "a worker has an 8 MiB stack: termination of accepted graphs is established for that stack; chains are bounded at \
         33 templates (32 edges), the engine having no include/extends depth limit of its own",
    );
    run.assume(
        "graphs-*, infinite-render-* and orders-n3 register every set on a clone of one pristine Tera::default() (with the \
         fallback prefixes set) instead of constructing a new instance (11 us cheaper per graph); chains construct a new one",
    );
    run.assume(
        "one block name, never nested: a render state has at most one active block, so the 40-active-blocks cut of \
         RenderBlock (d87eacf) is never reached here; blocks that render each other through nesting + inheritance are \
         outside this graph space (no include or extends cycle is involved)",
    );
    run.assume("reference name resolution: exact name first, then fallback prefixes in order (docs of set_fallback_prefixes)");

    let all_modes = vec![Mode::Absent, Mode::Plain, Mode::Super];
    let all_places = vec![Place::Top, Place::Block, Place::Comp];
    let spec_n3 = AlphabetSpec {
        n: 3,
        missing_extends: true,
        missing_include: true,
        child_modes: all_modes.clone(),
        places: all_places.clone(),
        max_includes: 1,
    };

    // the structure alphabet: every extends / include target, blocks absent or calling super(),
    // includes at top level or inside the block (65 configurations per template)
    let spec_n3s = AlphabetSpec {
        n: 3,
        missing_extends: true,
        missing_include: true,
        child_modes: vec![Mode::Absent, Mode::Super],
        places: vec![Place::Top, Place::Block],
        max_includes: 1,
    };

    // ------------------------------------------------------------------ graph spaces
    let mut spaces: Vec<Space> = vec![Space::new("n3", Naming::plain(3), spec_n3.clone())];
    if !thorough {
        spaces.push(Space::new("n3s-prefix1", Naming::prefixed_one(), spec_n3s.clone()));
        spaces.push(Space::new("n3s-prefix2", Naming::prefixed_two(), spec_n3s.clone()));
    } else {
        spaces.push(Space::new("n3-prefix1", Naming::prefixed_one(), spec_n3.clone()));
        spaces.push(Space::new("n3-prefix2", Naming::prefixed_two(), spec_n3.clone()));
        spaces.push(Space::new(
            "n3-2inc",
            Naming::plain(3),
            AlphabetSpec {
                n: 3,
                missing_extends: true,
                missing_include: true,
                child_modes: all_modes.clone(),
                places: all_places.clone(),
                max_includes: 2,
            },
        ));
        spaces.push(Space::new(
            "n4",
            Naming::plain(4),
            AlphabetSpec {
                n: 4,
                missing_extends: false,
                missing_include: false,
                child_modes: all_modes.clone(),
                places: vec![Place::Top, Place::Block],
                max_includes: 1,
            },
        ));
    }
    // Safety budgets only: every family completes well inside them on the unchanged tree (the
    // evidence says `completed: false` otherwise). They bound the run when a regression makes a
    // large share of the graphs kill their worker (each crash costs two process restarts).
    let safety_s = if thorough { 3600.0 } else { 300.0 };
    for sp in &spaces {
        graph_family(&mut run, sp, safety_s);
    }
    for sp in &spaces {
        infinite_family(&mut run, sp, if thorough { 300.0 } else { 60.0 });
    }

    // ------------------------------------------------------------------ registration orders
    let order_space = if thorough { None } else { Some(Space::new("n3s", Naming::plain(3), spec_n3s.clone())) };
    let osp = order_space.as_ref().unwrap_or(&spaces[0]);
    let perms = permutations(3);
    run.family(
        Family::new(
            "orders-n3",
            osp.items,
            &format!("every one of the 3! registration orders of every graph of: {}", osp.bounds()),
        )
        .budget(safety_s),
        |item, acc: &mut Acc| {
            let idx = osp.idx(item);
            let f = osp.facts(&idx);
            let srcs = osp.sources(&idx);
            let mut first: Option<(String, String)> = None;
            for (pi, p) in perms.iter().enumerate() {
                // the identity order repeats the graphs-* case: not a distinct case
                let nontrivial = f.edges > 0 && pi > 0;
                acc.count("adds", 1);
                let (verdict, text) = match add(&osp.nm, Some(&osp.proto), &srcs, p) {
                    Added::Accepted(_) => ("accepted".to_string(), String::new()),
                    Added::Rejected(e) => (format!("rejected:{}", kind_tag(e.kind())), e.to_string()),
                    Added::Panic(m) => ("panic".to_string(), m),
                };
                let is_acc = verdict == "accepted";
                match &first {
                    None => first = Some((verdict, text)),
                    Some((v0, t0)) => {
                        if *v0 != verdict {
                            acc.violation(
                                if v0.starts_with("rejected") && verdict.starts_with("rejected") {
                                    "order-dependence:error-kind"
                                } else {
                                    "order-dependence:verdict"
                                },
                                format!("registered in order {:?}: {v0}; in order {p:?}: {verdict}", perms[0]),
                                || case_json(&osp.nm, &srcs, p, &f),
                            );
                            acc.case(nontrivial, "ORDER-DEPENDENT");
                            continue;
                        }
                        if *t0 != text {
                            acc.count("same-kind-but-different-error-text", 1);
                        }
                    }
                }
                acc.case(nontrivial, if is_acc { "accepted" } else { "rejected" });
            }
        },
    );

    // ------------------------------------------------------------------ a refused prefix change
    // Targets are resolved "directly or through a fallback prefix"; the prefixes are fixed once
    // templates exist (set_fallback_prefixes must then fail). A refused call that nevertheless
    // changed the list would make includes - resolved again at render time - reach other templates
    // than the ones the acyclicity check saw.
    for sp in spaces.iter().filter(|sp| !sp.nm.prefixes.is_empty()) {
        let identity: Vec<usize> = (0..sp.spec.n).collect();
        run.family(
            Family::new(
                &format!("late-prefix-change-{}", sp.label),
                sp.items,
                &format!(
                    "every accepted graph of the space, rendered, then set_fallback_prefixes with the empty list, the reversed list, each single prefix and a foreign prefix - every call must fail - then rendered again: same text or same failure; {}",
                    sp.bounds()
                ),
            )
            .budget(safety_s)
            .describe(|item| {
                let idx = sp.idx(item);
                describe_graph(&sp.nm, &sp.tpls(&idx), &sp.sources(&idx), &sp.facts(&idx))
            })
            .crash_signature(|item, kind| {
                let idx = sp.idx(item);
                let what = if kind == "hang" { "hang" } else { "overflow" };
                format!("late-prefix-change-render-{what}:{}", crash_class(&sp.nm, &sp.tpls(&idx), &sp.facts(&idx)))
            }),
            |item, acc: &mut Acc| {
                let idx = sp.idx(item);
                let f = sp.facts(&idx);
                let srcs = sp.sources(&idx);
                let Added::Accepted(mut t) = add(&sp.nm, Some(&sp.proto), &srcs, &identity) else {
                    acc.case(false, "late-prefix-change:not-accepted");
                    return;
                };
                let ctx = tera::Context::new();
                let render_all = |t: &tera::Tera| -> Vec<String> { sp.nm.names.iter().map(|n| mccore::engine::render(t, n, &ctx).coarse()).collect() };
                let before = render_all(&t);
                let mut lists: Vec<Vec<String>> = vec![vec![], sp.nm.prefixes.iter().rev().cloned().collect(), vec!["zz/".to_string()]];
                for p in &sp.nm.prefixes {
                    lists.push(vec![p.clone()]);
                }
                lists.dedup();
                for list in lists {
                    if list == sp.nm.prefixes {
                        continue;
                    }
                    let case = || json!({"graph": describe_graph(&sp.nm, &sp.tpls(&idx), &srcs, &f), "then": format!("set_fallback_prefixes({list:?})"), "renders_before": before});
                    match mccore::engine::guarded(|| t.set_fallback_prefixes(list.clone())) {
                        Ok(Err(_)) => {}
                        Ok(Ok(())) => {
                            acc.violation("late-prefix-change:accepted", "set_fallback_prefixes succeeded on an instance that holds templates".to_string(), case);
                            continue;
                        }
                        Err(p) => {
                            acc.violation("late-prefix-change:panic", format!("set_fallback_prefixes panicked: {p}"), case);
                            continue;
                        }
                    }
                    let after = render_all(&t);
                    if after != before {
                        acc.violation(
                            "late-prefix-change:took-effect",
                            format!("after the refused call the templates render {after:?}"),
                            case,
                        );
                    }
                    acc.case(f.edges > 0, "late-prefix-change:unchanged");
                }
            },
        );
    }

    // ------------------------------------------------------------------ rejected batches
    // "rejected" has to mean something: a batch that is refused for ANY reason (here: one more
    // template that does not parse, after or before the graph's templates) must leave none of
    // its templates behind, or a cyclic / dangling graph gets in without ever being checked.
    let rsp_owned = Space::new("n3s", Naming::plain(3), spec_n3s.clone());
    let rsp = &rsp_owned;
    run.family(
        Family::new(
            "rejected-batch",
            rsp.items,
            &format!(
                "every graph of the structure alphabet handed over in one batch together with a template that does not parse (as last and as first element), on a pristine instance and on one already holding an accepted template `keep`: the call must fail, `keep` must stay the only template, and every template that is nevertheless left behind is rendered (a crash of that render is reported with the graph); {}",
                rsp.bounds()
            ),
        )
        .budget(safety_s)
        .describe(|item| {
            let idx = rsp.idx(item);
            describe_graph(&rsp.nm, &rsp.tpls(&idx), &rsp.sources(&idx), &rsp.facts(&idx))
        })
        .crash_signature(|item, kind| {
            let idx = rsp.idx(item);
            let what = if kind == "hang" { "hang" } else { "overflow" };
            format!("rejected-batch-leftover-render-{what}:{}", crash_class(&rsp.nm, &rsp.tpls(&idx), &rsp.facts(&idx)))
        }),
        |item, acc: &mut Acc| {
            let idx = rsp.idx(item);
            let f = rsp.facts(&idx);
            let srcs = rsp.sources(&idx);
            let broken = ("zz-broken", "{% if");
            for (variant, broken_first) in [("broken-last", false), ("broken-first", true)] {
                for with_keep in [false, true] {
                    let mut t = rsp.proto.clone();
                    if with_keep {
                        t.add_raw_template("keep", "K").expect("a plain template registers");
                    }
                    let mut batch: Vec<(&str, &str)> = rsp.nm.names.iter().map(|n| n.as_str()).zip(srcs.iter().copied()).collect();
                    if broken_first { batch.insert(0, broken) } else { batch.push(broken) }
                    let r = mccore::engine::guarded(|| t.add_raw_templates(batch.clone()));
                    let case = || {
                        json!({"graph": describe_graph(&rsp.nm, &rsp.tpls(&idx), &srcs, &f), "batch": batch, "already_registered": if with_keep { vec!["keep"] } else { vec![] }})
                    };
                    match r {
                        Ok(Err(_)) => {}
                        Ok(Ok(())) => {
                            acc.violation(&format!("rejected-batch:{variant}:accepted"), "a batch containing a template that does not parse was accepted".to_string(), case);
                            continue;
                        }
                        Err(p) => {
                            acc.violation(&format!("rejected-batch:{variant}:panic"), format!("add_raw_templates panicked: {p}"), case);
                            continue;
                        }
                    }
                    let mut left: Vec<String> = t.get_template_names().map(|s| s.to_string()).collect();
                    left.sort();
                    let want: Vec<String> = if with_keep { vec!["keep".to_string()] } else { vec![] };
                    if left != want {
                        // render what was left behind: an unchecked cycle shows as a crash of this worker
                        let ctx = tera::Context::new();
                        let renders: Vec<String> = left.iter().map(|n| mccore::engine::render(&t, n, &ctx).coarse()).collect();
                        acc.violation(
                            &format!("rejected-batch:{variant}:templates-left-behind"),
                            format!("the refused batch left {left:?} registered (renders: {renders:?})"),
                            case,
                        );
                    }
                    acc.case(f.edges > 0, &format!("rejected-batch:{variant}:{}", if with_keep { "on-keep" } else { "pristine" }));
                }
            }
        },
    );

    // ------------------------------------------------------------------ refused file batches
    // The file API has its own insert / undo code. An accepted graph; then add_template_files with
    // ONE name given twice, both files holding a replacement that makes the graph cyclic or dangling:
    // the call must fail with the graph untouched - every template still renders as before (seeded
    // change C11-8 replayed the undo log front to back, so the first replacement stayed registered
    // and the render recursed without end).
    {
        let files_dir = std::env::var("C11_FILES_DIR")
            .map(std::path::PathBuf::from)
            .unwrap_or_else(|_| std::env::temp_dir().join(format!("verif-c11-files-{}", std::process::id())));
        let file_of = |dir: &std::path::Path, node: usize, cfg: usize| dir.join(format!("n{node}_c{cfg}.tpl"));
        let write_all = |dir: &std::path::Path| {
            std::fs::create_dir_all(dir).expect("scratch directory for the file API");
            for node in 0..rsp.spec.n {
                for cfg in 0..rsp.cfgs.len() {
                    let p = file_of(dir, node, cfg);
                    if std::fs::read_to_string(&p).ok().as_deref() != Some(rsp.srcs[node][cfg].as_str()) {
                        std::fs::write(&p, &rsp.srcs[node][cfg]).expect("write template file");
                    }
                }
            }
        };
        if run.is_supervisor() {
            unsafe { std::env::set_var("C11_FILES_DIR", &files_dir) };
            write_all(&files_dir);
        }
        let identity: Vec<usize> = (0..rsp.spec.n).collect();
        run.family(
            Family::new(
                "refused-file-batch-same-name-twice",
                rsp.items,
                &format!(
                    "every ACCEPTED graph of the structure alphabet x every node x every replacement configuration that makes the graph cyclic or dangling, offered through add_template_files as one batch naming the node twice (two files, same content): the call must fail and every template must render as before; {}",
                    rsp.bounds()
                ),
            )
            .budget(safety_s)
            .describe(|item| {
                let idx = rsp.idx(item);
                describe_graph(&rsp.nm, &rsp.tpls(&idx), &rsp.sources(&idx), &rsp.facts(&idx))
            })
            .crash_signature(|item, kind| {
                let idx = rsp.idx(item);
                let what = if kind == "hang" { "hang" } else { "overflow" };
                format!("refused-file-batch-leftover-render-{what}:{}", crash_class(&rsp.nm, &rsp.tpls(&idx), &rsp.facts(&idx)))
            }),
            |item, acc: &mut Acc| {
                let idx = rsp.idx(item);
                let f = rsp.facts(&idx);
                if f.may_reject() {
                    acc.case(false, "refused-file-batch:base-not-accepted");
                    return;
                }
                let srcs = rsp.sources(&idx);
                let Added::Accepted(t) = add(&rsp.nm, Some(&rsp.proto), &srcs, &identity) else {
                    acc.case(false, "refused-file-batch:base-not-accepted");
                    return;
                };
                if !files_dir.exists() {
                    write_all(&files_dir);
                }
                let ctx = tera::Context::new();
                let render_all = |t: &tera::Tera| -> Vec<String> { rsp.nm.names.iter().map(|n| mccore::engine::render(t, n, &ctx).coarse()).collect() };
                let before = render_all(&t);
                for node in 0..rsp.spec.n {
                    for cfg in 0..rsp.cfgs.len() {
                        let mut idx2 = idx.clone();
                        idx2[node] = cfg;
                        if cfg == idx[node] || !rsp.facts(&idx2).must_reject() {
                            continue;
                        }
                        let mut t2 = (*t).clone();
                        let path = file_of(&files_dir, node, cfg);
                        let name = rsp.nm.names[node].as_str();
                        let r = mccore::engine::guarded(|| t2.add_template_files(vec![(path.clone(), Some(name)), (path.clone(), Some(name))]));
                        let case = || json!({"graph": describe_graph(&rsp.nm, &rsp.tpls(&idx), &srcs, &f), "then": format!("add_template_files([(file, {name:?}), (file, {name:?})]) with the file holding {:?}", rsp.srcs[node][cfg]), "renders_before": before});
                        match r {
                            Ok(Err(_)) => {}
                            Ok(Ok(())) => {
                                acc.violation("refused-file-batch:accepted", "a replacement that makes the graph cyclic or dangling was accepted".to_string(), case);
                                continue;
                            }
                            Err(p) => {
                                acc.violation("refused-file-batch:panic", format!("add_template_files panicked: {p}"), case);
                                continue;
                            }
                        }
                        let after = render_all(&t2);
                        if after != before {
                            acc.violation("refused-file-batch:graph-changed", format!("after the refused call the templates render {after:?}"), case);
                        }
                        acc.case(true, "refused-file-batch:unchanged");
                    }
                }
            },
        );
        // ---------------------------------------------------------------- the glob entry points
        // `load_from_glob` / `full_reload` (cargo feature glob_fs) drop the previous glob's templates
        // and validate what is left: the set they accept has to be a valid one whatever the files
        // are at that moment - also when the glob finds no file at all and a hand-added template
        // still includes one of the files that went away (seeded change C11-11). The histories and
        // the fresh-instance oracle are C10's (props/src/bin/c10x/glob.rs); what this check adds to
        // its own families is the entry point.
        let glob_root = files_dir.join("glob");
        if run.is_supervisor() {
            globfam::Store::create(&glob_root);
        }
        let cops = globfam::changing_ops();
        let cn = cops.len() as u64;
        let cdepth: u32 = if thorough { 6 } else { 5 };
        let gops = globfam::ops();
        let gn = gops.len() as u64;
        let gdepth: u32 = if thorough { 5 } else { 4 };
        let (cops_ref, gops_ref, glob_root_ref) = (&cops, &gops, &glob_root);
        run.family(
            Family::new(
                "glob-entry-changing-files",
                cn * cn,
                &format!("ALL histories of length <= {cdepth} over {cn} operations (load_from_glob of a directory whose files change between the calls - valid, a file stopped parsing, a file removed, no file at all, other content - and of a fixed directory; full_reload; a refused pattern; a hand-added template including one of the glob's files, another with the name and text of one of them): a call is accepted exactly when the resulting set is valid on a fresh instance, and the instance then renders like that fresh instance"),
            )
            .describe(|item| json!({"api": "load_from_glob / full_reload over changing files", "history_prefix": [globfam::op_json(cops_ref[(item / cn) as usize]), globfam::op_json(cops_ref[(item % cn) as usize])]}))
            .crash_signature(|_, kind| format!("{kind}:glob-entry-changing-files")),
            |item, acc: &mut Acc| {
                let store = globfam::Store::create(glob_root_ref);
                globfam::Explorer::new("glob-entry-changing-files", &store, cops_ref).run_item(acc, item, cdepth);
            },
        );
        run.family(
            Family::new(
                "glob-entry",
                gn * gn,
                &format!("ALL histories of length <= {gdepth} over {gn} operations (load_from_glob of six fixed directories - one with a dangling parent, one valid only next to a hand-added template - of refused patterns and of a pattern matching nothing; full_reload; three hand-added templates that extend / include / call into the glob's templates, one whose name the globs carry too): same oracle"),
            )
            .describe(|item| json!({"api": "load_from_glob / full_reload", "history_prefix": [globfam::op_json(gops_ref[(item / gn) as usize]), globfam::op_json(gops_ref[(item % gn) as usize])]}))
            .crash_signature(|_, kind| format!("{kind}:glob-entry")),
            |item, acc: &mut Acc| {
                let store = globfam::Store::create(glob_root_ref);
                globfam::Explorer::new("glob-entry", &store, gops_ref).run_item(acc, item, gdepth);
            },
        );
        if run.is_supervisor() {
            let (ok, err) = (run.counter("glob_api_ok"), run.counter("glob_api_err_on_nonempty"));
            run.guard("glob-entry-both-outcomes", ok > 100 && err > 100, format!("accepted={ok} refused on an instance holding templates={err}"));
            let _ = std::fs::remove_dir_all(&files_dir);
        }
    }

    // ------------------------------------------------------------------ blocks rendering each other
    // "Every accepted set can be rendered without unbounded recursion" also when the recursion runs
    // through blocks instead of includes: a child may define block `a` inside its override of `n`
    // while the parent has `n` inside `a`, and with `super()` the two render each other for ever.
    // Such sets are accepted (the graph of templates is a plain chain); every render of them has to
    // come back with an error. The chains are those of C04's nesting alphabet (every forest of
    // nested blocks over {a, n}, each block with or without super()) on which C04's reference says
    // block resolution does not terminate. (Seeded change C11-12 gave `super()` a fresh block stack,
    // so the nesting guard never saw more than one level.)
    {
        let forests = inherit::forests(&["a", "n"]);
        let nf = forests.len() as u64;
        let max_l = if thorough { 4 } else { 3 };
        let levels_of: Vec<Vec<inherit::Level>> = (0..max_l).map(|k| forests.iter().map(|f| f.level(k)).collect()).collect();
        let srcs_of: Vec<Vec<String>> = (0..max_l).map(|k| levels_of[k].iter().map(|l| inherit::body_source(l, k)).collect()).collect();
        // items: chains of length 2..=max_l, lengths concatenated
        let counts: Vec<u64> = (2..=max_l).map(|l| nf.pow(l as u32)).collect();
        let total: u64 = counts.iter().sum();
        let decode = |mut item: u64| -> Vec<usize> {
            let mut l = 2;
            for c in &counts {
                if item < *c {
                    break;
                }
                item -= c;
                l += 1;
            }
            let mut idx = vec![0usize; l];
            for k in (0..l).rev() {
                idx[k] = (item % nf) as usize;
                item /= nf;
            }
            idx
        };
        let templates_of = |idx: &[usize]| -> Vec<(String, String)> {
            idx.iter()
                .enumerate()
                .map(|(k, &o)| (format!("t{k}"), if k == 0 { srcs_of[0][o].clone() } else { format!("{{% extends \"t{}\" %}}{}", k - 1, srcs_of[k][o]) }))
                .collect()
        };
        run.family(
            Family::new(
                "blocks-rendering-each-other",
                total,
                &format!("every chain of 2..={max_l} templates over the {nf} forests of nested blocks {{a, n}} (each block with or without super()) on which block resolution does not terminate (the others are skipped): accepted sets whose every render / render_block must come back - Ok or Err, no stack overflow, no hang"),
            )
            .describe(|i| json!({"templates": templates_of(&decode(i)).iter().map(|(n, s)| json!({"name": n, "source": s})).collect::<Vec<_>>(), "calls": "render + render_block(a), render_block(n) of every level"}))
            .crash_signature(|_, kind| format!("accepted-set-render-{}:blocks-through-super", if kind == "hang" { "hang" } else { "overflow" }))
            .timeout(30.0),
            |item, acc: &mut Acc| {
                let idx = decode(item);
                let lv: Vec<&inherit::Level> = idx.iter().enumerate().map(|(k, &o)| &levels_of[k][o]).collect();
                let valid = (0..lv.len()).all(|k| inherit::level_verdict(&lv, k).is_ok());
                let diverges = valid && (0..lv.len()).any(|k| inherit::reference_render(&lv, k).out == Err(inherit::RefError::Diverges));
                if !diverges {
                    return;
                }
                let tpls = templates_of(&idx);
                let case = || json!({"templates": tpls.iter().map(|(n, s)| json!({"name": n, "source": s})).collect::<Vec<_>>()});
                let mut t = tera::Tera::default();
                match engine::guarded(|| t.add_raw_templates(tpls.iter().map(|(n, s)| (n.as_str(), s.as_str())))) {
                    Ok(Ok(())) => {}
                    Ok(Err(_)) => {
                        // C04 judges acceptance of these chains; a refused one cannot recurse
                        acc.case(true, "blocks-through-super:refused-at-registration");
                        return;
                    }
                    Err(p) => {
                        acc.violation("panic:add:blocks-through-super", format!("add_raw_templates panicked: {p}"), case);
                        return;
                    }
                }
                let ctx = tera::Context::new();
                for (name, _) in &tpls {
                    let mut outs = vec![("render".to_string(), engine::guarded(|| t.render(name, &ctx)))];
                    for b in ["a", "n"] {
                        outs.push((format!("render_block({b})"), engine::guarded(|| t.render_block(name, b, &ctx))));
                    }
                    for (call, o) in outs {
                        match o {
                            Ok(Ok(_)) => acc.case(true, "blocks-through-super:text"),
                            Ok(Err(_)) => acc.case(true, "blocks-through-super:error"),
                            Err(p) => {
                                acc.violation("panic:render:blocks-through-super", format!("{call} of {name} panicked: {p}"), case);
                                acc.case(true, "blocks-through-super:panic");
                            }
                        }
                    }
                }
            },
        );
    }

    // ------------------------------------------------------------------ chains
    let chain_items = (CHAIN_MAX_NODES * CHAIN_KINDS.len() * CLOSURES.len() * CHAIN_NAMINGS) as u64;
    let chain_parts = |item: u64| {
        let (n, kind, closure, naming) = chain_decode(item);
        let nm = chain_naming(n, naming);
        let g = chain_graph(n, kind, closure);
        // every template of a chain also reads a name bound to the empty text in the global context
        // (the rendered text is unchanged; through `default`, because a component body - and what
        // it includes - does not see the global context) and one nobody binds: both lookups walk up through every
        // including template - the cost of ONE read deep in a chain must not grow faster than the
        // chain (seeded change C11-14 made every level of the walk look twice when the name is
        // found: 2^depth lookups, a 32-deep chain never finishes)
        let srcs: Vec<String> = g.iter().enumerate().map(|(i, t)| format!("{}{{{{ bound_w | default(value=\"\") }}}}{{{{ unbound_w | default(value=\"\") }}}}", source(i, t, &nm))).collect();
        (n, kind, closure, nm, g, srcs)
    };
    run.family(
        Family::new(
            "chains",
            chain_items,
            &format!(
                "chains of 1..={CHAIN_MAX_NODES} templates (up to 32 edges) x {{extends+super(), include at top level, include in block, include in a called component, alternating include/extends+super()}} x {{open, closed into a cycle, closed into a cycle entered from a tail}} x 3 namings (sorted with / against / across the chain order)"
            ),
        )
        .describe(|item| {
            let (_, kind, closure, nm, g, srcs) = chain_parts(item);
            let gr: Vec<&Tpl> = g.iter().collect();
            let sr: Vec<&str> = srcs.iter().map(|s| s.as_str()).collect();
            let mut d = describe_graph(&nm, &gr, &sr, &facts_of(&gr, &nm));
            d["chain"] = json!(format!("{kind:?}/{closure:?}"));
            d
        })
        .crash_signature(|item, kind| {
            let (_, ck, closure, nm, g, _) = chain_parts(item);
            let gr: Vec<&Tpl> = g.iter().collect();
            let f = facts_of(&gr, &nm);
            if infinite_prediction(&nm, &gr, &f).is_some() {
                let what = if kind == "hang" { "hang" } else { "overflow" };
                format!("accepted-graph-render-{what}:{}", crash_class(&nm, &gr, &f))
            } else {
                format!("{kind}-in-chain:{ck:?}:{closure:?}")
            }
        }),
        |item, acc: &mut Acc| {
            let (n, kind, closure, nm, g, srcs) = chain_parts(item);
            let gr: Vec<&Tpl> = g.iter().collect();
            let sr: Vec<&str> = srcs.iter().map(|s| s.as_str()).collect();
            let f = facts_of(&gr, &nm);
            let order: Vec<usize> = (0..n).collect();
            // the expectations that make the family meaningful, checked against the reference
            let cyclic = closure != Closure::Open;
            debug_assert!(cyclic || !f.may_reject());
            if n == CHAIN_MAX_NODES && !cyclic {
                acc.count("open-chains-of-32-edges", 1);
            }
            let _ = kind;
            run_graph(acc, &nm, None, &gr, &sr, &f, &order);
            // the same open chain registered ONE TEMPLATE PER CALL, targets first (every call
            // re-finalises the whole registry: bookkeeping that accumulates per finalisation shows
            // only here - seeded change C11-9 doubled the size hint per level and per call until a
            // render asked for terabytes), then one more unrelated add, then every template rendered
            // and compared with the one-batch instance
            if !cyclic {
                let ctx = tera::Context::new();
                let batch = add(&nm, None, &sr, &order);
                for forward in [false, true] {
                    let mut t = pristine(&nm);
                    let idxs: Vec<usize> = if forward { (0..n).collect() } else { (0..n).rev().collect() };
                    let ok = idxs.iter().all(|&i| mccore::engine::guarded(|| t.add_raw_template(&nm.names[i], sr[i])).map(|r| r.is_ok()).unwrap_or(false));
                    if !ok {
                        continue;
                    }
                    let _ = t.add_raw_template("zz-unrelated", "u");
                    let case = || json!({"chain_kind": format!("{kind:?}"), "length": n, "registration": if forward { "one call per template, first node first" } else { "one call per template, last node first" }});
                    for (i, name) in nm.names.iter().enumerate() {
                        let r = mccore::engine::render(&t, name, &ctx);
                        acc.count("renders", 1);
                        if let (Added::Accepted(b), false) = (&batch, r.is_panic()) {
                            let rb = mccore::engine::render(b, name, &ctx);
                            if rb.coarse() != r.coarse() {
                                acc.violation("chain-one-by-one-differs-from-batch", format!("template {i} renders {} after one-by-one registration, {} after one batch", r.show(), rb.show()), case);
                            }
                        } else if r.is_panic() {
                            acc.violation("panic:chain-one-by-one", format!("render panicked: {}", r.show()), case);
                        }
                    }
                    acc.case(n > 1, "chain:one-by-one-rendered");
                    break;
                }
            }
            // a chain whose simulation is infinite and which the engine accepts is rendered here
            // as well (tiny family: no need for a separate one)
            if infinite_prediction(&nm, &gr, &f).is_some() {
                run_infinite(acc, &nm, None, &gr, &sr, &f, &order);
            }
        },
    );

    // ------------------------------------------------------------------ guards and summary
    // ------------------------------------------------------------------ component recursion through includes
    // The include relation of these sets is acyclic (they are accepted), but a component whose body
    // includes a template that calls the component again recurses at render time; the only thing
    // that stops it is the component nesting limit, which therefore has to survive `include`
    // (seeded change C11-2 reset it at every include). Hand-written shapes x where the recursive
    // call sits; every render must come back with text or an error.
    let rec_shapes: Vec<(&str, Vec<(&str, String)>)> = {
        let mut v: Vec<(&str, Vec<(&str, String)>)> = vec![];
        let call_sites: [(&str, &str); 4] = [
            ("top", "{{ <card /> }}"),
            ("if", "{% if true %}{{ <card /> }}{% endif %}"),
            ("loop", "{% for i in [1] %}{{ <card /> }}{% endfor %}"),
            ("capture", "{% filter upper %}{{ <card /> }}{% endfilter %}"),
        ];
        for (site, call) in call_sites {
            v.push((site, vec![("widgets", "{% component card() %}[{% include \"page\" %}]{% endcomponent card %}".to_string()), ("page", format!("p{call}"))]));
            v.push((site, vec![
                ("widgets", "{% component card() %}[{% include \"mid\" %}]{% endcomponent card %}".to_string()),
                ("mid", "m{% include \"page\" %}".to_string()),
                ("page", format!("p{call}")),
            ]));
            v.push((site, vec![
                ("widgets", "{% component card() %}[{% include \"page\" %}]{% endcomponent card %}".to_string()),
                ("base", "b{% block main %}x{% endblock %}".to_string()),
                ("page", format!("{{% extends \"base\" %}}{{% block main %}}{call}{{% endblock %}}")),
            ]));
            v.push((site, vec![
                ("widgets", "{% component card() %}[{{ body }}]{% endcomponent card %}{% component outer() %}{% <card> %}{% include \"page\" %}{% </card> %}{% endcomponent outer %}".to_string()),
                ("page", format!("p{}", call.replace("card", "outer"))),
            ]));
        }
        v
    };
    run.family(
        Family::new(
            "component-recursion-through-include",
            rec_shapes.len() as u64,
            "16 accepted sets in which a component's body (directly, through a second include, through an extending template, through a call body) includes a template that calls the component again from top level / if / loop / capture: rendering every template and the component through the API must return text or an error",
        )
        .timeout(30.0)
        .describe(|i| json!({"templates": rec_shapes[i as usize].1, "call_site": rec_shapes[i as usize].0}))
        .crash_signature(|_, kind| {
            let what = if kind == "hang" { "hang" } else { "overflow" };
            format!("accepted-graph-render-{what}:component-recursion-through-include")
        }),
        |item, acc: &mut Acc| {
            let (site, tpls) = &rec_shapes[item as usize];
            let case = || json!({"templates": tpls, "call_site": site});
            let mut t = tera::Tera::default();
            let add = mccore::engine::add_templates(&mut t, &tpls.iter().map(|(n, s)| (n.to_string(), s.clone())).collect::<Vec<_>>());
            acc.count("adds", 1);
            if !add.is_ok() {
                // not accepted: nothing to render (a stricter registration check is allowed)
                acc.case(true, "rejected");
                return;
            }
            let ctx = tera::Context::new();
            for (name, _) in tpls.iter() {
                let r = mccore::engine::render(&t, name, &ctx);
                acc.count("renders", 1);
                if let mccore::Out::Panic(p) = &r {
                    acc.violation("panic:component-recursion-through-include", format!("render({name}) panicked: {p}"), case);
                }
                acc.case(true, if r.is_err() { "render-ended-in-error" } else { r.class() });
            }
            for comp in ["card", "outer"] {
                let r = mccore::engine::to_out(mccore::engine::guarded(|| t.render_component(comp, &ctx, None, true)));
                acc.count("renders", 1);
                if let mccore::Out::Panic(p) = &r {
                    acc.violation("panic:component-recursion-through-include", format!("render_component({comp}) panicked: {p}"), case);
                }
            }
        },
    );

    if run.is_supervisor() {
        let graphs = run.counter("graphs");
        let adds = run.counter("adds");
        let renders = run.counter("renders");
        run.extra("states", json!(graphs));
        run.extra("transitions", json!(adds + renders));
        run.extra("traces_validated_against_impl", json!(adds + renders));
        run.extra(
            "alphabets",
            json!(spaces.iter().map(|s| json!({"family": s.label, "naming": s.nm.label, "names": s.nm.names, "edge_spellings": s.nm.spell, "fallback_prefixes": s.nm.prefixes, "per_template_configurations": s.radix, "graphs": s.items, "alphabet": s.spec.describe()})).collect::<Vec<_>>()),
        );
        run.extra("source_layout", json!("{% extends \"P\" %}M<{% include \"U\" %}…{% block b %}M({{ super() }}{% include \"V\" %}{{ <cIxK /> }}){% endblock %}>{% component cIxK() %}M[{% include \"W\" %}]{% endcomponent %}"));
        run.extra("sample_source", json!(spaces[0].srcs[1].last()));

        let fam0 = "graphs-n3";
        let acc_r = run.outcome(fam0, "accepted:rendered") + run.outcome(fam0, "accepted:rendered(executed-only cycle present)");
        let kinds = [
            "rejected:MissingParent",
            "rejected:CircularExtend",
            "rejected:CircularInclude(pure cycle)",
            "rejected:Msg(Unknown template)",
        ];
        let per_kind: Vec<u64> = kinds.iter().map(|k| run.outcome(fam0, k)).collect();
        run.guard(
            "both-verdicts-and-every-kind",
            acc_r > 0 && per_kind.iter().all(|&c| c > 0),
            format!("accepted and rendered: {acc_r}; {kinds:?}: {per_kind:?}"),
        );
        let exec_only = run.counter("graphs-with-executed-only-cycle-and-no-other-fault");
        run.guard(
            "rule-3-region-is-inhabited",
            exec_only > 0,
            format!("{exec_only} graphs have a cycle in the executed relation only (and no other fault)"),
        );
        let mism = run.counter("sim-mismatch");
        run.guard(
            "reference-simulation-agrees-with-engine-on-every-terminating-render",
            mism == 0 && run.counter("renders-text") > 0,
            format!("{mism} disagreements over {} renders that produced text", run.counter("renders-text")),
        );
        let depth = run.counter("renders-err-component-depth");
        run.guard(
            "component-depth-backstop-reached",
            depth > 0,
            format!("{depth} renders ended in the component recursion limit"),
        );
        let (fb, ex) = (
            run.counter("graphs-with-an-edge-resolved-through-a-fallback-prefix"),
            run.counter("graphs-with-an-exact-name-edge-that-has-a-prefixed-competitor"),
        );
        let pref_acc: u64 = spaces
            .iter()
            .filter(|s| !s.nm.prefixes.is_empty())
            .map(|s| run.outcome(&format!("graphs-{}", s.label), "accepted:rendered"))
            .sum();
        run.guard(
            "fallback-prefix-resolution-exercised",
            fb > 0 && ex > 0 && pref_acc > 0,
            format!("{fb} graphs with an edge through a prefix, {ex} with an exact-name edge that has a prefixed competitor, {pref_acc} accepted and rendered under prefixed namings"),
        );
        let long = run.counter("open-chains-of-32-edges");
        run.guard("chains-reach-32-edges", long >= 15, format!("{long} open chains with 33 templates"));
        let inf_candidates: u64 = spaces.iter().map(|s| run.evaluations(&format!("infinite-render-{}", s.label))).sum();
        run.guard(
            "infinite-render-families-select-graphs",
            inf_candidates > 0,
            format!("{inf_candidates} graphs were predicted to recurse without bound and were registered"),
        );
        run.extra(
            "order_family_note",
            json!(format!(
                "{} (graph, order) pairs had the same verdict and kind but a different error text",
                run.counter("same-kind-but-different-error-text")
            )),
        );
    }
    run.finish();
}
