//! Labelled extends/include graphs over a small set of templates: configuration alphabet,
//! template sources, reference relations (pure / executed include relation, extends relation,
//! name resolution) and a reference simulation of the render call graph.
//!
//! Self-contained (std only) so that other checks can reuse it with
//! `#[path = "../c11/graph.rs"] mod graph;`.
//!
//! Nothing in here calls the engine: it is the oracle side.

#![allow(dead_code)]

/// Target of an `extends` / `include` edge.
#[derive(Clone, Copy, PartialEq, Eq, Debug)]
pub enum Target {
    Node(usize),
    /// a name that no template carries
    Missing,
}

/// What the template does with the one block name (`b`) of the family.
#[derive(Clone, Copy, PartialEq, Eq, Debug)]
pub enum Mode {
    /// no `{% block b %}` in the source (a child then inherits the nearest ancestor's block)
    Absent,
    /// `{% block b %}…{% endblock %}` without `super()` (an override when the template extends)
    Plain,
    /// `{% block b %}{{ super() }}…{% endblock %}`
    Super,
}

/// Where an `{% include %}` tag sits.
#[derive(Clone, Copy, PartialEq, Eq, Debug)]
pub enum Place {
    /// top level of the template
    Top,
    /// inside `{% block b %}` (only with Mode::Plain / Mode::Super; with Super this is the
    /// "overriding block that calls super()" placement)
    Block,
    /// inside the body of a component defined by the template; the template itself calls the
    /// component (from inside block `b` when it has one, from its top level otherwise)
    Comp,
}

#[derive(Clone, PartialEq, Eq, Debug)]
pub struct Tpl {
    pub extends: Option<Target>,
    pub mode: Mode,
    pub includes: Vec<(Target, Place)>,
}

impl Tpl {
    pub fn leaf() -> Tpl {
        Tpl { extends: None, mode: Mode::Plain, includes: vec![] }
    }
    pub fn edge_count(&self) -> usize {
        self.extends.is_some() as usize + self.includes.len()
    }
}

/// How the nodes are named and how edges spell their targets.
#[derive(Clone, Debug)]
pub struct Naming {
    pub label: String,
    /// `Tera::set_fallback_prefixes`
    pub prefixes: Vec<String>,
    /// registered template name of node i
    pub names: Vec<String>,
    /// how an edge that targets node i spells the name
    pub spell: Vec<String>,
    /// the spelling of `Target::Missing`
    pub missing: String,
    /// text marker of node i in rendered output
    pub marker: Vec<String>,
}

impl Naming {
    pub fn plain(n: usize) -> Naming {
        let names: Vec<String> = (0..n).map(|i| ((b'a' + i as u8) as char).to_string()).collect();
        Naming {
            label: "plain".into(),
            prefixes: vec![],
            spell: names.clone(),
            marker: names.iter().map(|s| s.to_uppercase()).collect(),
            names,
            missing: "zz".into(),
        }
    }

    /// One fallback prefix. Node 0 is `a` and is spelled exactly while its competitor `p/a`
    /// (node 1, spelled exactly too) is present; node 2 is `p/b` and is reached through the
    /// prefix (spelled `b`).
    pub fn prefixed_one() -> Naming {
        Naming {
            label: "prefix[p/]: a, p/a, p/b(spelled b)".into(),
            prefixes: vec!["p/".into()],
            names: vec!["a".into(), "p/a".into(), "p/b".into()],
            spell: vec!["a".into(), "p/a".into(), "b".into()],
            missing: "zz".into(),
            marker: vec!["A".into(), "B".into(), "C".into()],
        }
    }

    /// Two fallback prefixes tried in order: `a` is carried by `q/a` (node 1, first prefix, wins)
    /// and by `p/a` (node 0, second prefix, spelled exactly); node 2 is plain `b`.
    pub fn prefixed_two() -> Naming {
        Naming {
            label: "prefix[q/, p/]: p/a, q/a(spelled a), b".into(),
            prefixes: vec!["q/".into(), "p/".into()],
            names: vec!["p/a".into(), "q/a".into(), "b".into()],
            spell: vec!["p/a".into(), "a".into(), "b".into()],
            missing: "zz".into(),
            marker: vec!["A".into(), "B".into(), "C".into()],
        }
    }

    /// `n` nodes named `t00..` through the permutation `perm` (node i is called t<perm[i]>), so
    /// that the sorted order of names differs from the node order.
    pub fn numbered(n: usize, label: &str, perm: impl Fn(usize) -> usize) -> Naming {
        let names: Vec<String> = (0..n).map(|i| format!("t{:02}", perm(i))).collect();
        Naming {
            label: label.into(),
            prefixes: vec![],
            spell: names.clone(),
            marker: (0..n).map(|i| format!("T{i}")).collect(),
            names,
            missing: "zz".into(),
        }
    }

    pub fn n(&self) -> usize {
        self.names.len()
    }

    pub fn spelled(&self, t: Target) -> &str {
        match t {
            Target::Node(i) => &self.spell[i],
            Target::Missing => &self.missing,
        }
    }

    /// Reference name resolution, from the documentation of `set_fallback_prefixes`: the exact
    /// name first, then the prefixes in order; the first match is used.
    pub fn resolve_spelled(&self, spelled: &str) -> Option<usize> {
        if let Some(i) = self.names.iter().position(|n| n == spelled) {
            return Some(i);
        }
        for p in &self.prefixes {
            let full = format!("{p}{spelled}");
            if let Some(i) = self.names.iter().position(|n| *n == full) {
                return Some(i);
            }
        }
        None
    }

    pub fn resolve(&self, t: Target) -> Option<usize> {
        self.resolve_spelled(self.spelled(t))
    }
}

/// Component name of the k-th component-placed include of node i.
pub fn comp_name(i: usize, k: usize) -> String {
    format!("c{i}x{k}")
}

/// The template source of node `i`.
///
/// Layout (no whitespace between the pieces, `M` = marker of the node):
/// `{% extends "P" %}` `M<` top-level includes, component calls when there is no block,
/// `{% block b %}M(` `{{ super() }}` block-level includes, component calls `){% endblock %}` `>`
/// then the component definitions `{% component cIxK() %}M[{% include "U" %}]{% endcomponent %}`.
pub fn source(i: usize, t: &Tpl, nm: &Naming) -> String {
    let m = &nm.marker[i];
    let mut s = String::with_capacity(160);
    if let Some(p) = t.extends {
        s.push_str(&format!("{{% extends \"{}\" %}}", nm.spelled(p)));
    }
    s.push_str(m);
    s.push('<');
    for (tg, pl) in &t.includes {
        if *pl == Place::Top {
            s.push_str(&format!("{{% include \"{}\" %}}", nm.spelled(*tg)));
        }
    }
    let comp_calls = |s: &mut String| {
        let mut k = 0;
        for (_, pl) in &t.includes {
            if *pl == Place::Comp {
                s.push_str(&format!("{{{{ <{} /> }}}}", comp_name(i, k)));
                k += 1;
            }
        }
    };
    if t.mode == Mode::Absent {
        comp_calls(&mut s);
    } else {
        s.push_str("{% block b %}");
        s.push_str(m);
        s.push('(');
        if t.mode == Mode::Super {
            s.push_str("{{ super() }}");
        }
        for (tg, pl) in &t.includes {
            if *pl == Place::Block {
                s.push_str(&format!("{{% include \"{}\" %}}", nm.spelled(*tg)));
            }
        }
        comp_calls(&mut s);
        s.push_str("){% endblock %}");
    }
    s.push('>');
    let mut k = 0;
    for (tg, pl) in &t.includes {
        if *pl == Place::Comp {
            s.push_str(&format!(
                "{{% component {}() %}}{m}[{{% include \"{}\" %}}]{{% endcomponent %}}",
                comp_name(i, k),
                nm.spelled(*tg)
            ));
            k += 1;
        }
    }
    s
}

// ------------------------------------------------------------------------------------------
// alphabet of per-template configurations

#[derive(Clone, Debug)]
pub struct AlphabetSpec {
    pub n: usize,
    pub missing_extends: bool,
    pub missing_include: bool,
    /// block modes available to a template that extends (a template without `extends` always
    /// has Mode::Plain so that no override is ever an orphan)
    pub child_modes: Vec<Mode>,
    pub places: Vec<Place>,
    /// 1 or 2; two includes of one template have distinct existing targets
    pub max_includes: usize,
}

impl AlphabetSpec {
    pub fn describe(&self) -> String {
        format!(
            "n={}; extends in {{none, each of the {} templates incl. itself{}}}; block mode of a template that extends in {:?} (a template without extends always defines block b); include placements {:?}; <= {} include(s) per template (two includes: distinct existing targets); include targets: each template incl. itself{}",
            self.n,
            self.n,
            if self.missing_extends { ", a missing name" } else { "" },
            self.child_modes,
            self.places,
            self.max_includes,
            if self.missing_include { ", a missing name" } else { "" },
        )
    }

    /// All per-template configurations, simplest first.
    pub fn configs(&self) -> Vec<Tpl> {
        let mut ext: Vec<Option<Target>> = vec![None];
        for i in 0..self.n {
            ext.push(Some(Target::Node(i)));
        }
        if self.missing_extends {
            ext.push(Some(Target::Missing));
        }
        let mut targets: Vec<Target> = (0..self.n).map(Target::Node).collect();
        if self.missing_include {
            targets.push(Target::Missing);
        }
        let mut out = vec![];
        for e in &ext {
            let modes: Vec<Mode> = if e.is_none() { vec![Mode::Plain] } else { self.child_modes.clone() };
            for m in modes {
                let places: Vec<Place> = self
                    .places
                    .iter()
                    .copied()
                    .filter(|p| !(m == Mode::Absent && *p == Place::Block))
                    .collect();
                out.push(Tpl { extends: *e, mode: m, includes: vec![] });
                for t in &targets {
                    for p in &places {
                        out.push(Tpl { extends: *e, mode: m, includes: vec![(*t, *p)] });
                    }
                }
                if self.max_includes >= 2 {
                    for a in 0..self.n {
                        for b in a + 1..self.n {
                            for pa in &places {
                                for pb in &places {
                                    out.push(Tpl {
                                        extends: *e,
                                        mode: m,
                                        includes: vec![(Target::Node(a), *pa), (Target::Node(b), *pb)],
                                    });
                                }
                            }
                        }
                    }
                }
            }
        }
        // simplest first: by number of edges, stable
        out.sort_by_key(|t| t.edge_count());
        out
    }
}

/// Decodes a mixed-radix item index into n configuration indices (node 0 = least significant).
pub fn decode(mut item: u64, n: usize, radix: u64) -> Vec<usize> {
    let mut v = Vec::with_capacity(n);
    for _ in 0..n {
        v.push((item % radix) as usize);
        item /= radix;
    }
    v
}

// ------------------------------------------------------------------------------------------
// reference relations

/// The edges of one template after reference name resolution.
#[derive(Clone, Debug, Default)]
pub struct Rel {
    pub parent: Option<usize>,
    pub dangling_extends: bool,
    /// resolved include targets (any placement)
    pub pure: u64,
    pub dangling_include: bool,
    pub edges: usize,
}

impl Rel {
    pub fn of(t: &Tpl, nm: &Naming) -> Rel {
        let mut r = Rel { edges: t.edge_count(), ..Default::default() };
        if let Some(p) = t.extends {
            match nm.resolve(p) {
                Some(j) => r.parent = Some(j),
                None => r.dangling_extends = true,
            }
        }
        for (tg, _) in &t.includes {
            match nm.resolve(*tg) {
                Some(j) => r.pure |= 1 << j,
                None => r.dangling_include = true,
            }
        }
        r
    }
}

#[derive(Clone, Debug, Default)]
pub struct Facts {
    pub n: usize,
    /// bit i set: template i extends a name that does not resolve
    pub dangling_extends: u64,
    /// bit i set: template i includes a name that does not resolve
    pub dangling_includes: u64,
    /// resolved parent
    pub parent: Vec<Option<usize>>,
    /// bit i set: following `extends` from template i runs into a repetition
    pub ext_loop_from: u64,
    /// T -> U iff T's own source includes U (any placement)
    pub pure: Vec<u64>,
    /// T -> U iff U is included by T or by any template reachable from T through `extends`
    pub exec: Vec<u64>,
    /// bit i set: i lies on a cycle of the pure / executed relation
    pub on_pure_cycle: u64,
    pub on_exec_cycle: u64,
    pub edges: usize,
}

impl Facts {
    pub fn ext_cycle(&self) -> bool {
        self.ext_loop_from != 0
    }
    pub fn pure_cycle(&self) -> bool {
        self.on_pure_cycle != 0
    }
    pub fn exec_cycle(&self) -> bool {
        self.on_exec_cycle != 0
    }
    pub fn dangling(&self) -> bool {
        self.dangling_extends != 0 || self.dangling_includes != 0
    }
    /// rule 1: the set has to be rejected
    pub fn must_reject(&self) -> bool {
        self.dangling() || self.ext_cycle() || self.pure_cycle()
    }
    /// rule 2/3: the set may be rejected
    pub fn may_reject(&self) -> bool {
        self.must_reject() || self.exec_cycle()
    }
    /// Well-formed enough for the render simulation: every edge resolves, extends is acyclic.
    pub fn simulable(&self) -> bool {
        !self.dangling() && !self.ext_cycle()
    }
    pub fn fault_names(&self) -> Vec<&'static str> {
        let mut v = vec![];
        if self.dangling_extends != 0 {
            v.push("dangling-extends");
        }
        if self.dangling_includes != 0 {
            v.push("dangling-include");
        }
        if self.ext_cycle() {
            v.push("extends-cycle");
        }
        if self.pure_cycle() {
            v.push("pure-include-cycle");
        }
        if !self.pure_cycle() && self.exec_cycle() {
            v.push("executed-only-include-cycle");
        }
        v
    }
    /// number of classes of fault present among {dangling extends, dangling include, extends
    /// cycle, include cycle (pure or executed-only)}
    pub fn fault_classes(&self) -> usize {
        (self.dangling_extends != 0) as usize
            + (self.dangling_includes != 0) as usize
            + self.ext_cycle() as usize
            + self.exec_cycle() as usize
    }
    /// the most specific fault class, for outcome histograms
    pub fn class(&self) -> &'static str {
        self.fault_names().first().copied().unwrap_or("well-formed")
    }
}

/// Nodes lying on a cycle of `rel` (self-loops included).
pub fn on_cycle(rel: &[u64]) -> u64 {
    let n = rel.len();
    // transitive closure (paths of length >= 1)
    let mut reach: Vec<u64> = rel.to_vec();
    loop {
        let mut changed = false;
        for i in 0..n {
            let mut r = reach[i];
            let mut m = reach[i];
            while m != 0 {
                let j = m.trailing_zeros() as usize;
                m &= m - 1;
                r |= reach[j];
            }
            if r != reach[i] {
                reach[i] = r;
                changed = true;
            }
        }
        if !changed {
            break;
        }
    }
    let mut out = 0;
    for i in 0..n {
        if reach[i] >> i & 1 == 1 {
            out |= 1 << i;
        }
    }
    out
}

pub fn facts(rels: &[&Rel]) -> Facts {
    let n = rels.len();
    let mut f = Facts { n, parent: vec![None; n], pure: vec![0; n], exec: vec![0; n], ..Default::default() };
    for (i, r) in rels.iter().enumerate() {
        f.edges += r.edges;
        f.parent[i] = r.parent;
        f.pure[i] = r.pure;
        if r.dangling_extends {
            f.dangling_extends |= 1 << i;
        }
        if r.dangling_include {
            f.dangling_includes |= 1 << i;
        }
    }
    for i in 0..n {
        // walk the extends relation from i; collect everything reachable
        let mut seen: u64 = 1 << i;
        let mut cur = i;
        let mut ex = f.pure[i];
        while let Some(p) = f.parent[cur] {
            if seen >> p & 1 == 1 {
                f.ext_loop_from |= 1 << i;
                break;
            }
            seen |= 1 << p;
            ex |= f.pure[p];
            cur = p;
        }
        f.exec[i] = ex;
    }
    f.on_pure_cycle = on_cycle(&f.pure);
    f.on_exec_cycle = on_cycle(&f.exec);
    f
}

pub fn facts_of(g: &[&Tpl], nm: &Naming) -> Facts {
    let rels: Vec<Rel> = g.iter().map(|t| Rel::of(t, nm)).collect();
    let refs: Vec<&Rel> = rels.iter().collect();
    facts(&refs)
}

// ------------------------------------------------------------------------------------------
// reference simulation of the render call graph

pub const MAX_COMPONENT_DEPTH: usize = 20;

#[derive(Clone, Copy, PartialEq, Eq, Debug)]
pub enum Chunk {
    /// the top-level chunk of a template
    Body(usize),
    /// level-th chunk of the block lineage of the rendering template
    Block(usize),
    /// body of component k of a template
    Comp(usize, usize),
}

#[derive(Clone, Copy, PartialEq, Eq, Debug)]
pub struct Frame {
    /// the template the virtual machine renders on behalf of (`vm.template`)
    pub vm: usize,
    pub chunk: Chunk,
    /// component recursion depth
    pub depth: usize,
}

#[derive(Clone, PartialEq, Eq, Debug)]
pub enum Sim {
    Text(String),
    /// rendering stops with an error of this class
    Err(&'static str),
    /// the call stack from the entry to the first repeated frame (inclusive): unbounded recursion
    Infinite(Vec<Frame>),
}

impl Sim {
    pub fn is_infinite(&self) -> bool {
        matches!(self, Sim::Infinite(_))
    }
}

pub struct Model<'a> {
    pub g: Vec<&'a Tpl>,
    /// parents of every template, closest first
    pub parents: Vec<Vec<usize>>,
    /// per rendering template: owners of the chunks of its lineage of block `b`
    pub lineage: Vec<Vec<usize>>,
    /// resolved include targets per template, in source order, with placement
    pub incl: Vec<Vec<(usize, Place)>>,
}

enum Stop {
    Err(&'static str),
    Infinite(Vec<Frame>),
}

impl<'a> Model<'a> {
    /// Requires `facts(g).simulable()`.
    pub fn new(g: &[&'a Tpl], nm: &Naming) -> Model<'a> {
        let n = g.len();
        let parent: Vec<Option<usize>> =
            g.iter().map(|t| t.extends.and_then(|p| nm.resolve(p))).collect();
        let mut parents = vec![vec![]; n];
        for i in 0..n {
            let mut cur = i;
            while let Some(p) = parent[cur] {
                assert!(parents[i].len() <= n, "extends cycle in a simulated graph");
                parents[i].push(p);
                cur = p;
            }
        }
        // own lineage of a template that defines the block: itself, then (while the chunk calls
        // super) the next ancestor, closest first, that defines the block
        let own = |d: usize| -> Vec<usize> {
            let mut lin = vec![d];
            if g[d].mode == Mode::Super {
                for &p in &parents[d] {
                    if g[p].mode != Mode::Absent {
                        lin.push(p);
                        if g[p].mode != Mode::Super {
                            break;
                        }
                    }
                }
            }
            lin
        };
        let mut lineage = vec![vec![]; n];
        for i in 0..n {
            let definer = std::iter::once(i)
                .chain(parents[i].iter().copied())
                .find(|&d| g[d].mode != Mode::Absent);
            if let Some(d) = definer {
                lineage[i] = own(d);
            }
        }
        let incl = g
            .iter()
            .map(|t| {
                t.includes
                    .iter()
                    .map(|(tg, pl)| (nm.resolve(*tg).expect("simulated graph has no dangling include"), *pl))
                    .collect()
            })
            .collect();
        Model { g: g.to_vec(), parents, lineage, incl }
    }

    /// `Tera::render(template t)`: the chunk of the root ancestor runs on behalf of `t`.
    pub fn render(&self, t: usize, nm: &Naming) -> Sim {
        let root = *self.parents[t].last().unwrap_or(&t);
        let mut out = String::new();
        let mut stack = vec![];
        match self.exec(Frame { vm: t, chunk: Chunk::Body(root), depth: 0 }, nm, &mut out, &mut stack) {
            Ok(()) => Sim::Text(out),
            Err(Stop::Err(e)) => Sim::Err(e),
            Err(Stop::Infinite(c)) => Sim::Infinite(c),
        }
    }

    fn include(&self, fr: &Frame, target: usize, nm: &Naming, out: &mut String, stack: &mut Vec<Frame>) -> Result<(), Stop> {
        // like a top-level render, an include starts from the body of the root ancestor of the
        // included template (since b2aa72a; before, it ran the included template's own top-level
        // chunk), on behalf of that template, with a fresh block state and the same component depth
        let root = *self.parents[target].last().unwrap_or(&target);
        self.exec(Frame { vm: target, chunk: Chunk::Body(root), depth: fr.depth }, nm, out, stack)
    }

    fn call(&self, fr: &Frame, owner: usize, k: usize, nm: &Naming, out: &mut String, stack: &mut Vec<Frame>) -> Result<(), Stop> {
        if fr.depth + 1 > MAX_COMPONENT_DEPTH {
            return Err(Stop::Err("component-depth"));
        }
        self.exec(Frame { vm: fr.vm, chunk: Chunk::Comp(owner, k), depth: fr.depth + 1 }, nm, out, stack)
    }

    fn comp_calls(&self, fr: &Frame, owner: usize, nm: &Naming, out: &mut String, stack: &mut Vec<Frame>) -> Result<(), Stop> {
        let mut k = 0;
        for (_, pl) in &self.incl[owner] {
            if *pl == Place::Comp {
                self.call(fr, owner, k, nm, out, stack)?;
                k += 1;
            }
        }
        Ok(())
    }

    fn exec(&self, fr: Frame, nm: &Naming, out: &mut String, stack: &mut Vec<Frame>) -> Result<(), Stop> {
        if stack.contains(&fr) {
            // templates have no data-dependent control flow: a repeated frame repeats forever
            let mut c = stack.clone();
            c.push(fr);
            return Err(Stop::Infinite(c));
        }
        stack.push(fr);
        match fr.chunk {
            Chunk::Body(i) => {
                out.push_str(&nm.marker[i]);
                out.push('<');
                for (tg, pl) in &self.incl[i] {
                    if *pl == Place::Top {
                        self.include(&fr, *tg, nm, out, stack)?;
                    }
                }
                if self.g[i].mode == Mode::Absent {
                    self.comp_calls(&fr, i, nm, out, stack)?;
                } else {
                    if self.lineage[fr.vm].is_empty() {
                        return Err(Stop::Err("no-lineage"));
                    }
                    self.exec(Frame { vm: fr.vm, chunk: Chunk::Block(0), depth: fr.depth }, nm, out, stack)?;
                }
                out.push('>');
            }
            Chunk::Block(level) => {
                let owner = self.lineage[fr.vm][level];
                out.push_str(&nm.marker[owner]);
                out.push('(');
                if self.g[owner].mode == Mode::Super {
                    if level + 1 >= self.lineage[fr.vm].len() {
                        return Err(Stop::Err("super-in-top-block"));
                    }
                    self.exec(Frame { vm: fr.vm, chunk: Chunk::Block(level + 1), depth: fr.depth }, nm, out, stack)?;
                }
                for (tg, pl) in &self.incl[owner] {
                    if *pl == Place::Block {
                        self.include(&fr, *tg, nm, out, stack)?;
                    }
                }
                self.comp_calls(&fr, owner, nm, out, stack)?;
                out.push(')');
            }
            Chunk::Comp(owner, k) => {
                out.push_str(&nm.marker[owner]);
                out.push('[');
                let tg = self.incl[owner]
                    .iter()
                    .filter(|(_, pl)| *pl == Place::Comp)
                    .nth(k)
                    .expect("component index")
                    .0;
                self.include(&fr, tg, nm, out, stack)?;
                out.push(']');
            }
        }
        stack.pop();
        Ok(())
    }

    pub fn frame_text(&self, fr: &Frame, nm: &Naming) -> String {
        let what = match fr.chunk {
            Chunk::Body(i) => format!("top level of `{}`", nm.names[i]),
            Chunk::Block(l) => {
                let owner = self.lineage[fr.vm][l];
                if l == 0 {
                    format!("block b of `{}`", nm.names[owner])
                } else {
                    format!("block b of ancestor `{}` (super() level {l})", nm.names[owner])
                }
            }
            Chunk::Comp(o, k) => format!("component {} of `{}`", comp_name(o, k), nm.names[o]),
        };
        format!("{what} [on behalf of `{}`, component depth {}]", nm.names[fr.vm], fr.depth)
    }

    /// Shape class of an unbounded recursion, from the repeated part of the simulated stack.
    pub fn cycle_class(&self, frames: &[Frame]) -> &'static str {
        let last = frames[frames.len() - 1];
        let start = frames.iter().position(|f| *f == last).unwrap_or(0);
        let cyc = &frames[start..];
        let through_super = cyc.iter().any(|f| matches!(f.chunk, Chunk::Block(l) if l > 0));
        let through_comp = cyc.iter().any(|f| matches!(f.chunk, Chunk::Comp(..)));
        match (through_super, through_comp) {
            (true, false) => "cycle-through-ancestor-block-super",
            (true, true) => "cycle-through-ancestor-block-super-and-component",
            (false, false) => "cycle-through-own-includes",
            (false, true) => "cycle-through-own-includes-and-component",
        }
    }
}

/// Simulates `render` of every template; `None` when the graph is not simulable.
pub fn simulate_all(g: &[&Tpl], nm: &Naming, f: &Facts) -> Option<Vec<Sim>> {
    if !f.simulable() {
        return None;
    }
    let m = Model::new(g, nm);
    Some((0..g.len()).map(|t| m.render(t, nm)).collect())
}
