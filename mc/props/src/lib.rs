//! Generators and reference models shared between several checks. One module per owner:
//! a module is only edited by the check that owns it (named in its header); other checks use it
//! read-only.

pub mod gen_expr; // owner: C02 — expression AST, printers, reference evaluator
pub mod gen_stmt; // owner: C03 — statement AST, printer, reference interpreter
pub mod gen_inherit; // owner: C04 — inheritance chains and reference resolution
pub mod gen_comp; // owner: C05 — component signatures / calls and binding table
