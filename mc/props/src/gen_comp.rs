//! (empty for now)
