//! sched — C18 part 4: concurrent renders on ONE shared `Tera` under a controlled scheduler.
//!
//! The subject calls `tera::verif::yield_point(kind)` before every instruction dispatch (0),
//! between "format into the escape scratch buffer" and "escape it" (1) and before every
//! output / capture write (2). This binary installs a process-wide hook that turns those calls
//! into `shuttle::thread::yield_now()` while a harness runs, and lets shuttle's depth-first
//! scheduler execute EVERY interleaving of the threads at that granularity. Each thread's bytes
//! must equal what the same call produced sequentially.
//!
//! A harness = N thread actions on one `Arc<Tera>` + a kind mask (which hook kinds are scheduling
//! points) + a per-thread window `[start, start+cap)` of the matching hook calls that yield (the
//! rest of the render runs without scheduling points). The window bounds the number of
//! interleavings: 2 threads x 7 yields = C(16,8) = 12 870 schedules.
//!
//! Scheduler = shuttle's `DfsScheduler`, wrapped to (a) prune choices that only reorder harness
//! bookkeeping (the main task is always run first when runnable: it only spawns and joins; a
//! thread that has finished its render is run to its exit at once), which keeps every
//! interleaving of the renders and drops ~4x..300x redundant schedules, and (b) record the choices
//! so that a failing schedule can be printed in shuttle's own replay format.
//!
//! Commands (one JSON line per harness on stdout):
//!   sched --list                      every harness with its tier
//!   sched --run <name>                explore one harness
//!   sched --replay <name> <schedule>  re-execute one schedule with shuttle's ReplayScheduler
//!   sched --selftest                  scheduler machinery checks (branching, pruning, replay encoding)
//!   sched --profile                   hook points per action (for choosing caps)

use mccore::engine::{self, Out};
use serde_json::{Value as Json, json};
use shuttle::scheduler::{DfsScheduler, ReplayScheduler, Schedule, Scheduler, Task, TaskId};
use std::cell::RefCell;
use std::collections::HashSet;
use std::sync::Arc;
use tera::{Context, Tera};

/// This binary must keep compiling when a change in the subject removes `Send`/`Sync` from one of
/// its types (that verdict belongs to the `ssprobe` crate). shuttle runs every task of an execution
/// on the OS thread that called `Runner::run`, so nothing is really sent anywhere.
struct Trust<T>(T);
unsafe impl<T> Send for Trust<T> {}
unsafe impl<T> Sync for Trust<T> {}
impl<T> std::ops::Deref for Trust<T> {
    type Target = T;
    fn deref(&self) -> &T {
        &self.0
    }
}

const MAX_TASKS: usize = 8;
const STACK: usize = 4 << 20;

// ------------------------------------------------------------------------------------------
// per-process exploration state. shuttle runs every task of an execution as a coroutine on the
// OS thread that called `Runner::run`, so a std thread-local is shared by all of them and by the
// scheduler.

#[derive(Default)]
struct Exec {
    /// inside a shuttle execution: hook calls may yield
    active: bool,
    mask: u8,
    cap: usize,
    start: Vec<usize>,
    /// hook calls per kind since the last reset (all modes)
    kind_counts: [u64; 3],
    /// matching hook calls seen per task
    seen: [usize; MAX_TASKS],
    /// yields taken per task
    taken: [usize; MAX_TASKS],
    /// task ids in the order in which they arrived at a yield point
    order: Vec<u8>,
    /// task ids in the order in which their segments started
    seg_order: Vec<u8>,
    /// tasks that finished their action
    done: [bool; MAX_TASKS],
    results: Vec<Option<Out>>,
    bad_task_ids: bool,
    /// scheduler choices of the current execution
    steps: Vec<usize>,
    seed: u64,
    stop: bool,
    /// (seed, scheduler choices, yield order) of the last execution that ran to its end
    last_complete: Option<(u64, Vec<usize>, Vec<u8>)>,
}

thread_local! {
    static EXEC: RefCell<Exec> = RefCell::new(Exec::default());
}

fn with_exec<R>(f: impl FnOnce(&mut Exec) -> R) -> R {
    EXEC.with(|e| f(&mut e.borrow_mut()))
}

fn hook(kind: u8) {
    let me = with_exec(|e| {
        e.kind_counts[(kind as usize).min(2)] += 1;
        if !e.active || e.mask & (1 << kind) == 0 {
            return None;
        }
        let me: usize = shuttle::current::me().into();
        if me == 0 || me >= MAX_TASKS {
            return None;
        }
        let n = e.seen[me];
        e.seen[me] += 1;
        let start = e.start.get(me - 1).copied().unwrap_or(0);
        if n < start || n >= start + e.cap {
            return None;
        }
        e.taken[me] += 1;
        e.order.push(me as u8);
        Some(me)
    });
    if let Some(me) = me {
        shuttle::thread::yield_now();
        with_exec(|e| e.seg_order.push(me as u8));
    }
}

// ------------------------------------------------------------------------------------------
// scheduler wrapper

struct Pruned {
    inner: DfsScheduler,
    prune: bool,
}

impl Scheduler for Pruned {
    fn new_execution(&mut self) -> Option<Schedule> {
        // the previous execution is over: its list of choices is complete now
        let stop = with_exec(|e| {
            if !e.steps.is_empty() {
                e.last_complete = Some((e.seed, std::mem::take(&mut e.steps), e.order.clone()));
            }
            e.stop
        });
        if stop {
            return None;
        }
        let s = self.inner.new_execution()?;
        with_exec(|e| {
            e.steps.clear();
            e.seed = s.seed;
        });
        Some(s)
    }

    fn next_task(&mut self, runnable: &[&Task], current: Option<TaskId>, is_yielding: bool) -> Option<TaskId> {
        let mut filtered: Vec<&Task> = runnable.to_vec();
        if self.prune && runnable.len() > 1 {
            let done = with_exec(|e| e.done);
            if let Some(t) = runnable.iter().find(|t| usize::from(t.id()) == 0) {
                filtered = vec![*t];
            } else if let Some(t) = runnable.iter().find(|t| {
                let id = usize::from(t.id());
                id < MAX_TASKS && done[id]
            }) {
                filtered = vec![*t];
            }
        }
        let c = self.inner.next_task(&filtered, current, is_yielding)?;
        with_exec(|e| e.steps.push(usize::from(c)));
        Some(c)
    }

    fn next_u64(&mut self) -> u64 {
        self.inner.next_u64()
    }
}

/// shuttle's schedule serialization (shuttle-engine `scheduler::serialization`, format v2):
/// magic 0x91, varint(task id bit width), varint(number of steps), varint(seed), then per step a
/// 0 bit followed by the task id, least significant bit first, packed LSB-first into bytes; hex.
fn encode_schedule(seed: u64, steps: &[usize]) -> String {
    fn varint(buf: &mut Vec<u8>, mut v: u64) {
        loop {
            let cur = (v & 0x7f) as u8;
            v >>= 7;
            if v == 0 {
                buf.push(cur);
                return;
            }
            buf.push(cur | 0x80);
        }
    }
    let max = steps.iter().copied().max().unwrap_or(0);
    let bits = ((usize::BITS - max.leading_zeros()) as usize).max(1);
    let mut buf = vec![0x91u8];
    varint(&mut buf, bits as u64);
    varint(&mut buf, steps.len() as u64);
    varint(&mut buf, seed);
    let nbits = steps.len() * (1 + bits);
    let mut packed = vec![0u8; nbits.div_ceil(8)];
    let mut off = 0usize;
    for &s in steps {
        off += 1; // the 0 bit: "task id follows"
        for b in 0..bits {
            if (s >> b) & 1 == 1 {
                packed[off / 8] |= 1 << (off % 8);
            }
            off += 1;
        }
    }
    buf.extend(packed);
    buf.iter().map(|b| format!("{b:02x}")).collect()
}

// ------------------------------------------------------------------------------------------
// the shared instance, the contexts and the actions

const TEMPLATES: &[(&str, &str)] = &[
    // escape scratch buffer (autoescape is on for .html)
    ("esc.html", "{{ a }}{{ b }}"),
    ("esc3.html", "{{ a }}|{{ o.k }}|{{ b }}"),
    // capture stack: set block, filter section, nested
    ("cap.html", "{% set x %}{{ a }}!{% endset %}{{ x }}"),
    ("capf.html", "{% filter upper %}{{ b }}{% filter trim %} {{ a }} {% endfilter %}{% endfilter %}"),
    // loop stack
    ("loop.html", "{% for i in xs %}{{ i }}{% endfor %}"),
    ("loop2.html", "{% for i in xs %}{% for j in xs %}{{ loop.index }}{{ j }}{% endfor %}{% else %}none{% endfor %}"),
    // component sub-VM (inline and with body)
    (
        "comp.html",
        "{% component pill(label) %}<i>{{ label }}</i>{% endcomponent pill %}{% component box(t = \"x\") %}[{{ t }}:{{ body }}]{% endcomponent box %}{{ <pill label={a} /> }}",
    ),
    ("compb.html", "{% <box t={b}> %}{{ a }}{% </box> %}"),
    // include (fresh sub-state that points at the parent state)
    ("inc.html", "[{% include \"esc.html\" %}]"),
    ("incset.html", "{% set a = b %}{% include \"esc.html\" %}"),
    // inheritance and super()
    ("base.html", "<{% block c %}{{ a }}{% endblock %}>"),
    ("child.html", "{% extends \"base.html\" %}{% block c %}({{ super() }}){% endblock %}"),
    ("grand.html", "{% extends \"child.html\" %}{% block c %}{{ b }}{{ super() }}{% endblock %}"),
    // `{}` literal -> the lazily initialised EMPTY_MAP static; shared Arc values of the context
    ("map.html", "{% set m = {} %}{{ m }}{{ {} | length }}{{ o }}"),
    ("arc.html", "{{ xs }}{{ [...xs, a] }}{{ {...o, \"z\": b} }}"),
    // unescaped writes
    ("plain.txt", "{{ a }}-{{ b }}-{{ xs }}"),
    // tera-contrib's regex_replace keeps a cache of compiled patterns behind a lock: the same
    // pattern with a literal replacement and with one that uses groups
    ("rxmask.html", "{{ email | regex_replace(pattern=pat, rep=\"<hidden>\") }}"),
    ("rxswap.html", "{{ email | regex_replace(pattern=pat, rep=\"$2 at $1\") }}{{ email is matching(pat=pat) }}"),
    // the seeded variants of tera-contrib's random helpers are reproducible by documentation
    ("rand.html", "{{ get_random(start=0, end=1000000, seed=\"s\") }}|{{ xs | shuffle(seed=\"s\") }}|{{ get_random(start=0, end=1000000, seed=a) }}"),
];

fn build_tera() -> Tera {
    let mut t = Tera::default();
    t.register_filter("regex_replace", tera_contrib::regex::RegexReplace::default());
    t.register_test("matching", tera_contrib::regex::Matching::default());
    t.register_function("get_random", tera_contrib::rand::get_random);
    t.register_filter("shuffle", tera_contrib::rand::shuffle);
    t.add_raw_templates(TEMPLATES.iter().copied()).expect("harness templates must load");
    t
}

fn contexts() -> Vec<Context> {
    let mut out = vec![];
    for (a, b, xs, k) in [
        ("<A&A>", "'AAAA'", vec![1i64, 2], "\"ka\""),
        ("<b>", "&", vec![7i64], "kb<"),
        ("CCCCCC<", ">c", vec![30i64, 40, 50], ""),
    ] {
        let mut c = Context::new();
        c.insert("a", a);
        c.insert("b", b);
        c.insert("xs", &xs);
        let mut m = std::collections::BTreeMap::new();
        m.insert("k", k);
        c.insert("o", &m);
        c.insert("email", "bob@example");
        c.insert("pat", r"(\w+)@(\w+)");
        out.push(c);
    }
    out
}

#[derive(Clone, Debug)]
enum Api {
    Render(&'static str),
    RenderTo(&'static str),
    Block(&'static str, &'static str),
    Str(&'static str, bool),
    Component(&'static str, Option<&'static str>, bool),
}

#[derive(Clone, Debug)]
struct Action {
    api: Api,
    ctx: usize,
}

impl Action {
    fn show(&self) -> String {
        let src = |n: &str| TEMPLATES.iter().find(|t| t.0 == n).map(|t| t.1).unwrap_or("");
        match &self.api {
            Api::Render(n) => format!("render({n:?} = {:?}, ctx{})", src(n), self.ctx),
            Api::RenderTo(n) => format!("render_to({n:?} = {:?}, ctx{})", src(n), self.ctx),
            Api::Block(n, b) => format!("render_block({n:?} = {:?}, {b:?}, ctx{})", src(n), self.ctx),
            Api::Str(s, ae) => format!("render_str({s:?}, ctx{}, autoescape={ae})", self.ctx),
            Api::Component(c, body, ae) => {
                format!("render_component({c:?}, ctx{}, body={body:?}, autoescape={ae})", self.ctx)
            }
        }
    }
}

fn perform(tera: &Tera, ctxs: &[Context], a: &Action) -> Out {
    let ctx = &ctxs[a.ctx];
    match &a.api {
        Api::Render(n) => engine::to_out(engine::guarded(|| tera.render(n, ctx))),
        Api::RenderTo(n) => engine::to_out(engine::guarded(|| {
            let mut buf = Vec::new();
            tera.render_to(n, ctx, &mut buf)?;
            Ok(String::from_utf8_lossy(&buf).into_owned())
        })),
        Api::Block(n, b) => engine::to_out(engine::guarded(|| tera.render_block(n, b, ctx))),
        Api::Str(s, ae) => engine::to_out(engine::guarded(|| tera.render_str(s, ctx, *ae))),
        Api::Component(c, body, ae) => {
            let mut cctx = Context::new();
            if *c == "pill" {
                cctx.insert_value("label", ctx.get("a").cloned().unwrap());
            } else {
                cctx.insert_value("t", ctx.get("b").cloned().unwrap());
            }
            engine::to_out(engine::guarded(|| tera.render_component(c, &cctx, *body, *ae)))
        }
    }
}

struct Spec {
    name: String,
    tier: &'static str,
    resource: &'static str,
    threads: Vec<Action>,
    mask: u8,
    cap: usize,
    start: Vec<usize>,
}

fn act(api: Api, ctx: usize) -> Action {
    Action { api, ctx }
}

/// (label, resource touched, actions)
fn groups() -> Vec<(&'static str, &'static str, Vec<Action>)> {
    use Api::*;
    vec![
        ("esc-same", "escape scratch buffer; the same template on both threads", vec![act(Render("esc.html"), 0), act(Render("esc.html"), 1)]),
        ("esc-mixed", "escape scratch buffer vs attribute path and text writes", vec![act(Render("esc3.html"), 0), act(RenderTo("esc.html"), 2)]),
        ("capture", "capture stack (set block) vs nested filter sections", vec![act(Render("cap.html"), 0), act(Render("capf.html"), 1)]),
        ("capture-same", "capture stack, same template", vec![act(Render("cap.html"), 1), act(Render("cap.html"), 2)]),
        ("loop", "loop stack and loop locals", vec![act(Render("loop.html"), 0), act(Render("loop.html"), 1)]),
        ("loop-nested", "nested loop stack vs single loop", vec![act(Render("loop2.html"), 1), act(Render("loop.html"), 2)]),
        ("component", "component sub-VM, inline and with body", vec![act(Render("comp.html"), 0), act(Render("compb.html"), 1)]),
        ("component-api", "render_component (own state) vs inline component of the same definition", vec![act(Component("pill", None, true), 1), act(Render("comp.html"), 0)]),
        ("include", "include sub-state", vec![act(Render("inc.html"), 0), act(Render("incset.html"), 1)]),
        ("super", "block lineage and super() nested interpreter", vec![act(Render("child.html"), 0), act(Render("grand.html"), 1)]),
        ("block-api", "render_block (block buffer) vs full render of the same child", vec![act(Block("child.html", "c"), 1), act(Render("child.html"), 0)]),
        ("empty-map", "`{}` literal -> EMPTY_MAP static, shared context Arcs", vec![act(Render("map.html"), 0), act(Render("map.html"), 1)]),
        ("arc-spread", "spread of shared Arc<Vec>/Arc<Map> context values (Arc::make_mut paths)", vec![act(Render("arc.html"), 0), act(Render("arc.html"), 0)]),
        ("one-off", "render_str compiles a template at run time on the shared instance", vec![act(Str("{{ a | upper }}{{ b }}", true), 0), act(Render("esc.html"), 1)]),
        ("same-ctx", "same template AND same context object on both threads", vec![act(Render("esc3.html"), 0), act(Render("esc3.html"), 0)]),
        ("plain", "unescaped writes of shared values", vec![act(Render("plain.txt"), 0), act(RenderTo("plain.txt"), 2)]),
        ("regex-cache", "tera-contrib regex_replace / matching caches: one pattern, literal replacement vs groups", vec![act(Render("rxmask.html"), 0), act(Render("rxswap.html"), 1)]),
        ("seeded-random", "tera-contrib get_random / shuffle with a seed: same seed on both threads", vec![act(Render("rand.html"), 0), act(Render("rand.html"), 1)]),
        // three threads
        ("3-esc", "escape scratch buffer, three threads", vec![act(Render("esc.html"), 0), act(Render("esc.html"), 1), act(Render("esc.html"), 2)]),
        ("3-mixed", "capture + loop + escape", vec![act(Render("cap.html"), 0), act(Render("loop.html"), 1), act(Render("esc3.html"), 2)]),
        ("3-sub", "component + include + super()", vec![act(Render("comp.html"), 0), act(Render("inc.html"), 1), act(Render("child.html"), 2)]),
    ]
}

const MASK_ALL: u8 = 0b111;
const MASK_IO: u8 = 0b110; // escape window + writes

fn mask_name(m: u8) -> &'static str {
    match m {
        MASK_ALL => "all",
        MASK_IO => "esc+write",
        _ => "?",
    }
}

/// Sequential profile of an action: (result, matching hook calls per kind).
fn profile(tera: &Tera, ctxs: &[Context], a: &Action) -> (Out, [u64; 3]) {
    with_exec(|e| {
        e.active = false;
        e.kind_counts = [0; 3];
    });
    let out = perform(tera, ctxs, a);
    (out, with_exec(|e| e.kind_counts))
}

fn points(counts: &[u64; 3], mask: u8) -> usize {
    (0..3).filter(|k| mask & (1 << k) != 0).map(|k| counts[k] as usize).sum()
}

fn specs() -> Vec<Spec> {
    let tera = build_tera();
    let ctxs = contexts();
    let mut out = vec![];
    for (label, resource, threads) in groups() {
        let n = threads.len();
        let counts: Vec<[u64; 3]> = threads.iter().map(|a| profile(&tera, &ctxs, a).1).collect();
        for mask in [MASK_IO, MASK_ALL] {
            let pts: Vec<usize> = counts.iter().map(|c| points(c, mask)).collect();
            let (qcap, tcap) = if n == 2 { (7, 10) } else { (3, 4) };
            let mut push = |tier: &'static str, cap: usize, start: Vec<usize>| {
                let name = format!(
                    "{label}/{}/{}x{}/w{}",
                    mask_name(mask),
                    n,
                    cap,
                    start.iter().map(|s| s.to_string()).collect::<Vec<_>>().join("-")
                );
                out.push(Spec { name, tier, resource, threads: threads.clone(), mask, cap, start });
            };
            // window at the start of every render
            push("quick", qcap, vec![0; n]);
            // deeper window, only where it adds schedules
            if pts.iter().any(|&p| p > qcap) {
                push("thorough", tcap, vec![0; n]);
            }
            // sliding windows over the rest of the renders (stride = cap), every combination
            let wins: Vec<Vec<usize>> = pts
                .iter()
                .map(|&p| (0..p.max(1)).step_by(qcap).collect::<Vec<_>>())
                .collect();
            let total: usize = wins.iter().map(|w| w.len()).product();
            for idx in 1..total {
                let mut r = idx;
                let mut start = vec![];
                for w in &wins {
                    start.push(w[r % w.len()]);
                    r /= w.len();
                }
                push("thorough", qcap, start);
            }
        }
    }
    out
}

// ------------------------------------------------------------------------------------------
// exploration

#[derive(Default)]
struct Totals {
    schedules: u64,
    steps: u64,
    orders: HashSet<u128>,
    seg_orders: HashSet<u128>,
    yields_min: Vec<usize>,
    yields_max: Vec<usize>,
    failure: Option<Json>,
}

fn pack(order: &[u8]) -> u128 {
    // 3 bits per step behind a sentinel bit: exact for up to 42 steps
    let mut v: u128 = 1;
    for &t in order.iter().take(42) {
        v = (v << 3) | (t as u128 & 7);
    }
    v
}

fn order_string(order: &[u8]) -> String {
    order.iter().map(|t| char::from(b'0' + *t)).collect()
}

fn multinomial(ys: &[usize]) -> u128 {
    let mut r: u128 = 1;
    let mut n = 0u128;
    for &y in ys {
        for i in 1..=y as u128 {
            n += 1;
            r = r * n / i;
        }
    }
    r
}

fn config() -> shuttle::Config {
    let mut c = shuttle::Config::new();
    c.stack_size = STACK;
    c.failure_persistence = shuttle::FailurePersistence::None;
    c.silence_warnings = true;
    c
}

struct Prepared {
    tera: Arc<Trust<Tera>>,
    ctxs: Arc<Trust<Vec<Context>>>,
    threads: Arc<Vec<Action>>,
    expected: Arc<Vec<Out>>,
    counts: Vec<[u64; 3]>,
}

fn prepare(spec: &Spec) -> Prepared {
    let tera = Arc::new(Trust(build_tera()));
    let ctxs = Arc::new(Trust(contexts()));
    let mut expected = vec![];
    let mut counts = vec![];
    for a in &spec.threads {
        // the reference of every action comes from an instance of its own (nothing an earlier
        // action left behind can colour it); the yield counts from the shared one
        let fresh = build_tera();
        let (o, _) = profile(&fresh, &ctxs, a);
        let (_, c) = profile(&tera, &ctxs, a);
        expected.push(o);
        counts.push(c);
    }
    Prepared { tera, ctxs, threads: Arc::new(spec.threads.clone()), expected: Arc::new(expected), counts }
}

/// The body of one shuttle execution. Returns through the `EXEC` / `TOTALS` thread-locals.
fn execution_body(
    p: &Prepared,
    mask: u8,
    cap: usize,
    start: &[usize],
    totals: &Arc<std::sync::Mutex<Totals>>,
    track_segments: bool,
) {
    let n = p.threads.len();
    with_exec(|e| {
        e.active = true;
        e.mask = mask;
        e.cap = cap;
        e.start = start.to_vec();
        e.seen = [0; MAX_TASKS];
        e.taken = [0; MAX_TASKS];
        e.order.clear();
        e.seg_order.clear();
        e.done = [false; MAX_TASKS];
        e.results = vec![None; n];
        e.bad_task_ids = false;
    });
    let handles: Vec<_> = (0..n)
        .map(|i| {
            let tera = p.tera.clone();
            let ctxs = p.ctxs.clone();
            let threads = p.threads.clone();
            shuttle::thread::spawn(move || {
                let me: usize = shuttle::current::me().into();
                with_exec(|e| {
                    if me != i + 1 {
                        e.bad_task_ids = true;
                    }
                    e.seg_order.push(me as u8);
                });
                let out = perform(&tera, &ctxs, &threads[i]);
                with_exec(|e| {
                    e.results[i] = Some(out);
                    if me < MAX_TASKS {
                        e.done[me] = true;
                    }
                });
            })
        })
        .collect();
    for h in handles {
        let _ = h.join();
    }
    // judge
    let (results, order, seg_order, taken, bad) = with_exec(|e| {
        e.active = false;
        (
            std::mem::take(&mut e.results),
            e.order.clone(),
            e.seg_order.clone(),
            e.taken,
            e.bad_task_ids,
        )
    });
    let mut t = totals.lock().unwrap();
    t.schedules += 1;
    t.steps += order.len() as u64;
    t.orders.insert(pack(&order));
    if track_segments {
        t.seg_orders.insert(pack(&seg_order));
    }
    if t.yields_min.is_empty() {
        t.yields_min = taken[1..=n].to_vec();
        t.yields_max = taken[1..=n].to_vec();
    }
    for i in 0..n {
        t.yields_min[i] = t.yields_min[i].min(taken[i + 1]);
        t.yields_max[i] = t.yields_max[i].max(taken[i + 1]);
    }
    if t.failure.is_some() {
        return;
    }
    if bad {
        t.failure = Some(json!({"machinery": "shuttle task ids are not 1..=n in spawn order"}));
        with_exec(|e| e.stop = true);
        return;
    }
    for i in 0..n {
        let got = results[i].clone().unwrap_or(Out::Panic("thread produced no result".into()));
        // same bytes, or both errors of the same kind (messages may list names in HashMap order)
        let same = match (&got, &p.expected[i]) {
            (Out::Ok(x), Out::Ok(y)) => x == y,
            (Out::Err(k1, _), Out::Err(k2, _)) => k1 == k2,
            _ => false,
        };
        if !same {
            // the schedule string is added by `explore` once the execution is over and the list
            // of scheduler choices is complete
            t.failure = Some(json!({
                "thread": i,
                "action": p.threads[i].show(),
                "expected": p.expected[i].show(),
                "observed": got.show(),
                "class": if got.is_panic() { "panic" } else if got.is_err() { "err" } else { "bytes" },
                "yield_order": order_string(&order),
            }));
            with_exec(|e| e.stop = true);
            return;
        }
    }
}

fn explore(spec: &Spec, prune: bool) -> Json {
    let p = prepare(spec);
    let totals = Arc::new(std::sync::Mutex::new(Totals::default()));
    with_exec(|e| {
        e.stop = false;
        e.steps.clear();
        e.last_complete = None;
    });
    let pts: Vec<usize> = p.counts.iter().map(|c| points(c, spec.mask)).collect();
    let track_segments = spec.cap <= 8;
    let t0 = std::time::Instant::now();
    let res = {
        let totals = totals.clone();
        let (mask, cap, start) = (spec.mask, spec.cap, spec.start.clone());
        let p = Arc::new(p);
        let p2 = p.clone();
        let r = engine::guarded(move || {
            let runner = shuttle::Runner::new(Pruned { inner: DfsScheduler::new(None, false), prune }, config());
            runner.run(move || execution_body(&p2, mask, cap, &start, &totals, track_segments))
        });
        (r, p)
    };
    let (run_result, p) = res;
    with_exec(|e| e.active = false);
    let t = totals.lock().unwrap();
    let planned: Vec<usize> = pts
        .iter()
        .zip(&spec.start)
        .map(|(&p, &s)| p.saturating_sub(s).min(spec.cap))
        .collect();
    let covers = pts.iter().zip(&spec.start).all(|(&p, &s)| s == 0 && p <= spec.cap);
    let mut failure = t.failure.clone();
    if let Some(f) = failure.as_mut().and_then(|f| f.as_object_mut())
        && let Some((seed, steps, _)) = with_exec(|e| e.last_complete.clone())
    {
        f.insert("schedule".into(), json!(encode_schedule(seed, &steps)));
        f.insert("schedule_steps".into(), json!(steps.len()));
    }
    if let Err(panic) = &run_result
        && failure.is_none()
    {
        // a panic that unwound through shuttle itself: the choices made so far lead to it
        let (steps, seed) = with_exec(|e| (e.steps.clone(), e.seed));
        failure = Some(json!({
            "class": "scheduler-panic",
            "observed": format!("the exploration itself panicked: {panic}"),
            "schedule": encode_schedule(seed, &steps),
            "schedule_steps": steps.len(),
        }));
    }
    let stable = t.yields_min == t.yields_max;
    let orders_expected = if stable { multinomial(&t.yields_max) } else { 0 };
    json!({
        "name": spec.name,
        "tier": spec.tier,
        "resource": spec.resource,
        "threads": spec.threads.iter().map(|a| a.show()).collect::<Vec<_>>(),
        "sequential": p.expected.iter().map(|o| o.show()).collect::<Vec<_>>(),
        "mask": mask_name(spec.mask),
        "cap": spec.cap,
        "start": spec.start,
        "points": pts,
        "yields_planned": planned,
        "yields_taken": t.yields_max,
        "yields_stable": stable,
        "covers_whole_render": covers,
        "pruned": prune,
        "schedules": t.schedules,
        "orders": t.orders.len(),
        "orders_expected": orders_expected.to_string(),
        "segment_orders": if track_segments { json!(t.seg_orders.len()) } else { Json::Null },
        "steps": t.steps,
        "ok": failure.is_none(),
        "failure": failure,
        "ms": t0.elapsed().as_millis() as u64,
    })
}

fn replay(spec: &Spec, schedule: &str) -> Json {
    let p = Arc::new(prepare(spec));
    let totals = Arc::new(std::sync::Mutex::new(Totals::default()));
    with_exec(|e| e.stop = false);
    let res = {
        let totals = totals.clone();
        let (mask, cap, start) = (spec.mask, spec.cap, spec.start.clone());
        let p2 = p.clone();
        let schedule = schedule.to_string();
        engine::guarded(move || {
            // exactly what `shuttle::replay` does, with our stack size
            let runner = shuttle::Runner::new(ReplayScheduler::new_from_encoded(&schedule), config());
            runner.run(move || execution_body(&p2, mask, cap, &start, &totals, false))
        })
    };
    with_exec(|e| e.active = false);
    let t = totals.lock().unwrap();
    let failure = t.failure.clone();
    json!({
        "name": spec.name,
        "replay": true,
        "schedules": t.schedules,
        "ok": failure.is_none() && res.is_ok(),
        "failure": failure,
        "replay_error": res.err(),
    })
}

// ------------------------------------------------------------------------------------------
// self-test of the scheduler machinery

fn selftest() -> Json {
    let mut problems: Vec<String> = vec![];
    // (1) check_dfs branches at yield_now: 2 threads x 3 yields -> C(6,3) = 20 arrival orders
    let orders: Arc<std::sync::Mutex<HashSet<Vec<u8>>>> = Arc::new(std::sync::Mutex::new(HashSet::new()));
    let plain_schedules = {
        let orders = orders.clone();
        let runner = shuttle::Runner::new(DfsScheduler::new(None, false), config());
        runner.run(move || {
            with_exec(|e| e.order.clear());
            let hs: Vec<_> = (0..2)
                .map(|_| {
                    shuttle::thread::spawn(|| {
                        for _ in 0..3 {
                            let me: usize = shuttle::current::me().into();
                            with_exec(|e| e.order.push(me as u8));
                            shuttle::thread::yield_now();
                        }
                    })
                })
                .collect();
            for h in hs {
                h.join().unwrap();
            }
            let o = with_exec(|e| e.order.clone());
            orders.lock().unwrap().insert(o);
        })
    };
    let n_orders = orders.lock().unwrap().len();
    if n_orders != 20 {
        problems.push(format!("2 threads x 3 yields gave {n_orders} orders, expected 20"));
    }
    // (2) pruning keeps every interleaving: same set of orders with and without it on a real pair
    let small = Spec {
        name: "selftest/esc-same/all/2x3".into(),
        tier: "quick",
        resource: "",
        threads: groups()[0].2.clone(),
        mask: MASK_ALL,
        cap: 3,
        start: vec![0, 0],
    };
    let a = explore(&small, true);
    let b = explore(&small, false);
    if a["orders"] != b["orders"] || a["orders"].as_u64() != Some(20) {
        problems.push(format!("pruned orders {} vs unpruned {} (expected 20)", a["orders"], b["orders"]));
    }
    if a["segment_orders"] != b["segment_orders"] || a["segment_orders"].as_u64() != Some(70) {
        problems.push(format!(
            "pruned segment orders {} vs unpruned {} (expected C(8,4) = 70)",
            a["segment_orders"], b["segment_orders"]
        ));
    }
    if a["schedules"] != a["segment_orders"] {
        problems.push(format!("pruned DFS ran {} schedules for {} segment orders", a["schedules"], a["segment_orders"]));
    }
    if a["ok"] != json!(true) || b["ok"] != json!(true) {
        problems.push(format!("self-test pair failed: {} / {}", a["failure"], b["failure"]));
    }
    // (3) the schedule encoding is accepted by shuttle's ReplayScheduler and reproduces the order:
    // record the last schedule of a pruned run and replay it
    let recorded = {
        let p = Arc::new(prepare(&small));
        let totals = Arc::new(std::sync::Mutex::new(Totals::default()));
        with_exec(|e| {
            e.stop = false;
            e.steps.clear();
            e.last_complete = None;
        });
        let runner = shuttle::Runner::new(Pruned { inner: DfsScheduler::new(Some(37), false), prune: true }, config());
        runner.run(move || execution_body(&p, MASK_ALL, 3, &[0, 0], &totals, false));
        let (seed, steps, order) = with_exec(|e| e.last_complete.clone()).unwrap_or_default();
        (encode_schedule(seed, &steps), order)
    };
    let replayed_order = {
        let p = Arc::new(prepare(&small));
        let totals = Arc::new(std::sync::Mutex::new(Totals::default()));
        let seen: Arc<std::sync::Mutex<Vec<u8>>> = Arc::new(std::sync::Mutex::new(vec![]));
        let seen2 = seen.clone();
        let sched = recorded.0.clone();
        let r = engine::guarded(move || {
            let runner = shuttle::Runner::new(ReplayScheduler::new_from_encoded(&sched), config());
            runner.run(move || {
                execution_body(&p, MASK_ALL, 3, &[0, 0], &totals, false);
                *seen2.lock().unwrap() = with_exec(|e| e.order.clone());
            })
        });
        if let Err(e) = r {
            problems.push(format!("replay of an encoded schedule panicked: {e}"));
        }
        let g = seen.lock().unwrap().clone();
        g
    };
    if replayed_order != recorded.1 || recorded.1.len() != 6 {
        problems.push(format!(
            "replay of schedule {} observed order {} instead of {}",
            recorded.0,
            order_string(&replayed_order),
            order_string(&recorded.1)
        ));
    }
    json!({
        "name": "selftest",
        "ok": problems.is_empty(),
        "problems": problems,
        "plain_dfs_2x3_schedules": plain_schedules,
        "plain_dfs_2x3_orders": n_orders,
        "pruned_2x3": {"schedules": a["schedules"], "orders": a["orders"], "segment_orders": a["segment_orders"]},
        "unpruned_2x3": {"schedules": b["schedules"], "orders": b["orders"], "segment_orders": b["segment_orders"]},
        "replayed_schedule": recorded.0,
        "replayed_order": order_string(&replayed_order),
    })
}

fn main() {
    engine::init_silent_panics();
    if !tera::verif::set_yield_hook(hook) {
        eprintln!("MACHINERY: could not install the yield hook");
        std::process::exit(2);
    }
    let args: Vec<String> = std::env::args().collect();
    let cmd = args.get(1).map(|s| s.as_str()).unwrap_or("");
    match cmd {
        "--list" => {
            for s in specs() {
                println!(
                    "{}",
                    json!({
                        "name": s.name, "tier": s.tier, "resource": s.resource,
                        "threads": s.threads.iter().map(|a| a.show()).collect::<Vec<_>>(),
                        "mask": mask_name(s.mask), "cap": s.cap, "start": s.start,
                    })
                );
            }
        }
        "--run" | "--run-unpruned" | "--replay" => {
            let name = args.get(2).cloned().unwrap_or_default();
            let Some(spec) = specs().into_iter().find(|s| s.name == name) else {
                eprintln!("MACHINERY: no harness named {name:?}");
                std::process::exit(2);
            };
            let out = if cmd == "--replay" {
                replay(&spec, args.get(3).map(|s| s.as_str()).unwrap_or(""))
            } else {
                explore(&spec, cmd == "--run")
            };
            println!("{out}");
        }
        "--selftest" => println!("{}", selftest()),
        "--profile" => {
            let tera = build_tera();
            let ctxs = contexts();
            for (label, _, threads) in groups() {
                for a in &threads {
                    let (o, c) = profile(&tera, &ctxs, a);
                    println!("{label:<14} {:?} kinds(instr,esc,write)={:?} {}", o.show(), c, a.show());
                }
            }
        }
        _ => {
            eprintln!("usage: sched --list | --run <name> | --replay <name> <schedule> | --selftest | --profile");
            std::process::exit(2);
        }
    }
}
