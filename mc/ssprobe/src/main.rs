//! C18 probe: this crate compiles if and only if the engine, context, value, error and kwargs
//! types can be shared with and sent to other threads. Its failure to compile IS the verdict.
fn assert<T: Send + Sync>() {}
fn main() {
    assert::<tera::Tera>();
    assert::<tera::Context>();
    assert::<tera::Value>();
    assert::<tera::Error>();
    assert::<tera::Kwargs>();
    assert::<std::sync::Arc<tera::Tera>>();
}
