//! /verif/known_findings.json: committed, never written at run time.
//!
//! { "findings": [ { "id": "...", "property": "C06", "status": "known" | "fixed",
//!                   "signatures": ["exact-signature", "prefix*"], "description": "...",
//!                   "commit": "<sha, for fixed>" } ] }
//!
//! Only `status == "known"` entries suppress anything; `fixed` entries are documentation.

use serde_json::Value;
use std::path::Path;

pub struct Known {
    pub id: String,
    pub signatures: Vec<String>,
    pub description: String,
}

impl Known {
    pub fn matches(&self, sig: &str) -> bool {
        self.signatures.iter().any(|s| match s.strip_suffix('*') {
            Some(prefix) => sig.starts_with(prefix),
            None => s == sig,
        })
    }
}

pub fn load(root: &Path, prop: &str) -> Vec<Known> {
    let path = root.join("known_findings.json");
    let Ok(txt) = std::fs::read_to_string(&path) else {
        return vec![];
    };
    let v: Value = match serde_json::from_str(&txt) {
        Ok(v) => v,
        Err(e) => {
            eprintln!("MACHINERY: known_findings.json is not valid JSON: {e}");
            std::process::exit(crate::kernel::EXIT_MACHINERY);
        }
    };
    let mut out = vec![];
    for f in v["findings"].as_array().cloned().unwrap_or_default() {
        if f["property"].as_str() != Some(prop) || f["status"].as_str() != Some("known") {
            continue;
        }
        out.push(Known {
            id: f["id"].as_str().unwrap_or("?").to_string(),
            signatures: f["signatures"]
                .as_array()
                .map(|a| a.iter().filter_map(|s| s.as_str().map(String::from)).collect())
                .unwrap_or_default(),
            description: f["description"].as_str().unwrap_or("").to_string(),
        });
    }
    out
}
