//! Exact reference ordering of numbers across integer encodings and f64, written independently
//! of the engine (bit-level decomposition of the double, no float arithmetic, no casts through
//! f64): NaN equals NaN and sorts after every number.

use crate::vals::V;
use std::cmp::Ordering;

#[derive(Clone, Copy, Debug)]
pub enum Num {
    /// sign (true = negative) and magnitude; zero is (false, 0)
    Int(bool, u128),
    Float(f64),
}

pub fn num_of(v: &V) -> Option<Num> {
    Some(match v {
        V::I64(i) => Num::Int(*i < 0, i.unsigned_abs() as u128),
        V::U64(u) => Num::Int(false, *u as u128),
        V::I128(i) => Num::Int(*i < 0, i.unsigned_abs()),
        V::U128(u) => Num::Int(false, *u),
        V::F64(f) => Num::Float(*f),
        _ => return None,
    })
}

/// Position of a finite double relative to the integers: (negative, integer part of |f| if it
/// is below 2^128, has_fraction). `None` integer part means |f| >= 2^128.
fn decompose(f: f64) -> (bool, Option<u128>, bool) {
    let bits = f.to_bits();
    let neg = (bits >> 63) == 1;
    let exp_bits = ((bits >> 52) & 0x7ff) as i32;
    let frac = bits & ((1u64 << 52) - 1);
    let (mant, exp) = if exp_bits == 0 {
        (frac, -1074)
    } else {
        (frac | (1u64 << 52), exp_bits - 1075)
    };
    if mant == 0 {
        return (false, Some(0), false); // +-0
    }
    if exp >= 0 {
        let bl = 64 - mant.leading_zeros() as i32;
        if bl + exp > 128 {
            (neg, None, false)
        } else {
            (neg, Some((mant as u128) << exp), false)
        }
    } else {
        let sh = -exp;
        if sh >= 64 {
            (neg, Some(0), true)
        } else {
            let ip = mant >> sh;
            let fr = mant & ((1u64 << sh) - 1);
            (neg, Some(ip as u128), fr != 0)
        }
    }
}

fn cmp_int_float(neg: bool, mag: u128, f: f64) -> Ordering {
    if f.is_nan() {
        return Ordering::Less;
    }
    if f == f64::INFINITY {
        return Ordering::Less;
    }
    if f == f64::NEG_INFINITY {
        return Ordering::Greater;
    }
    let (fneg, ip, has_frac) = decompose(f);
    let f_is_zero = ip == Some(0) && !has_frac;
    let i_is_zero = mag == 0;
    // signs first
    let isign = if i_is_zero { 0 } else if neg { -1 } else { 1 };
    let fsign = if f_is_zero { 0 } else if fneg { -1 } else { 1 };
    if isign != fsign {
        return isign.cmp(&fsign);
    }
    if isign == 0 {
        return Ordering::Equal;
    }
    // same non-zero sign: compare magnitudes
    let mag_ord = match ip {
        None => Ordering::Less,
        Some(ip) => match mag.cmp(&ip) {
            Ordering::Equal if has_frac => Ordering::Less,
            o => o,
        },
    };
    if isign > 0 { mag_ord } else { mag_ord.reverse() }
}

pub fn cmp_exact(a: &Num, b: &Num) -> Ordering {
    match (a, b) {
        (Num::Int(an, am), Num::Int(bn, bm)) => {
            let asg = if *am == 0 { 0 } else if *an { -1 } else { 1 };
            let bsg = if *bm == 0 { 0 } else if *bn { -1 } else { 1 };
            if asg != bsg {
                return asg.cmp(&bsg);
            }
            if asg >= 0 { am.cmp(bm) } else { bm.cmp(am) }
        }
        (Num::Int(n, m), Num::Float(f)) => cmp_int_float(*n, *m, *f),
        (Num::Float(f), Num::Int(n, m)) => cmp_int_float(*n, *m, *f).reverse(),
        (Num::Float(x), Num::Float(y)) => match (x.is_nan(), y.is_nan()) {
            (true, true) => Ordering::Equal,
            (true, false) => Ordering::Greater,
            (false, true) => Ordering::Less,
            _ => x.partial_cmp(y).unwrap(),
        },
    }
}

#[cfg(test)]
mod tests {
    use super::*;
    #[test]
    fn basics() {
        let i = |x: i128| Num::Int(x < 0, x.unsigned_abs());
        assert_eq!(cmp_exact(&i(1), &Num::Float(1.0)), Ordering::Equal);
        assert_eq!(cmp_exact(&i(1), &Num::Float(1.5)), Ordering::Less);
        assert_eq!(cmp_exact(&i(-1), &Num::Float(-1.5)), Ordering::Greater);
        assert_eq!(cmp_exact(&i(0), &Num::Float(-0.0)), Ordering::Equal);
        assert_eq!(cmp_exact(&i((1 << 53) + 1), &Num::Float(9007199254740992.0)), Ordering::Greater);
        assert_eq!(cmp_exact(&i(i128::MAX), &Num::Float(1.7014118346046923e38)), Ordering::Less);
        assert_eq!(cmp_exact(&i(i128::MIN), &Num::Float(-1.7014118346046923e38)), Ordering::Equal);
        assert_eq!(cmp_exact(&Num::Int(false, u128::MAX), &Num::Float(3.402823669209385e38)), Ordering::Less);
        assert_eq!(cmp_exact(&i(1), &Num::Float(f64::NAN)), Ordering::Less);
        assert_eq!(cmp_exact(&i(0), &Num::Float(5e-324)), Ordering::Less);
        assert_eq!(cmp_exact(&i(0), &Num::Float(-5e-324)), Ordering::Greater);
    }
}
