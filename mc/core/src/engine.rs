//! Calling the subject safely: panics are caught and turned into observations.

use std::cell::RefCell;
use std::panic::{AssertUnwindSafe, catch_unwind};

thread_local! {
    static LAST_PANIC: RefCell<Option<String>> = const { RefCell::new(None) };
}

/// Installs a panic hook that prints nothing and remembers message + location per thread.
pub fn init_silent_panics() {
    std::panic::set_hook(Box::new(|info| {
        let msg = if let Some(s) = info.payload().downcast_ref::<&str>() {
            s.to_string()
        } else if let Some(s) = info.payload().downcast_ref::<String>() {
            s.clone()
        } else {
            "<non-string panic payload>".to_string()
        };
        let loc = info
            .location()
            .map(|l| format!(" at {}:{}", l.file(), l.line()))
            .unwrap_or_default();
        LAST_PANIC.with(|c| *c.borrow_mut() = Some(format!("{msg}{loc}")));
    }));
}

pub fn panic_message(p: Box<dyn std::any::Any + Send>) -> String {
    if let Some(m) = LAST_PANIC.with(|c| c.borrow_mut().take()) {
        return m;
    }
    if let Some(s) = p.downcast_ref::<&str>() {
        s.to_string()
    } else if let Some(s) = p.downcast_ref::<String>() {
        s.clone()
    } else {
        "<panic>".to_string()
    }
}

/// Runs `f`, turning a panic into `Err(message)`.
pub fn guarded<T>(f: impl FnOnce() -> T) -> Result<T, String> {
    catch_unwind(AssertUnwindSafe(f)).map_err(panic_message)
}

/// What one engine call produced.
#[derive(Clone, Debug, PartialEq, Eq)]
pub enum Out {
    Ok(String),
    /// (kind tag, display text)
    Err(String, String),
    Panic(String),
}

impl Out {
    pub fn is_ok(&self) -> bool {
        matches!(self, Out::Ok(_))
    }
    pub fn is_err(&self) -> bool {
        matches!(self, Out::Err(..))
    }
    pub fn is_panic(&self) -> bool {
        matches!(self, Out::Panic(_))
    }
    pub fn ok(&self) -> Option<&str> {
        match self {
            Out::Ok(s) => Some(s),
            _ => None,
        }
    }
    /// "ok" / "err" / "panic"
    pub fn class(&self) -> &'static str {
        match self {
            Out::Ok(_) => "ok",
            Out::Err(..) => "err",
            Out::Panic(_) => "panic",
        }
    }
    /// Ok text, or `Err` (message dropped), or the panic — what differential oracles compare.
    pub fn coarse(&self) -> String {
        match self {
            Out::Ok(s) => format!("Ok({s:?})"),
            Out::Err(k, _) => format!("Err[{k}]"),
            Out::Panic(m) => format!("PANIC({m})"),
        }
    }
    pub fn show(&self) -> String {
        match self {
            Out::Ok(s) => format!("Ok({s:?})"),
            Out::Err(k, m) => {
                let first: String = m.lines().next().unwrap_or("").chars().take(160).collect();
                format!("Err[{k}]({first})")
            }
            Out::Panic(m) => format!("PANIC({m})"),
        }
    }
}

pub fn kind_tag(k: &tera::ErrorKind) -> &'static str {
    use tera::ErrorKind::*;
    match k {
        Msg(_) => "Msg",
        SyntaxError(_) => "SyntaxError",
        RenderingError(_) => "RenderingError",
        CircularExtend { .. } => "CircularExtend",
        CircularInclude { .. } => "CircularInclude",
        MissingParent { .. } => "MissingParent",
        TemplateNotFound(_) => "TemplateNotFound",
        ComponentNotFound(_) => "ComponentNotFound",
        InvalidArgument { .. } => "InvalidArgument",
        MissingArgument { .. } => "MissingArgument",
        OutOfRangeArgument { .. } => "OutOfRangeArgument",
        Io(_) => "Io",
        Utf8Conversion => "Utf8Conversion",
        _ => "Other",
    }
}

/// The message of an error without the source excerpt (first line of a report).
pub fn err_message(e: &tera::Error) -> String {
    match e.kind() {
        tera::ErrorKind::SyntaxError(r) | tera::ErrorKind::RenderingError(r) => r.message().to_string(),
        _ => e.to_string(),
    }
}

pub fn to_out(r: Result<tera::TeraResult<String>, String>) -> Out {
    match r {
        Ok(Ok(s)) => Out::Ok(s),
        Ok(Err(e)) => Out::Err(kind_tag(e.kind()).to_string(), err_message(&e)),
        Err(p) => Out::Panic(p),
    }
}

pub fn to_out_unit(r: Result<tera::TeraResult<()>, String>) -> Out {
    match r {
        Ok(Ok(())) => Out::Ok(String::new()),
        Ok(Err(e)) => Out::Err(kind_tag(e.kind()).to_string(), err_message(&e)),
        Err(p) => Out::Panic(p),
    }
}

pub fn render_str(tera: &tera::Tera, src: &str, ctx: &tera::Context, autoescape: bool) -> Out {
    to_out(guarded(|| tera.render_str(src, ctx, autoescape)))
}

pub fn render(tera: &tera::Tera, name: &str, ctx: &tera::Context) -> Out {
    to_out(guarded(|| tera.render(name, ctx)))
}

pub fn render_block(tera: &tera::Tera, name: &str, block: &str, ctx: &tera::Context) -> Out {
    to_out(guarded(|| tera.render_block(name, block, ctx)))
}

pub fn add_templates(tera: &mut tera::Tera, tpls: &[(String, String)]) -> Out {
    to_out_unit(guarded(|| {
        tera.add_raw_templates(tpls.iter().map(|(a, b)| (a.as_str(), b.as_str())))
    }))
}
