//! Enumeration kernel: a property check is a list of *families*; a family is an indexable finite
//! space of work items `0..items`; every item is executed on the real engine inside a worker
//! child process (so that an abort, stack overflow or hang of the subject is observed, pinned to
//! the item in flight and reported instead of killing the check).
//!
//! Modes of one binary:
//!   * supervise (default): for every family spawn N workers, gather their accumulators,
//!     write the evidence file, print KNOWN-FINDING / VIOLATION lines, exit 0 / 1 / 2.
//!   * worker (`--worker <family> <k> <n> <from> <to> <careful>`): run items i in from..to with
//!     i % n == k of that family only, streaming checkpoints on stdout.
//!   * replay (`--replay <file>`): re-run the single item named in the replay file twice and
//!     compare the two observations.

use serde_json::{Value, json};
use std::collections::BTreeMap;
use std::io::{BufRead, BufReader, Write};
use std::path::PathBuf;
use std::process::{Command, Stdio};
use std::sync::mpsc;
use std::time::{Duration, Instant};

pub const EXIT_OK: i32 = 0;
pub const EXIT_VIOLATION: i32 = 1;
pub const EXIT_MACHINERY: i32 = 2;

#[derive(Clone, Copy, PartialEq, Eq, Debug)]
pub enum Tier {
    Quick,
    Thorough,
}

impl Tier {
    pub fn name(self) -> &'static str {
        match self {
            Tier::Quick => "quick",
            Tier::Thorough => "thorough",
        }
    }
    pub fn pick<T>(self, quick: T, thorough: T) -> T {
        match self {
            Tier::Quick => quick,
            Tier::Thorough => thorough,
        }
    }
    pub fn is_thorough(self) -> bool {
        self == Tier::Thorough
    }
}

#[derive(Clone, Debug)]
pub struct Violation {
    /// Stable, specific class id used to match entries of known_findings.json.
    pub signature: String,
    /// Expected vs observed, in words.
    pub message: String,
    /// The exact case: sources, context, configuration, history ...
    pub case: Value,
}

const MAX_VIOLATIONS_PER_CHUNK: usize = 40;
const MAX_SAMPLES_PER_CHUNK: usize = 4;
const MAX_CRASHES_PER_FAMILY: u64 = 48;

/// What a worker accumulates between two checkpoints.
#[derive(Default, Debug)]
pub struct Acc {
    pub evaluations: u64,
    pub nontrivial: u64,
    pub outcomes: BTreeMap<String, u64>,
    pub counters: BTreeMap<String, u64>,
    pub violations: Vec<Violation>,
    pub violation_count: u64,
    /// every violation counted by signature (not capped, unlike `violations`)
    pub signatures: BTreeMap<String, u64>,
    pub samples: Vec<Value>,
    sample_budget: usize,
}

impl Acc {
    fn new(sample_budget: usize) -> Self {
        Acc {
            sample_budget,
            ..Default::default()
        }
    }

    /// Records one executed case. `nontrivial` must follow the rule the check states in its
    /// evidence; cases are distinct by construction of the enumeration.
    #[inline]
    pub fn case(&mut self, nontrivial: bool, outcome: &str) {
        self.evaluations += 1;
        if self.evaluations & 0x3fff == 0 {
            heartbeat();
        }
        if nontrivial {
            self.nontrivial += 1;
        }
        if let Some(c) = self.outcomes.get_mut(outcome) {
            *c += 1;
        } else {
            self.outcomes.insert(outcome.to_string(), 1);
        }
    }

    #[inline]
    pub fn count(&mut self, name: &str, n: u64) {
        if let Some(c) = self.counters.get_mut(name) {
            *c += n;
        } else {
            self.counters.insert(name.to_string(), n);
        }
    }

    pub fn violation(
        &mut self,
        signature: impl Into<String>,
        message: impl Into<String>,
        case: impl FnOnce() -> Value,
    ) {
        self.violation_count += 1;
        let signature = signature.into();
        *self.signatures.entry(signature.clone()).or_insert(0) += 1;
        // keep at most a few per signature so that one noisy class cannot hide another
        let same = self
            .violations
            .iter()
            .filter(|v| v.signature == signature)
            .count();
        if self.violations.len() < MAX_VIOLATIONS_PER_CHUNK && same < 3 {
            self.violations.push(Violation {
                signature,
                message: message.into(),
                case: case(),
            });
        }
    }

    #[inline]
    pub fn wants_sample(&self) -> bool {
        self.samples.len() < self.sample_budget
    }

    pub fn sample(&mut self, f: impl FnOnce() -> Value) {
        if self.wants_sample() {
            self.samples.push(f());
        }
    }

    fn to_json(&self) -> Value {
        json!({
            "e": self.evaluations,
            "n": self.nontrivial,
            "o": self.outcomes,
            "c": self.counters,
            "vc": self.violation_count,
            "vs": self.signatures,
            "v": self.violations.iter().map(|v| json!({"s": v.signature, "m": v.message, "c": v.case})).collect::<Vec<_>>(),
            "s": self.samples,
        })
    }

    fn merge_json(&mut self, v: &Value) {
        self.evaluations += v["e"].as_u64().unwrap_or(0);
        self.nontrivial += v["n"].as_u64().unwrap_or(0);
        if let Some(o) = v["o"].as_object() {
            for (k, c) in o {
                *self.outcomes.entry(k.clone()).or_insert(0) += c.as_u64().unwrap_or(0);
            }
        }
        if let Some(o) = v["c"].as_object() {
            for (k, c) in o {
                *self.counters.entry(k.clone()).or_insert(0) += c.as_u64().unwrap_or(0);
            }
        }
        self.violation_count += v["vc"].as_u64().unwrap_or(0);
        if let Some(o) = v["vs"].as_object() {
            for (k, c) in o {
                *self.signatures.entry(k.clone()).or_insert(0) += c.as_u64().unwrap_or(0);
            }
        }
        if let Some(vs) = v["v"].as_array() {
            for x in vs {
                let sig = x["s"].as_str().unwrap_or("").to_string();
                let same = self.violations.iter().filter(|v| v.signature == sig).count();
                if self.violations.len() < 400 && same < 5 {
                    let case = x["c"].clone();
                    self.violations.push(Violation {
                        signature: sig,
                        message: x["m"].as_str().unwrap_or("").to_string(),
                        case,
                    });
                }
            }
        }
        if let Some(ss) = v["s"].as_array() {
            for s in ss {
                if self.samples.len() < 12 {
                    self.samples.push(s.clone());
                }
            }
        }
    }
}

pub struct Family<'a> {
    pub name: String,
    /// Number of work items.
    pub items: u64,
    /// Words describing the bound this family completes when it runs to the end.
    pub bounds: String,
    /// Seconds without any checkpoint from a worker before it is declared hung.
    pub item_timeout_s: f64,
    /// Wall-clock budget for the whole family (None = run to completion).
    pub budget_s: Option<f64>,
    /// Stack size of the thread that runs the subject in each worker.
    pub stack_mb: usize,
    /// How many workers (default: available cores).
    pub workers: Option<usize>,
    /// Optional description of an item, used for crash / hang reports.
    pub describe: Option<Box<dyn Fn(u64) -> Value + Sync + 'a>>,
    /// Optional signature for a crash / hang of an item.
    pub crash_signature: Option<Box<dyn Fn(u64, &str) -> String + Sync + 'a>>,
}

impl<'a> Family<'a> {
    pub fn new(name: &str, items: u64, bounds: &str) -> Self {
        Family {
            name: name.to_string(),
            items,
            bounds: bounds.to_string(),
            item_timeout_s: 30.0,
            budget_s: None,
            stack_mb: 8,
            workers: None,
            describe: None,
            crash_signature: None,
        }
    }
    pub fn describe(mut self, f: impl Fn(u64) -> Value + Sync + 'a) -> Self {
        self.describe = Some(Box::new(f));
        self
    }
    pub fn crash_signature(mut self, f: impl Fn(u64, &str) -> String + Sync + 'a) -> Self {
        self.crash_signature = Some(Box::new(f));
        self
    }
    pub fn timeout(mut self, s: f64) -> Self {
        self.item_timeout_s = s;
        self
    }
    pub fn budget(mut self, s: f64) -> Self {
        self.budget_s = Some(s);
        self
    }
    pub fn stack_mb(mut self, mb: usize) -> Self {
        self.stack_mb = mb;
        self
    }
    pub fn workers(mut self, n: usize) -> Self {
        self.workers = Some(n);
        self
    }
}

#[derive(Debug)]
struct FamilyReport {
    name: String,
    items: u64,
    items_completed: u64,
    bounds: String,
    completed: bool,
    cap_hit: Option<String>,
    acc: Acc,
    wall_s: f64,
    workers: usize,
    crashes: u64,
}

enum Mode {
    Supervise,
    Worker {
        family: String,
        k: u64,
        n: u64,
        from: u64,
        to: u64,
        careful: bool,
    },
    Replay {
        file: PathBuf,
        data: Value,
    },
}

pub struct Run {
    pub prop: String,
    pub level: String,
    pub tier: Tier,
    pub seed: u64,
    mode: Mode,
    start: Instant,
    reports: Vec<FamilyReport>,
    rule: String,
    assumptions: Vec<String>,
    extra: BTreeMap<String, Value>,
    guards: Vec<(String, bool, String)>,
    root: PathBuf,
    exe: PathBuf,
    tier_arg: String,
    extra_violations: Vec<(String, Violation)>,
    extra_samples: Vec<Value>,
}

fn verif_root() -> PathBuf {
    if let Ok(r) = std::env::var("VERIF_ROOT") {
        return PathBuf::from(r);
    }
    let p = PathBuf::from(env!("CARGO_MANIFEST_DIR"));
    p.parent().unwrap().parent().unwrap().to_path_buf()
}

impl Run {
    /// Parses `argv`: `[quick|thorough] [--replay FILE] [--worker ...]`.
    pub fn from_env(prop: &str, level: &str) -> Run {
        crate::engine::init_silent_panics();
        let args: Vec<String> = std::env::args().collect();
        let mut tier = match std::env::var("VERIF_TIER").ok().as_deref() {
            Some("thorough") => Tier::Thorough,
            _ => Tier::Quick,
        };
        let mut mode = Mode::Supervise;
        let mut i = 1;
        while i < args.len() {
            match args[i].as_str() {
                "quick" => tier = Tier::Quick,
                "thorough" => tier = Tier::Thorough,
                "--worker" => {
                    mode = Mode::Worker {
                        family: args[i + 1].clone(),
                        k: args[i + 2].parse().unwrap(),
                        n: args[i + 3].parse().unwrap(),
                        from: args[i + 4].parse().unwrap(),
                        to: args[i + 5].parse().unwrap(),
                        careful: args[i + 6] == "1",
                    };
                    i += 6;
                }
                "--replay" => {
                    let file = PathBuf::from(&args[i + 1]);
                    let txt = std::fs::read_to_string(&file).unwrap_or_else(|e| {
                        eprintln!("MACHINERY: cannot read replay file {file:?}: {e}");
                        std::process::exit(EXIT_MACHINERY)
                    });
                    let data: Value = serde_json::from_str(&txt).unwrap_or_else(|e| {
                        eprintln!("MACHINERY: replay file is not JSON: {e}");
                        std::process::exit(EXIT_MACHINERY)
                    });
                    if let Some(t) = data["tier"].as_str() {
                        tier = if t == "thorough" {
                            Tier::Thorough
                        } else {
                            Tier::Quick
                        };
                    }
                    mode = Mode::Replay { file, data };
                    i += 1;
                }
                other => {
                    eprintln!("MACHINERY: unknown argument {other}");
                    std::process::exit(EXIT_MACHINERY);
                }
            }
            i += 1;
        }
        let seed = std::env::var("VERIF_SEED")
            .ok()
            .and_then(|s| s.parse().ok())
            .unwrap_or(0);
        Run {
            prop: prop.to_string(),
            level: level.to_string(),
            tier,
            seed,
            mode,
            start: Instant::now(),
            reports: vec![],
            rule: String::new(),
            assumptions: vec![],
            extra: BTreeMap::new(),
            guards: vec![],
            root: verif_root(),
            exe: std::env::current_exe().expect("current exe"),
            tier_arg: tier.name().to_string(),
            extra_violations: vec![],
            extra_samples: vec![],
        }
    }

    pub fn is_supervisor(&self) -> bool {
        matches!(self.mode, Mode::Supervise)
    }

    pub fn rule(&mut self, s: &str) {
        self.rule = s.to_string();
    }
    pub fn assume(&mut self, s: &str) {
        self.assumptions.push(s.to_string());
    }
    pub fn extra(&mut self, k: &str, v: Value) {
        self.extra.insert(k.to_string(), v);
    }
    /// A vacuity guard: a run whose guard fails is a machinery failure, never a pass.
    pub fn guard(&mut self, name: &str, ok: bool, detail: String) {
        self.guards.push((name.to_string(), ok, detail));
    }
    /// Sum of a named counter over all families run so far (supervisor only).
    pub fn counter(&self, name: &str) -> u64 {
        self.reports
            .iter()
            .map(|r| r.acc.counters.get(name).copied().unwrap_or(0))
            .sum()
    }
    pub fn outcome(&self, family: &str, outcome: &str) -> u64 {
        self.reports
            .iter()
            .filter(|r| r.name == family)
            .map(|r| r.acc.outcomes.get(outcome).copied().unwrap_or(0))
            .sum()
    }
    pub fn outcome_any(&self, outcome: &str) -> u64 {
        self.reports
            .iter()
            .map(|r| r.acc.outcomes.get(outcome).copied().unwrap_or(0))
            .sum()
    }
    pub fn evaluations(&self, family: &str) -> u64 {
        self.reports
            .iter()
            .filter(|r| r.name == family)
            .map(|r| r.acc.evaluations)
            .sum()
    }
    pub fn violations_so_far(&self) -> u64 {
        self.reports.iter().map(|r| r.acc.violation_count).sum::<u64>()
            + self.extra_violations.len() as u64
    }
    /// A violation established by the supervisor itself (e.g. a probe crate that must compile).
    pub fn direct_violation(&mut self, family: &str, v: Violation) {
        self.extra_violations.push((family.to_string(), v));
    }
    pub fn direct_sample(&mut self, v: Value) {
        self.extra_samples.push(v);
    }

    /// Declares and (depending on the mode) runs a family.
    pub fn family<F>(&mut self, fam: Family<'_>, f: F)
    where
        F: Fn(u64, &mut Acc) + Sync,
    {
        match &self.mode {
            Mode::Supervise => {
                let rep = self.supervise(&fam, 0, fam.items, None);
                self.reports.push(rep);
            }
            Mode::Worker {
                family,
                k,
                n,
                from,
                to,
                careful,
            } => {
                if *family == fam.name {
                    worker_loop(&fam, &f, *k, *n, *from, *to, *careful);
                    std::process::exit(0);
                }
            }
            Mode::Replay { data, .. } => {
                if data["family"].as_str() == Some(fam.name.as_str()) {
                    let item = data["item"].as_u64().expect("replay file has item");
                    let sig = data["signature"].as_str().unwrap_or("").to_string();
                    let case = data["case"].clone();
                    let mut seen = vec![];
                    for round in 0..2 {
                        let rep = self.supervise(&fam, item, item + 1, Some(1));
                        let hit: Vec<String> = rep
                            .acc
                            .violations
                            .iter()
                            .filter(|v| v.signature == sig && same_case(&v.case, &case))
                            .map(|v| v.message.clone())
                            .collect();
                        println!(
                            "REPLAY round={} family={} item={} violations_in_item={} matching={}",
                            round + 1,
                            fam.name,
                            item,
                            rep.acc.violation_count,
                            hit.len()
                        );
                        for m in &hit {
                            println!("  {m}");
                        }
                        seen.push(hit);
                    }
                    if seen[0] != seen[1] {
                        println!(
                            "MACHINERY: replay is not deterministic: the two executions observed different things"
                        );
                        std::process::exit(EXIT_MACHINERY);
                    }
                    if seen[0].is_empty() {
                        println!("REPLAY result=not-reproduced");
                        std::process::exit(EXIT_OK);
                    }
                    println!("REPLAY result=reproduced signature={sig}");
                    println!(
                        "VIOLATION property={} replay={}",
                        self.prop,
                        match &self.mode {
                            Mode::Replay { file, .. } => file.display().to_string(),
                            _ => unreachable!(),
                        }
                    );
                    std::process::exit(EXIT_VIOLATION);
                }
            }
        }
    }

    fn supervise(
        &self,
        fam: &Family<'_>,
        from: u64,
        to: u64,
        force_workers: Option<usize>,
    ) -> FamilyReport {
        let t0 = Instant::now();
        let cores = std::thread::available_parallelism()
            .map(|n| n.get())
            .unwrap_or(8);
        let max_workers = std::env::var("VERIF_WORKERS")
            .ok()
            .and_then(|s| s.parse().ok())
            .unwrap_or(cores);
        let nworkers = force_workers
            .or(fam.workers)
            .unwrap_or(max_workers)
            .min((to - from).max(1) as usize)
            .max(1);
        let mut total = Acc::new(0);
        let deadline = fam.budget_s.map(|s| t0 + Duration::from_secs_f64(s));

        struct W {
            child: Option<std::process::Child>,
            checkpoint: u64, // every item of this shard below this index is accounted for
            inflight: Option<u64>,
            careful: bool,
            last: Instant,
            /// CPU seconds of the child at its last sign of life
            last_cpu: f64,
            done: bool,
            generation: u64,
        }
        enum Msg {
            Line(usize, u64, String),
            Eof(usize, u64),
        }
        let (tx, rx) = mpsc::channel::<Msg>();
        let n = nworkers as u64;

        let spawn = |w: &mut W, idx: usize, from_i: u64, careful: bool, tx: &mpsc::Sender<Msg>| {
            w.generation += 1;
            let generation = w.generation;
            let mut cmd = Command::new(&self.exe);
            cmd.arg(&self.tier_arg)
                .arg("--worker")
                .arg(&fam.name)
                .arg(idx.to_string())
                .arg(n.to_string())
                .arg(from_i.to_string())
                .arg(to.to_string())
                .arg(if careful { "1" } else { "0" })
                .stdin(Stdio::null())
                .stdout(Stdio::piped())
                .stderr(Stdio::null());
            let mut child = cmd.spawn().expect("spawn worker");
            let out = child.stdout.take().unwrap();
            let tx = tx.clone();
            std::thread::spawn(move || {
                let rd = BufReader::with_capacity(1 << 16, out);
                for line in rd.lines() {
                    match line {
                        Ok(l) => {
                            if tx.send(Msg::Line(idx, generation, l)).is_err() {
                                return;
                            }
                        }
                        Err(_) => break,
                    }
                }
                let _ = tx.send(Msg::Eof(idx, generation));
            });
            w.child = Some(child);
            w.careful = careful;
            w.checkpoint = from_i;
            w.inflight = None;
            w.last = Instant::now();
            w.last_cpu = 0.0;
        };

        let mut ws: Vec<W> = (0..nworkers)
            .map(|_| W {
                child: None,
                checkpoint: from,
                inflight: None,
                careful: false,
                last: Instant::now(),
                last_cpu: 0.0,
                done: false,
                generation: 0,
            })
            .collect();
        for (idx, w) in ws.iter_mut().enumerate() {
            spawn(w, idx, from, false, &tx);
        }
        let mut crashes = 0u64;
        let mut cap_hit: Option<String> = None;
        let timeout = Duration::from_secs_f64(fam.item_timeout_s);

        let describe = |i: u64| -> Value {
            match &fam.describe {
                Some(d) => d(i),
                None => json!({"family": fam.name, "item": i}),
            }
        };
        let crash_sig = |i: u64, kind: &str| -> String {
            match &fam.crash_signature {
                Some(d) => d(i, kind),
                None => format!("{kind}:{}", fam.name),
            }
        };

        while ws.iter().any(|w| !w.done) {
            let msg = rx.recv_timeout(Duration::from_millis(200));
            let now = Instant::now();
            match msg {
                Ok(Msg::Line(idx, generation, line)) => {
                    let w = &mut ws[idx];
                    if generation != w.generation {
                        continue;
                    }
                    w.last = now;
                    if let Some(c) = w.child.as_ref().and_then(|c| child_cpu_s(c.id())) {
                        w.last_cpu = c;
                    }
                    if let Some(rest) = line.strip_prefix("I ") {
                        w.inflight = rest.trim().parse().ok();
                    } else if let Some(rest) = line.strip_prefix("A ") {
                        let (next, js) = rest.split_once(' ').unwrap_or((rest, "{}"));
                        let next: u64 = next.parse().unwrap_or(w.checkpoint);
                        if let Ok(v) = serde_json::from_str::<Value>(js) {
                            total.merge_json(&v);
                        }
                        w.checkpoint = next;
                        w.inflight = None;
                    } else if line == "E" {
                        w.done = true;
                        if let Some(mut c) = w.child.take() {
                            let _ = c.wait();
                        }
                    }
                }
                Ok(Msg::Eof(idx, generation)) => {
                    let w = &mut ws[idx];
                    if generation != w.generation || w.done {
                        continue;
                    }
                    // the worker died without finishing
                    let status = w
                        .child
                        .take()
                        .map(|mut c| c.wait().map(|s| format!("{s}")).unwrap_or_default())
                        .unwrap_or_default();
                    if w.careful {
                        let item = w.inflight.unwrap_or(w.checkpoint);
                        crashes += 1;
                        total.violation(
                            crash_sig(item, "crash"),
                            format!(
                                "worker process died ({status}) while executing this item: the engine aborted, overflowed its stack or was killed"
                            ),
                            || {
                                let mut d = describe(item);
                                if let Some(o) = d.as_object_mut() {
                                    o.insert("_item".into(), json!(item));
                                }
                                d
                            },
                        );
                        total.case(true, "crash");
                        let next = next_in_shard(item + 1, idx as u64, n);
                        if next >= to {
                            w.done = true;
                        } else {
                            spawn(w, idx, next, false, &tx);
                        }
                    } else {
                        let c = w.checkpoint;
                        spawn(w, idx, c, true, &tx);
                    }
                }
                Err(mpsc::RecvTimeoutError::Timeout) => {}
                Err(mpsc::RecvTimeoutError::Disconnected) => break,
            }
            // a family in which the engine keeps dying or hanging has made its point: stop it
            // instead of paying a time-out per item (reported as capped, never as complete)
            if crashes >= MAX_CRASHES_PER_FAMILY && cap_hit.is_none() {
                for w in ws.iter_mut() {
                    if let Some(mut c) = w.child.take() {
                        let _ = c.kill();
                        let _ = c.wait();
                    }
                    w.generation += 1;
                    w.done = true;
                }
                cap_hit = Some(format!(
                    "abandoned after {crashes} engine crashes / hangs in this family (each one is reported); items below the per-shard checkpoints are covered"
                ));
                break;
            }
            // hang detection and budget
            for idx in 0..ws.len() {
                let w = &mut ws[idx];
                if w.done {
                    continue;
                }
                if let Some(d) = deadline
                    && now > d
                {
                    if let Some(mut c) = w.child.take() {
                        let _ = c.kill();
                        let _ = c.wait();
                    }
                    w.generation += 1;
                    w.done = true;
                    cap_hit = Some(format!(
                        "time budget of {:.0}s reached; items below the per-shard checkpoints are covered",
                        fam.budget_s.unwrap()
                    ));
                    continue;
                }
                // A hang is judged on the CPU time the worker burnt without a sign of life (so an
                // overloaded machine cannot fake one); a worker that neither reports nor runs
                // (blocked, deadlocked) is given ten times that in wall-clock time.
                let silent = now.duration_since(w.last);
                let hung = if silent > timeout {
                    let cpu = w
                        .child
                        .as_ref()
                        .and_then(|c| child_cpu_s(c.id()))
                        .map(|c| c - w.last_cpu);
                    match cpu {
                        Some(c) => c > fam.item_timeout_s || silent > timeout * 10,
                        None => true,
                    }
                } else {
                    false
                };
                if hung {
                    if let Some(mut c) = w.child.take() {
                        let _ = c.kill();
                        let _ = c.wait();
                    }
                    w.generation += 1;
                    if w.careful {
                        let item = w.inflight.unwrap_or(w.checkpoint);
                        crashes += 1;
                        total.violation(
                            crash_sig(item, "hang"),
                            format!(
                                "no result after {:.0}s of CPU time (or 10x that in wall-clock time) while executing this item",
                                fam.item_timeout_s
                            ),
                            || {
                                let mut d = describe(item);
                                if let Some(o) = d.as_object_mut() {
                                    o.insert("_item".into(), json!(item));
                                }
                                d
                            },
                        );
                        total.case(true, "hang");
                        let next = next_in_shard(item + 1, idx as u64, n);
                        if next >= to {
                            w.done = true;
                        } else {
                            spawn(w, idx, next, false, &tx);
                        }
                    } else {
                        let c = w.checkpoint;
                        spawn(w, idx, c, true, &tx);
                    }
                }
            }
        }
        let items_completed = if cap_hit.is_some() {
            // conservative: the smallest checkpoint over all shards
            ws.iter().map(|w| w.checkpoint).min().unwrap_or(from) - from
        } else {
            to - from
        };
        FamilyReport {
            name: fam.name.clone(),
            items: to - from,
            items_completed,
            bounds: fam.bounds.clone(),
            completed: cap_hit.is_none(),
            cap_hit,
            acc: total,
            wall_s: t0.elapsed().as_secs_f64(),
            workers: nworkers,
            crashes,
        }
    }

    /// Writes the evidence file, prints the verdict lines and exits.
    pub fn finish(mut self) -> ! {
        if !self.is_supervisor() {
            // a worker / replay invocation that matched no family
            match &self.mode {
                Mode::Worker { family, .. } => {
                    eprintln!("MACHINERY: worker found no family named {family}");
                }
                Mode::Replay { data, .. } => {
                    eprintln!(
                        "MACHINERY: replay file names family {:?} which this check does not define at tier {}",
                        data["family"], self.tier_arg
                    );
                }
                _ => {}
            }
            std::process::exit(EXIT_MACHINERY);
        }
        let wall = self.start.elapsed().as_secs_f64();
        let known = crate::findings::load(&self.root, &self.prop);

        // gather violations
        let mut all: Vec<(String, u64, Violation)> = vec![];
        for r in &mut self.reports {
            for v in r.acc.violations.drain(..) {
                all.push((r.name.clone(), 0, v));
            }
        }
        for (f, v) in self.extra_violations.drain(..) {
            all.push((f, 0, v));
        }
        let total_violation_count: u64 = self
            .reports
            .iter()
            .map(|r| r.acc.violation_count)
            .sum::<u64>();

        let mut known_seen: BTreeMap<String, (String, u64)> = BTreeMap::new();
        let mut unknown: Vec<(String, Violation)> = vec![];
        for (fam, _, v) in all {
            if let Some(k) = known.iter().find(|k| k.matches(&v.signature)) {
                let e = known_seen
                    .entry(k.id.clone())
                    .or_insert((k.description.clone(), 0));
                e.1 += 1;
            } else {
                unknown.push((fam, v));
            }
        }

        // replay files for unknown violations (one per distinct signature, at most 20)
        let replay_dir = std::env::var("VERIF_REPLAY_DIR")
            .map(PathBuf::from)
            .unwrap_or_else(|_| self.root.join("replays"))
            .join(&self.prop);
        let mut lines = vec![];
        let mut written: Vec<String> = vec![];
        for (fam, v) in &unknown {
            if written.contains(&v.signature) || written.len() >= 20 {
                continue;
            }
            written.push(v.signature.clone());
            let _ = std::fs::create_dir_all(&replay_dir);
            let item = v.case["_item"].as_u64();
            let h = fnv(&format!("{}{}{}", fam, v.signature, v.case));
            let variant = std::env::var("VERIF_VARIANT").ok().filter(|v| !v.is_empty());
            let path = match &variant {
                Some(v) => replay_dir.join(format!("{v}-{h:016x}.json")),
                None => replay_dir.join(format!("{h:016x}.json")),
            };
            let body = json!({
                "property": self.prop,
                "tier": self.tier_arg,
                "variant": variant,
                "family": fam,
                "item": item,
                "signature": v.signature,
                "message": v.message,
                "case": v.case,
            });
            let _ = std::fs::write(&path, serde_json::to_string_pretty(&body).unwrap());
            lines.push(format!(
                "VIOLATION property={} replay={}",
                self.prop,
                path.display()
            ));
            println!("  [{}] {} :: {}", fam, v.signature, v.message);
        }

        // evidence
        let evaluations: u64 = self.reports.iter().map(|r| r.acc.evaluations).sum();
        let nontrivial: u64 = self.reports.iter().map(|r| r.acc.nontrivial).sum();
        let mut samples: Vec<Value> = vec![];
        for r in &self.reports {
            for s in r.acc.samples.iter().take(4) {
                samples.push(json!({"family": r.name, "case": s}));
            }
        }
        samples.extend(self.extra_samples.iter().cloned());
        let exhaustive = self.reports.iter().all(|r| r.completed);
        let fams: Vec<Value> = self
            .reports
            .iter()
            .map(|r| {
                json!({
                    "name": r.name,
                    "bounds": r.bounds,
                    "work_items": r.items,
                    "work_items_completed": r.items_completed,
                    "completed": r.completed,
                    "cap_hit": r.cap_hit,
                    "evaluations": r.acc.evaluations,
                    "nontrivial": r.acc.nontrivial,
                    "outcomes": r.acc.outcomes,
                    "counters": r.acc.counters,
                    "violations": r.acc.violation_count,
                    "violation_signatures": r.acc.signatures,
                    "engine_crashes_or_hangs": r.crashes,
                    "workers": r.workers,
                    "wall_s": (r.wall_s * 1000.0).round() / 1000.0,
                })
            })
            .collect();
        let mut coverage = serde_json::Map::new();
        coverage.insert("evaluations".into(), json!(evaluations));
        coverage.insert("distinct_nontrivial".into(), json!(nontrivial));
        coverage.insert("rule".into(), json!(self.rule));
        coverage.insert("samples".into(), json!(samples));
        coverage.insert("exhaustive".into(), json!(exhaustive));
        coverage.insert("families".into(), json!(fams));
        coverage.insert(
            "vacuity_guards".into(),
            json!(
                self.guards
                    .iter()
                    .map(|(n, ok, d)| json!({"guard": n, "ok": ok, "detail": d}))
                    .collect::<Vec<_>>()
            ),
        );
        coverage.insert(
            "known_findings_seen".into(),
            json!(
                known_seen
                    .iter()
                    .map(|(id, (d, n))| json!({"id": id, "what": d, "cases_kept": n}))
                    .collect::<Vec<_>>()
            ),
        );
        for (k, v) in &self.extra {
            coverage.insert(k.clone(), v.clone());
        }
        let variant = std::env::var("VERIF_VARIANT").ok().filter(|v| !v.is_empty());
        if let Some(v) = &variant {
            coverage.insert("build_variant".into(), json!(format!("subject built with cargo feature(s) `{v}`")));
        }
        // passes of the same check on other builds of the subject (run by ./check before this one)
        if let Ok(list) = std::env::var("VERIF_VARIANT_EVIDENCE") {
            let mut runs = vec![];
            for path in list.split(':').filter(|p| !p.is_empty()) {
                match std::fs::read_to_string(path).ok().and_then(|t| serde_json::from_str::<Value>(&t).ok()) {
                    Some(e) => runs.push(json!({
                        "build": e["coverage"]["build_variant"],
                        "tier": e["tier"],
                        "evaluations": e["coverage"]["evaluations"],
                        "distinct_nontrivial": e["coverage"]["distinct_nontrivial"],
                        "exhaustive": e["coverage"]["exhaustive"],
                        "violations": e["violations"],
                        "wall_s": e["wall_s"],
                        "evidence": path,
                    })),
                    None => runs.push(json!({"evidence": path, "error": "the variant pass left no evidence (it failed before finishing; see the exit code of ./check)"})),
                }
            }
            coverage.insert("feature_variant_passes".into(), json!(runs));
        }
        let n_unknown = unknown.len() as i64;
        let evidence = json!({
            "property_id": self.prop,
            "tier": self.tier_arg,
            "seed": self.seed,
            "level": self.level,
            "coverage": Value::Object(coverage),
            "assumptions": self.assumptions,
            "wall_s": (wall * 1000.0).round() / 1000.0,
            "violations": n_unknown,
            "violations_including_known": total_violation_count,
        });
        let evidence_dir = std::env::var("VERIF_EVIDENCE_DIR")
            .map(PathBuf::from)
            .unwrap_or_else(|_| self.root.join("evidence"));
        // a pass on another build of the subject keeps its evidence apart from the check's own
        let evidence_dir = match &variant {
            Some(v) => evidence_dir.join("variants").join(v),
            None => evidence_dir,
        };
        let _ = std::fs::create_dir_all(&evidence_dir);
        let epath = evidence_dir.join(format!("{}.json", self.prop));
        if let Err(e) = std::fs::write(&epath, serde_json::to_string_pretty(&evidence).unwrap()) {
            eprintln!("MACHINERY: cannot write evidence {epath:?}: {e}");
            std::process::exit(EXIT_MACHINERY);
        }
        // a per-tier copy, so that a quick run does not erase what the last thorough run covered
        if variant.is_none() {
            let tdir = evidence_dir.join(&self.tier_arg);
            let _ = std::fs::create_dir_all(&tdir);
            let _ = std::fs::write(
                tdir.join(format!("{}.json", self.prop)),
                serde_json::to_string_pretty(&evidence).unwrap(),
            );
        }

        // summary
        for r in &self.reports {
            println!(
                "family {:<28} items={:<9} evaluations={:<10} nontrivial={:<10} violations={:<5} {:.1}s{}",
                r.name,
                r.items,
                r.acc.evaluations,
                r.acc.nontrivial,
                r.acc.violation_count,
                r.wall_s,
                match &r.cap_hit {
                    Some(c) => format!("  CAP: {c}"),
                    None => String::new(),
                }
            );
        }
        for (id, (d, n)) in &known_seen {
            println!("KNOWN-FINDING: property={} {} [{}; {} case(s) kept]", self.prop, d, id, n);
        }
        let failed_guards: Vec<_> = self.guards.iter().filter(|g| !g.1).collect();
        for l in &lines {
            println!("{l}");
        }
        println!(
            "{} {}{} evaluations={} distinct_nontrivial={} exhaustive={} unknown_violations={} wall={:.1}s evidence={}",
            self.prop,
            self.tier_arg,
            match &variant {
                Some(v) => format!("[features={v}]"),
                None => String::new(),
            },
            evaluations,
            nontrivial,
            exhaustive,
            n_unknown,
            wall,
            epath.display()
        );
        let _ = std::io::stdout().flush();
        for (n, _, d) in &failed_guards {
            println!("MACHINERY: vacuity guard `{n}` failed: {d}");
        }
        let _ = std::io::stdout().flush();
        if !lines.is_empty() {
            std::process::exit(EXIT_VIOLATION);
        }
        if !failed_guards.is_empty() {
            std::process::exit(EXIT_MACHINERY);
        }
        std::process::exit(EXIT_OK);
    }
}

/// Sign of life from inside a long work item (worker side): at most one `H` line every 2 s. Called
/// automatically every 16 384 recorded cases, so an item that keeps judging cases is never taken
/// for a hang however long it is; a family whose items spend long stretches without recording a
/// case can call it directly.
pub fn heartbeat() {
    use std::sync::atomic::{AtomicU64, Ordering};
    static LAST_MS: AtomicU64 = AtomicU64::new(0);
    static START: std::sync::OnceLock<Instant> = std::sync::OnceLock::new();
    let now = START.get_or_init(Instant::now).elapsed().as_millis() as u64;
    let last = LAST_MS.load(Ordering::Relaxed);
    if now.saturating_sub(last) >= 2000 {
        LAST_MS.store(now, Ordering::Relaxed);
        if IN_WORKER.load(Ordering::Relaxed) {
            let mut out = std::io::stdout().lock();
            let _ = writeln!(out, "H");
            let _ = out.flush();
        }
    }
}
static IN_WORKER: std::sync::atomic::AtomicBool = std::sync::atomic::AtomicBool::new(false);

/// CPU seconds (user + system) a child has consumed so far, from /proc (Linux, 100 Hz ticks).
fn child_cpu_s(pid: u32) -> Option<f64> {
    let stat = std::fs::read_to_string(format!("/proc/{pid}/stat")).ok()?;
    // the command name may contain spaces: fields start after the last ')'
    let rest = &stat[stat.rfind(')')? + 2..];
    let f: Vec<&str> = rest.split(' ').collect();
    let utime: f64 = f.get(11)?.parse().ok()?;
    let stime: f64 = f.get(12)?.parse().ok()?;
    Some((utime + stime) / 100.0)
}

fn same_case(a: &Value, b: &Value) -> bool {
    fn strip(v: &Value) -> Value {
        match v {
            Value::Object(o) => Value::Object(
                o.iter()
                    .filter(|(k, _)| !k.starts_with("_item"))
                    .map(|(k, v)| (k.clone(), v.clone()))
                    .collect(),
            ),
            other => other.clone(),
        }
    }
    strip(a) == strip(b)
}

fn next_in_shard(from: u64, k: u64, n: u64) -> u64 {
    // smallest i >= from with i % n == k
    let r = from % n;
    if r <= k { from + (k - r) } else { from + (n - r) + k }
}

pub fn fnv(s: &str) -> u64 {
    let mut h: u64 = 0xcbf29ce484222325;
    for b in s.bytes() {
        h ^= b as u64;
        h = h.wrapping_mul(0x100000001b3);
    }
    h
}

fn worker_loop<F>(fam: &Family<'_>, f: &F, k: u64, n: u64, from: u64, to: u64, careful: bool)
where
    F: Fn(u64, &mut Acc) + Sync,
{
    let stack = fam.stack_mb * 1024 * 1024;
    IN_WORKER.store(true, std::sync::atomic::Ordering::Relaxed);
    std::thread::scope(|s| {
        let h = std::thread::Builder::new()
            .name("subject".into())
            .stack_size(stack)
            .spawn_scoped(s, move || {
                let stdout = std::io::stdout();
                let mut out = stdout.lock();
                let mut acc = Acc::new(MAX_SAMPLES_PER_CHUNK);
                let mut since = Instant::now();
                let mut n_since = 0u32;
                let mut i = next_in_shard(from, k, n);
                while i < to {
                    if careful {
                        let _ = writeln!(out, "I {i}");
                        let _ = out.flush();
                    }
                    let before = acc.violation_count;
                    let r = std::panic::catch_unwind(std::panic::AssertUnwindSafe(|| f(i, &mut acc)));
                    if let Err(p) = r {
                        let msg = crate::engine::panic_message(p);
                        acc.violation(
                            format!("uncaught-panic:{}", fam.name),
                            format!("panic escaped the case runner: {msg}"),
                            || json!({"_item": i}),
                        );
                    }
                    if acc.violation_count > before {
                        // tag the violations recorded by this item with its index
                        let newv = (acc.violation_count - before) as usize;
                        let len = acc.violations.len();
                        for v in acc.violations.iter_mut().skip(len.saturating_sub(newv)) {
                            if let Some(o) = v.case.as_object_mut() {
                                o.entry("_item").or_insert(json!(i));
                            } else {
                                v.case = json!({"_item": i, "case": v.case.clone()});
                            }
                        }
                    }
                    n_since += 1;
                    i += n;
                    if careful || n_since >= 512 || since.elapsed() > Duration::from_millis(250) {
                        let _ = writeln!(out, "A {} {}", i, acc.to_json());
                        let _ = out.flush();
                        acc = Acc::new(0);
                        since = Instant::now();
                        n_since = 0;
                    }
                }
                let _ = writeln!(out, "A {} {}", to, acc.to_json());
                let _ = writeln!(out, "E");
                let _ = out.flush();
            })
            .expect("spawn subject thread");
        let _ = h.join();
    });
}
