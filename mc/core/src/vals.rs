//! A typed description of template values that the harness owns: it can be turned into a real
//! `tera::Value` (keeping the exact integer encoding), printed for evidence / replay files, and —
//! where the template language can spell it — into a literal.

use serde_json::{Value as Json, json};
use tera::value::{Key, Map};

#[derive(Clone, Debug, PartialEq)]
pub enum K {
    Str(String),
    Bool(bool),
    I64(i64),
    U64(u64),
    I128(i128),
    U128(u128),
}

impl K {
    pub fn to_tera(&self) -> Key<'static> {
        match self {
            K::Str(s) => Key::String(std::sync::Arc::from(s.as_str())),
            K::Bool(b) => Key::Bool(*b),
            K::I64(i) => Key::I64(*i),
            K::U64(i) => Key::U64(*i),
            K::I128(i) => Key::I128(*i),
            K::U128(i) => Key::U128(*i),
        }
    }
    pub fn describe(&self) -> String {
        match self {
            K::Str(s) => format!("{s:?}"),
            K::Bool(b) => format!("{b}"),
            K::I64(i) => format!("{i}i64"),
            K::U64(i) => format!("{i}u64"),
            K::I128(i) => format!("{i}i128"),
            K::U128(i) => format!("{i}u128"),
        }
    }
    pub fn as_v(&self) -> V {
        match self {
            K::Str(s) => V::Str(s.clone()),
            K::Bool(b) => V::Bool(*b),
            K::I64(i) => V::I64(*i),
            K::U64(i) => V::U64(*i),
            K::I128(i) => V::I128(*i),
            K::U128(i) => V::U128(*i),
        }
    }
}

#[derive(Clone, Debug, PartialEq)]
pub enum V {
    Undef,
    None,
    Bool(bool),
    I64(i64),
    U64(u64),
    I128(i128),
    U128(u128),
    F64(f64),
    Str(String),
    Safe(String),
    Bytes(Vec<u8>),
    Arr(Vec<V>),
    Map(Vec<(K, V)>),
}

#[derive(Clone, Copy, Debug, PartialEq, Eq, PartialOrd, Ord, Hash)]
pub enum Kind {
    Undef,
    None,
    Bool,
    Int,
    Float,
    Str,
    Bytes,
    Arr,
    Map,
}

impl V {
    pub fn s(x: &str) -> V {
        V::Str(x.to_string())
    }
    pub fn arr(xs: &[V]) -> V {
        V::Arr(xs.to_vec())
    }
    pub fn map(xs: &[(&str, V)]) -> V {
        V::Map(xs.iter().map(|(k, v)| (K::Str(k.to_string()), v.clone())).collect())
    }

    pub fn kind(&self) -> Kind {
        match self {
            V::Undef => Kind::Undef,
            V::None => Kind::None,
            V::Bool(_) => Kind::Bool,
            V::I64(_) | V::U64(_) | V::I128(_) | V::U128(_) => Kind::Int,
            V::F64(_) => Kind::Float,
            V::Str(_) | V::Safe(_) => Kind::Str,
            V::Bytes(_) => Kind::Bytes,
            V::Arr(_) => Kind::Arr,
            V::Map(_) => Kind::Map,
        }
    }

    pub fn is_number(&self) -> bool {
        matches!(self.kind(), Kind::Int | Kind::Float)
    }

    /// Exact integer value when the value is an integer that fits i128.
    pub fn as_i128(&self) -> Option<i128> {
        match self {
            V::I64(i) => Some(*i as i128),
            V::U64(i) => Some(*i as i128),
            V::I128(i) => Some(*i),
            V::U128(i) => i128::try_from(*i).ok(),
            _ => None,
        }
    }

    pub fn to_tera(&self) -> tera::Value {
        match self {
            V::Undef => tera::Value::undefined(),
            V::None => tera::Value::none(),
            V::Bool(b) => tera::Value::from(*b),
            V::I64(i) => tera::Value::from(*i),
            V::U64(i) => tera::Value::from(*i),
            V::I128(i) => tera::Value::from(*i),
            V::U128(i) => tera::Value::from(*i),
            V::F64(f) => tera::Value::from(*f),
            V::Str(s) => tera::Value::normal_string(s),
            V::Safe(s) => tera::Value::safe_string(s),
            V::Bytes(b) => tera::Value::bytes(b.clone()),
            V::Arr(xs) => tera::Value::from(xs.iter().map(|x| x.to_tera()).collect::<Vec<_>>()),
            V::Map(kv) => {
                let mut m = Map::new();
                for (k, v) in kv {
                    m.insert(k.to_tera(), v.to_tera());
                }
                tera::Value::from_map(m)
            }
        }
    }

    /// Text that identifies the value including its encoding (for evidence / replay files).
    pub fn describe(&self) -> String {
        match self {
            V::Undef => "undefined".into(),
            V::None => "none".into(),
            V::Bool(b) => format!("{b}"),
            V::I64(i) => format!("{i}i64"),
            V::U64(i) => format!("{i}u64"),
            V::I128(i) => format!("{i}i128"),
            V::U128(i) => format!("{i}u128"),
            V::F64(f) => format!("{f:?}f64"),
            V::Str(s) => format!("{s:?}"),
            V::Safe(s) => format!("safe{s:?}"),
            V::Bytes(b) => format!("bytes{b:?}"),
            V::Arr(xs) => format!(
                "[{}]",
                xs.iter().map(|x| x.describe()).collect::<Vec<_>>().join(", ")
            ),
            V::Map(kv) => format!(
                "{{{}}}",
                kv.iter()
                    .map(|(k, v)| format!("{}: {}", k.describe(), v.describe()))
                    .collect::<Vec<_>>()
                    .join(", ")
            ),
        }
    }

    pub fn json(&self) -> Json {
        json!(self.describe())
    }

    /// A template literal for the value, when the language has one (no undefined, bytes, safe
    /// strings, non-finite floats, integers outside i64, non-string map keys other than what
    /// the literal syntax allows).
    pub fn literal(&self) -> Option<String> {
        Some(match self {
            V::None => "none".into(),
            V::Bool(b) => format!("{b}"),
            V::I64(i) => format!("{i}"),
            V::F64(f) if f.is_finite() => format!("{f:?}"),
            V::Str(s) if !s.contains('"') && !s.contains('\\') && !s.contains('\n') => {
                format!("\"{s}\"")
            }
            V::Arr(xs) => {
                let parts: Option<Vec<String>> = xs.iter().map(|x| x.literal()).collect();
                format!("[{}]", parts?.join(", "))
            }
            V::Map(kv) => {
                let mut parts = vec![];
                for (k, v) in kv {
                    let ks = match k {
                        K::Str(s) if !s.contains('"') && !s.contains('\\') => format!("\"{s}\""),
                        K::I64(i) if *i >= 0 => format!("{i}"),
                        K::Bool(b) => format!("{b}"),
                        _ => return None,
                    };
                    parts.push(format!("{ks}: {}", v.literal()?));
                }
                format!("{{{}}}", parts.join(", "))
            }
            _ => return None,
        })
    }
}

pub trait FromMap {
    fn from_map(m: Map) -> tera::Value;
}
impl FromMap for tera::Value {
    fn from_map(m: Map) -> tera::Value {
        // `Value: From<HashMap<K, T>>` goes through Into<Key>; Key: Into<Key> is the identity.
        tera::Value::from(m)
    }
}

/// Builds a context from (name, value) bindings; `V::Undef` bindings are left out (unbound).
pub fn context(bindings: &[(&str, &V)]) -> tera::Context {
    let mut c = tera::Context::new();
    for (k, v) in bindings {
        if **v != V::Undef {
            c.insert_value(k.to_string(), v.to_tera());
        }
    }
    c
}

pub const LONG_ASCII: &str = "abcdefghijklmnopqrstuv"; // 22 bytes: heap SmartString
pub const LONG_MULTI: &str = "ééééééééééé"; // 22 bytes, 11 chars

/// The common value alphabet V of DESIGN.md §4 (every kind, every integer encoding, the f64 and
/// 128-bit boundaries, inline and heap strings, both sides of the attribute scan cut-over).
pub fn alphabet_v() -> Vec<V> {
    let mut v = vec![V::Undef, V::None, V::Bool(true), V::Bool(false)];
    for i in [0i64, 1, -1, 2, 3, 7] {
        v.push(V::I64(i));
        if i >= 0 {
            v.push(V::U64(i as u64));
            v.push(V::U128(i as u128));
        }
        v.push(V::I128(i as i128));
    }
    v.push(V::I64(1 << 53));
    v.push(V::U64(1 << 63));
    v.push(V::I64(i64::MIN));
    v.push(V::I128(1i128 << 64));
    v.push(V::I128(i128::MIN));
    v.push(V::I128(i128::MAX));
    v.push(V::U128(u128::MAX));
    for f in [
        0.0,
        -0.0,
        1.0,
        1.5,
        -2.5,
        9007199254740992.0,
        1e300,
        f64::INFINITY,
        f64::NEG_INFINITY,
        f64::NAN,
    ] {
        v.push(V::F64(f));
    }
    for s in ["", "a", "b", "1", "é", "a<b", LONG_ASCII, LONG_MULTI] {
        v.push(V::Str(s.to_string()));
        v.push(V::Safe(s.to_string()));
    }
    v.push(V::Bytes(vec![]));
    v.push(V::Bytes(b"ab".to_vec()));
    v.push(V::Bytes(vec![0xff, 0xfe, b'a']));
    v.push(V::Arr(vec![]));
    v.push(V::Arr(vec![V::I64(1)]));
    v.push(V::Arr(vec![V::F64(1.0)]));
    v.push(V::Arr(vec![V::s("a")]));
    v.push(V::Arr(vec![V::I64(1), V::s("a")]));
    v.push(V::Arr(vec![V::Arr(vec![V::I64(1)])]));
    v.push(V::Arr(vec![V::None]));
    v.push(V::Arr(vec![V::Map(vec![])]));
    v.push(V::Map(vec![]));
    v.push(V::map(&[("a", V::I64(1))]));
    v.push(V::map(&[("a", V::I64(2))]));
    v.push(V::map(&[("b", V::I64(1))]));
    v.push(V::Map(vec![(K::I64(1), V::s("x"))]));
    v.push(V::Map(vec![(K::Bool(true), V::I64(1))]));
    v.push(V::map(&[("a", V::map(&[("b", V::I64(1))]))]));
    v.push(V::Map(
        (0..7).map(|i| (K::Str(format!("k{i}")), V::I64(i))).collect(),
    ));
    v.push(V::Map(
        (0..8).map(|i| (K::Str(format!("k{i}")), V::I64(i))).collect(),
    ));
    v.push(V::map(&[("u", V::Undef)]));
    // nesting depth 64
    let mut deep = V::I64(1);
    for _ in 0..64 {
        deep = V::Arr(vec![deep]);
    }
    v.push(deep);
    v
}

/// A smaller alphabet: one or two representatives per kind (used where a full cross product
/// with V would explode).
pub fn alphabet_small() -> Vec<V> {
    vec![
        V::Undef,
        V::None,
        V::Bool(true),
        V::Bool(false),
        V::I64(0),
        V::I64(3),
        V::I64(-2),
        V::U64(u64::MAX),
        V::I128(i128::MIN),
        V::U128(u128::MAX),
        V::F64(1.5),
        V::F64(f64::NAN),
        V::F64(f64::INFINITY),
        V::Str(String::new()),
        V::s("a"),
        V::s("é<"),
        V::Safe("<s>".into()),
        V::Bytes(vec![0xff, b'a']),
        V::Arr(vec![]),
        V::Arr(vec![V::I64(1), V::s("a")]),
        V::Map(vec![]),
        V::map(&[("a", V::I64(1))]),
    ]
}
