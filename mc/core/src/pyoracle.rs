//! Line-oriented Python oracle subprocess (`python3 /verif/oracles/<script>`): the harness writes
//! one request per line and reads exactly one answer line per request. Python (stdlib only) is the
//! authority for big-integer / Fraction arithmetic and for slice semantics.

use std::io::{BufRead, BufReader, Write};
use std::process::{Child, ChildStdin, ChildStdout, Command, Stdio};

pub struct PyOracle {
    child: Child,
    stdin: ChildStdin,
    stdout: BufReader<ChildStdout>,
}

impl PyOracle {
    pub fn spawn(script: &str) -> PyOracle {
        let root = std::env::var("VERIF_ROOT").unwrap_or_else(|_| {
            let p = std::path::PathBuf::from(env!("CARGO_MANIFEST_DIR"));
            p.parent().unwrap().parent().unwrap().display().to_string()
        });
        let path = format!("{root}/oracles/{script}");
        let mut child = Command::new("python3")
            .arg("-u")
            .arg(&path)
            .stdin(Stdio::piped())
            .stdout(Stdio::piped())
            .stderr(Stdio::inherit())
            .spawn()
            .unwrap_or_else(|e| {
                eprintln!("MACHINERY: cannot start python3 {path}: {e}");
                std::process::exit(crate::kernel::EXIT_MACHINERY)
            });
        let stdin = child.stdin.take().unwrap();
        let stdout = BufReader::new(child.stdout.take().unwrap());
        PyOracle { child, stdin, stdout }
    }

    /// Sends all requests (one per line, must not contain newlines) and returns one answer each.
    pub fn ask(&mut self, requests: &[String]) -> Vec<String> {
        let mut buf = String::new();
        for r in requests {
            debug_assert!(!r.contains('\n'));
            buf.push_str(r);
            buf.push('\n');
        }
        // write from a helper thread so that a full pipe cannot deadlock against our reads
        let mut answers = Vec::with_capacity(requests.len());
        std::thread::scope(|s| {
            let stdin = &mut self.stdin;
            s.spawn(move || {
                let _ = stdin.write_all(buf.as_bytes());
                let _ = stdin.flush();
            });
            for _ in 0..requests.len() {
                let mut line = String::new();
                match self.stdout.read_line(&mut line) {
                    Ok(n) if n > 0 => answers.push(line.trim_end_matches('\n').to_string()),
                    _ => {
                        eprintln!("MACHINERY: python oracle died");
                        std::process::exit(crate::kernel::EXIT_MACHINERY);
                    }
                }
            }
        });
        answers
    }
}

impl Drop for PyOracle {
    fn drop(&mut self) {
        let _ = self.child.kill();
        let _ = self.child.wait();
    }
}
