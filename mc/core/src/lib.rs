pub mod engine;
pub mod findings;
pub mod kernel;
pub mod numref;
pub mod pyoracle;
pub mod vals;

pub use engine::Out;
pub use kernel::{Acc, Family, Run, Tier, Violation};
pub use serde_json::{Value as Json, json};
