//! C19 — data put in a context through serde is represented faithfully.
//!
//! A compile-time family of Rust types (every primitive width, floats, char, String, unit, the
//! four struct shapes, Option, Vec, tuples of 1..3, BTreeMap / HashMap over every supported key
//! kind, enums with the four variant shapes, nested up to two combinators deep) x boundary values.
//! Every (type, value) instance is one case, executed on the real bridge:
//!
//!   instances  value -> `Value::try_from_serializable` -> structure compared with an independent
//!              data model of the Rust value -> read back with `T::deserialize(&v)`,
//!              `T::deserialize(v)` and (map shaped values) `Kwargs::deserialize` -> `{{ v }}`
//!              compared with a reference printer over the data model -> `Context::insert`,
//!              `insert_value`, `from_serialize` and per-field insertion compared.
//!   bad-keys   maps whose key cannot be represented (floats, tuples, sequences, None, unit, bytes,
//!              maps, structs, data-carrying enum variants) in every position and nesting:
//!              `try_from_serializable` / `Context::from_serialize` must answer `Err`, never panic,
//!              never `Ok`.
//!
//! The data model (`D`) and the printer are written from the Rust data and the documented display
//! format; they never call the serializer or `Value::format`.

use mccore::engine;
use mccore::{Acc, Family, Run, json};
use serde::de::DeserializeOwned;
use serde::ser::SerializeMap;
use serde::Serialize;
use serde_derive::{Deserialize, Serialize};
use std::collections::{BTreeMap, HashMap};
use std::fmt::Debug;
use std::hash::Hash;
use std::sync::Arc;
use tera::value::Key;
use tera::{Context, Kwargs, Tera, TeraResult, Value};

// ------------------------------------------------------------------------------------------
// Independent data model of a Rust value (what serde's data model says the value *is*).
// ------------------------------------------------------------------------------------------

#[derive(Clone, Debug, PartialEq, Eq, PartialOrd, Ord)]
enum Int {
    Neg(i128), // always < 0
    Pos(u128),
}

impl Int {
    fn of_i(i: i128) -> Int {
        if i < 0 { Int::Neg(i) } else { Int::Pos(i as u128) }
    }
    fn text(&self) -> String {
        match self {
            Int::Neg(i) => i.to_string(),
            Int::Pos(u) => u.to_string(),
        }
    }
}

/// A map key of the data model. Derived order: bools < integers (numeric) < strings (bytewise) —
/// maps of the family are homogeneous in their key kind, so only the order inside a kind matters.
#[derive(Clone, Debug, PartialEq, Eq, PartialOrd, Ord)]
enum DK {
    B(bool),
    I(Int),
    S(String),
}

impl DK {
    /// The text a key becomes when it is used as a context variable name.
    fn text(&self) -> String {
        match self {
            DK::B(b) => b.to_string(),
            DK::I(i) => i.text(),
            DK::S(s) => s.clone(),
        }
    }
    fn show(&self) -> String {
        match self {
            DK::S(s) => format!("{s:?}"),
            other => other.text(),
        }
    }
}

#[derive(Clone, Debug)]
enum D {
    Unit,
    Bool(bool),
    Int(Int),
    F(f64),
    Str(String),
    Seq(Vec<D>),
    /// entries sorted by key
    Map(Vec<(DK, D)>),
}

impl D {
    fn map(mut entries: Vec<(DK, D)>) -> D {
        entries.sort_by(|a, b| a.0.cmp(&b.0));
        D::Map(entries)
    }
    /// Structural equality with floats compared by bits.
    fn biteq(&self, o: &D) -> bool {
        match (self, o) {
            (D::Unit, D::Unit) => true,
            (D::Bool(a), D::Bool(b)) => a == b,
            (D::Int(a), D::Int(b)) => a == b,
            (D::F(a), D::F(b)) => a.to_bits() == b.to_bits(),
            (D::Str(a), D::Str(b)) => a == b,
            (D::Seq(a), D::Seq(b)) => a.len() == b.len() && a.iter().zip(b).all(|(x, y)| x.biteq(y)),
            (D::Map(a), D::Map(b)) => {
                a.len() == b.len() && a.iter().zip(b).all(|((k, x), (l, y))| k == l && x.biteq(y))
            }
            _ => false,
        }
    }
    /// Evidence / replay text (keeps what the printer drops: quotes at top level, float bits).
    fn describe(&self) -> String {
        match self {
            D::Unit => "unit".into(),
            D::Bool(b) => b.to_string(),
            D::Int(i) => i.text(),
            D::F(f) => format!("{f:?}f[{:#x}]", f.to_bits()),
            D::Str(s) => format!("{s:?}"),
            D::Seq(xs) => format!("[{}]", xs.iter().map(|x| x.describe()).collect::<Vec<_>>().join(", ")),
            D::Map(kv) => format!(
                "{{{}}}",
                kv.iter().map(|(k, v)| format!("{}: {}", k.show(), v.describe())).collect::<Vec<_>>().join(", ")
            ),
        }
    }
    fn contains_nan_or_big(&self, counts: &mut Features) {
        match self {
            D::F(f) if f.is_nan() => counts.nan = true,
            D::F(f) if *f == 0.0 && f.is_sign_negative() => counts.neg_zero = true,
            D::Int(Int::Pos(u)) if *u > i64::MAX as u128 => counts.above_i64 = true,
            D::Int(Int::Neg(i)) if *i < i64::MIN as i128 => counts.above_i64 = true,
            D::Seq(xs) => xs.iter().for_each(|x| x.contains_nan_or_big(counts)),
            D::Map(kv) => {
                if kv.len() >= 2 {
                    counts.multi_map = true;
                }
                if kv.iter().any(|(k, _)| !matches!(k, DK::S(_))) {
                    counts.non_string_key = true;
                }
                kv.iter().for_each(|(_, x)| x.contains_nan_or_big(counts))
            }
            D::Str(s) if s.contains('"') || s.contains('\n') => counts.quoted = true,
            _ => {}
        }
    }
}

#[derive(Default)]
struct Features {
    nan: bool,
    neg_zero: bool,
    above_i64: bool,
    multi_map: bool,
    non_string_key: bool,
    quoted: bool,
}

/// The reference printer: what `{{ v }}` must show for the data, per the display format of the
/// engine's documentation / doc comments: none prints nothing, integers exactly, floats like
/// Rust's `{:?}` of the f64, strings raw at top level and quoted (Rust `{:?}`) inside containers,
/// arrays `[a, b]`, maps `{key: value, ...}` in sorted key order with string keys quoted.
fn print_top(d: &D) -> String {
    match d {
        D::Unit => String::new(),
        D::Bool(b) => b.to_string(),
        D::Int(i) => i.text(),
        D::F(f) => format!("{f:?}"),
        D::Str(s) => s.clone(),
        D::Seq(xs) => format!("[{}]", xs.iter().map(print_inner).collect::<Vec<_>>().join(", ")),
        D::Map(kv) => format!(
            "{{{}}}",
            kv.iter().map(|(k, v)| format!("{}: {}", k.show(), print_inner(v))).collect::<Vec<_>>().join(", ")
        ),
    }
}

fn print_inner(d: &D) -> String {
    match d {
        D::Str(s) => format!("{s:?}"),
        other => print_top(other),
    }
}

fn key_matches(k: &Key<'_>, dk: &DK) -> bool {
    match (k, dk) {
        (Key::Bool(a), DK::B(b)) => a == b,
        (Key::String(a), DK::S(b)) => a.as_ref() == b.as_str(),
        (Key::Str(a), DK::S(b)) => *a == b.as_str(),
        (Key::I64(a), DK::I(i)) => Int::of_i(*a as i128) == *i,
        (Key::I128(a), DK::I(i)) => Int::of_i(*a) == *i,
        (Key::U64(a), DK::I(i)) => Int::Pos(*a as u128) == *i,
        (Key::U128(a), DK::I(i)) => Int::Pos(*a) == *i,
        _ => false,
    }
}

/// Compares the real `Value` with the data model through the public accessors only (linear key
/// matching, no hashing, no formatting). `Err(path)` names the first place that differs.
fn repr_matches(v: &Value, d: &D, path: &str) -> Result<(), String> {
    let bad = |what: &str| Err(format!("at {path}: {what}, engine value is {} `{v:?}`", v.name()));
    match d {
        D::Unit => {
            if v.is_none() { Ok(()) } else { bad("expected none") }
        }
        D::Bool(b) => {
            if v.as_bool() == Some(*b) { Ok(()) } else { bad("expected this bool") }
        }
        D::Int(i) => {
            let is_int = v.is_i64() || v.is_u64() || v.is_i128() || v.is_u128();
            let same = match i {
                Int::Neg(n) => v.as_i128() == Some(*n),
                Int::Pos(u) => v.as_u128() == Some(*u),
            };
            if is_int && same { Ok(()) } else { bad(&format!("expected the integer {}", i.text())) }
        }
        D::F(f) => match v.as_f64() {
            Some(g) if v.is_f64() && g.to_bits() == f.to_bits() => Ok(()),
            _ => bad(&format!("expected the float {f:?} bit-exactly")),
        },
        D::Str(s) => {
            if v.as_str() == Some(s.as_str()) && !v.is_safe() {
                Ok(())
            } else {
                bad(&format!("expected the normal (escapable) string {s:?}"))
            }
        }
        D::Seq(xs) => match v.as_array() {
            Some(arr) if arr.len() == xs.len() => {
                for (i, (a, x)) in arr.iter().zip(xs).enumerate() {
                    repr_matches(a, x, &format!("{path}[{i}]"))?;
                }
                Ok(())
            }
            _ => bad(&format!("expected an array of {} elements", xs.len())),
        },
        D::Map(kv) => match v.as_map() {
            Some(m) if m.len() == kv.len() => {
                for (dk, dv) in kv {
                    match m.iter().find(|(k, _)| key_matches(k, dk)) {
                        Some((_, val)) => repr_matches(val, dv, &format!("{path}.{}", dk.show()))?,
                        None => return bad(&format!("key {} is missing or has another kind", dk.show())),
                    }
                }
                Ok(())
            }
            _ => bad(&format!("expected a map of {} entries", kv.len())),
        },
    }
}

// ------------------------------------------------------------------------------------------
// The type family
// ------------------------------------------------------------------------------------------

/// Hand-written (serde-independent) description of every type of the family.
trait Model {
    /// serializes to none: may not sit directly inside an Option (excluded by the statement)
    const NULLABLE: bool = false;
    /// contains a newtype struct somewhere (F-serde classification only)
    const HAS_NEWTYPE: bool = false;
    const KIND: &'static str;
    fn ty() -> String;
    fn model(&self) -> D;
    /// `Context::insert` of every top-level field, where the Rust type exposes them.
    fn insert_fields(&self, _ctx: &mut Context) -> bool {
        false
    }
}

trait KeyModel {
    fn kty() -> String;
    fn key(&self) -> DK;
}

macro_rules! model_signed {
    ($($t:ty),*) => {$(
        impl Model for $t {
            const KIND: &'static str = "int";
            fn ty() -> String { stringify!($t).into() }
            fn model(&self) -> D { D::Int(Int::of_i(*self as i128)) }
        }
        impl KeyModel for $t {
            fn kty() -> String { stringify!($t).into() }
            fn key(&self) -> DK { DK::I(Int::of_i(*self as i128)) }
        }
    )*};
}
macro_rules! model_unsigned {
    ($($t:ty),*) => {$(
        impl Model for $t {
            const KIND: &'static str = "int";
            fn ty() -> String { stringify!($t).into() }
            fn model(&self) -> D { D::Int(Int::Pos(*self as u128)) }
        }
        impl KeyModel for $t {
            fn kty() -> String { stringify!($t).into() }
            fn key(&self) -> DK { DK::I(Int::Pos(*self as u128)) }
        }
    )*};
}
model_signed!(i8, i16, i32, i64, i128, isize);
model_unsigned!(u8, u16, u32, u64, u128, usize);

impl Model for bool {
    const KIND: &'static str = "bool";
    fn ty() -> String {
        "bool".into()
    }
    fn model(&self) -> D {
        D::Bool(*self)
    }
}
impl KeyModel for bool {
    fn kty() -> String {
        "bool".into()
    }
    fn key(&self) -> DK {
        DK::B(*self)
    }
}
impl Model for f32 {
    const KIND: &'static str = "float";
    fn ty() -> String {
        "f32".into()
    }
    fn model(&self) -> D {
        // an f32 is the same real number as its (exact) f64 widening
        D::F(*self as f64)
    }
}
impl Model for f64 {
    const KIND: &'static str = "float";
    fn ty() -> String {
        "f64".into()
    }
    fn model(&self) -> D {
        D::F(*self)
    }
}
impl Model for char {
    const KIND: &'static str = "char";
    fn ty() -> String {
        "char".into()
    }
    fn model(&self) -> D {
        D::Str(self.to_string())
    }
}
impl KeyModel for char {
    fn kty() -> String {
        "char".into()
    }
    fn key(&self) -> DK {
        DK::S(self.to_string())
    }
}
impl Model for String {
    const KIND: &'static str = "string";
    fn ty() -> String {
        "String".into()
    }
    fn model(&self) -> D {
        D::Str(self.clone())
    }
}
impl KeyModel for String {
    fn kty() -> String {
        "String".into()
    }
    fn key(&self) -> DK {
        DK::S(self.clone())
    }
}
impl KeyModel for &'static str {
    fn kty() -> String {
        "&str".into()
    }
    fn key(&self) -> DK {
        DK::S(self.to_string())
    }
}
impl Model for () {
    const NULLABLE: bool = true;
    const KIND: &'static str = "unit";
    fn ty() -> String {
        "()".into()
    }
    fn model(&self) -> D {
        D::Unit
    }
}

/// unit struct
#[derive(Serialize, Deserialize, PartialEq, Debug, Clone)]
struct U;
impl Model for U {
    const NULLABLE: bool = true;
    const KIND: &'static str = "unit-struct";
    fn ty() -> String {
        "U".into()
    }
    fn model(&self) -> D {
        D::Unit
    }
}

/// enum with unit variants only (also a map key kind); derived order A < B < Zed differs from the
/// order of the variant *names* "A" < "Zed" < "b c".
#[derive(Serialize, Deserialize, PartialEq, Eq, PartialOrd, Ord, Hash, Debug, Clone, Copy)]
enum UE {
    A,
    #[serde(rename = "b c")]
    B,
    Zed,
}
impl UE {
    fn name(&self) -> &'static str {
        match self {
            UE::A => "A",
            UE::B => "b c",
            UE::Zed => "Zed",
        }
    }
}
impl Model for UE {
    const KIND: &'static str = "enum";
    fn ty() -> String {
        "UE".into()
    }
    fn model(&self) -> D {
        D::Str(self.name().into())
    }
}
impl KeyModel for UE {
    fn kty() -> String {
        "UE".into()
    }
    fn key(&self) -> DK {
        DK::S(self.name().into())
    }
}

/// newtype struct
#[derive(Serialize, Deserialize, PartialEq, Debug, Clone)]
struct N<T>(T);
impl<T: Model> Model for N<T> {
    const NULLABLE: bool = T::NULLABLE;
    const HAS_NEWTYPE: bool = true;
    const KIND: &'static str = "newtype-struct";
    fn ty() -> String {
        format!("N<{}>", T::ty())
    }
    fn model(&self) -> D {
        self.0.model()
    }
}

/// tuple struct
#[derive(Serialize, Deserialize, PartialEq, Debug, Clone)]
struct TS<T>(T, i64);
impl<T: Model> Model for TS<T> {
    const HAS_NEWTYPE: bool = T::HAS_NEWTYPE;
    const KIND: &'static str = "tuple-struct";
    fn ty() -> String {
        format!("TS<{}>", T::ty())
    }
    fn model(&self) -> D {
        D::Seq(vec![self.0.model(), self.1.model()])
    }
}

/// struct with named fields
#[derive(Serialize, Deserialize, PartialEq, Debug, Clone)]
struct S<T> {
    a: T,
    n: u8,
    s: String,
}
impl<T: Model + Serialize> Model for S<T> {
    const HAS_NEWTYPE: bool = T::HAS_NEWTYPE;
    const KIND: &'static str = "struct";
    fn ty() -> String {
        format!("S<{}>", T::ty())
    }
    fn model(&self) -> D {
        D::map(vec![
            (DK::S("a".into()), self.a.model()),
            (DK::S("n".into()), self.n.model()),
            (DK::S("s".into()), self.s.model()),
        ])
    }
    fn insert_fields(&self, ctx: &mut Context) -> bool {
        ctx.insert("a", &self.a);
        ctx.insert("n", &self.n);
        ctx.insert("s", &self.s);
        true
    }
}

/// struct with an optional field (only over types that do not serialize to none)
#[derive(Serialize, Deserialize, PartialEq, Debug, Clone)]
struct SO<T> {
    o: Option<T>,
    b: T,
}
impl<T: Model + Serialize> Model for SO<T> {
    const HAS_NEWTYPE: bool = T::HAS_NEWTYPE;
    const KIND: &'static str = "struct";
    fn ty() -> String {
        format!("SO<{}>", T::ty())
    }
    fn model(&self) -> D {
        D::map(vec![(DK::S("o".into()), self.o.model()), (DK::S("b".into()), self.b.model())])
    }
    fn insert_fields(&self, ctx: &mut Context) -> bool {
        ctx.insert("o", &self.o);
        ctx.insert("b", &self.b);
        true
    }
}

/// enum with the four variant shapes
#[derive(Serialize, Deserialize, PartialEq, Debug, Clone)]
enum E<T> {
    Unit,
    New(T),
    Tup(T, u8),
    Rec { x: T, y: bool },
    /// data-carrying shapes that carry nothing: a struct variant without fields, a tuple variant
    /// without elements, and a struct variant whose only field is left out when it is `None`
    /// (seeded change C19-10 turned every struct variant that serialises no field into a bare `{}`)
    Empty {},
    Nil(),
    Opt {
        #[serde(default, skip_serializing_if = "Option::is_none")]
        note: Option<u8>,
    },
}
#[derive(Serialize)]
struct RecRef<'a, T> {
    x: &'a T,
    y: &'a bool,
}
impl<T: Model + Serialize> Model for E<T> {
    const HAS_NEWTYPE: bool = T::HAS_NEWTYPE;
    const KIND: &'static str = "enum";
    fn ty() -> String {
        format!("E<{}>", T::ty())
    }
    fn model(&self) -> D {
        match self {
            E::Unit => D::Str("Unit".into()),
            E::New(x) => D::map(vec![(DK::S("New".into()), x.model())]),
            E::Tup(a, b) => D::map(vec![(DK::S("Tup".into()), D::Seq(vec![a.model(), b.model()]))]),
            E::Rec { x, y } => D::map(vec![(
                DK::S("Rec".into()),
                D::map(vec![(DK::S("x".into()), x.model()), (DK::S("y".into()), y.model())]),
            )]),
            E::Empty {} => D::map(vec![(DK::S("Empty".into()), D::map(vec![]))]),
            E::Nil() => D::map(vec![(DK::S("Nil".into()), D::Seq(vec![]))]),
            E::Opt { note } => D::map(vec![(
                DK::S("Opt".into()),
                D::map(note.iter().map(|n| (DK::S("note".into()), n.model())).collect()),
            )]),
        }
    }
    fn insert_fields(&self, ctx: &mut Context) -> bool {
        match self {
            E::Unit => return false,
            E::New(x) => ctx.insert("New", x),
            E::Tup(a, b) => ctx.insert("Tup", &(a, b)),
            E::Rec { x, y } => ctx.insert("Rec", &RecRef { x, y }),
            E::Empty {} => ctx.insert("Empty", &BTreeMap::<String, u8>::new()),
            E::Nil() => ctx.insert("Nil", &Vec::<u8>::new()),
            E::Opt { note } => ctx.insert("Opt", &note.iter().map(|n| ("note".to_string(), *n)).collect::<BTreeMap<String, u8>>()),
        }
        true
    }
}

impl<T: Model> Model for Option<T> {
    const NULLABLE: bool = true;
    const HAS_NEWTYPE: bool = T::HAS_NEWTYPE;
    const KIND: &'static str = "option";
    fn ty() -> String {
        format!("Option<{}>", T::ty())
    }
    fn model(&self) -> D {
        match self {
            None => D::Unit,
            Some(x) => x.model(),
        }
    }
}
impl<T: Model> Model for Vec<T> {
    const HAS_NEWTYPE: bool = T::HAS_NEWTYPE;
    const KIND: &'static str = "seq";
    fn ty() -> String {
        format!("Vec<{}>", T::ty())
    }
    fn model(&self) -> D {
        D::Seq(self.iter().map(|x| x.model()).collect())
    }
}
impl<A: Model> Model for (A,) {
    const HAS_NEWTYPE: bool = A::HAS_NEWTYPE;
    const KIND: &'static str = "tuple";
    fn ty() -> String {
        format!("({},)", A::ty())
    }
    fn model(&self) -> D {
        D::Seq(vec![self.0.model()])
    }
}
impl<A: Model, B: Model> Model for (A, B) {
    const HAS_NEWTYPE: bool = A::HAS_NEWTYPE || B::HAS_NEWTYPE;
    const KIND: &'static str = "tuple";
    fn ty() -> String {
        format!("({}, {})", A::ty(), B::ty())
    }
    fn model(&self) -> D {
        D::Seq(vec![self.0.model(), self.1.model()])
    }
}
impl<A: Model, B: Model, C: Model> Model for (A, B, C) {
    const HAS_NEWTYPE: bool = A::HAS_NEWTYPE || B::HAS_NEWTYPE || C::HAS_NEWTYPE;
    const KIND: &'static str = "tuple";
    fn ty() -> String {
        format!("({}, {}, {})", A::ty(), B::ty(), C::ty())
    }
    fn model(&self) -> D {
        D::Seq(vec![self.0.model(), self.1.model(), self.2.model()])
    }
}
impl<K: KeyModel, T: Model + Serialize> Model for BTreeMap<K, T> {
    const HAS_NEWTYPE: bool = T::HAS_NEWTYPE;
    const KIND: &'static str = "map";
    fn ty() -> String {
        format!("BTreeMap<{}, {}>", K::kty(), T::ty())
    }
    fn model(&self) -> D {
        D::map(self.iter().map(|(k, v)| (k.key(), v.model())).collect())
    }
    fn insert_fields(&self, ctx: &mut Context) -> bool {
        for (k, v) in self {
            ctx.insert(k.key().text(), v);
        }
        true
    }
}
impl<K: KeyModel, T: Model + Serialize> Model for HashMap<K, T> {
    const HAS_NEWTYPE: bool = T::HAS_NEWTYPE;
    const KIND: &'static str = "map";
    fn ty() -> String {
        format!("HashMap<{}, {}>", K::kty(), T::ty())
    }
    fn model(&self) -> D {
        D::map(self.iter().map(|(k, v)| (k.key(), v.model())).collect())
    }
    fn insert_fields(&self, ctx: &mut Context) -> bool {
        for (k, v) in self {
            ctx.insert(k.key().text(), v);
        }
        true
    }
}

// ------------------------------------------------------------------------------------------
// Type-erased cases
// ------------------------------------------------------------------------------------------

enum De {
    Same,
    Differs(String),
    Err(String),
    Panic(String),
}

trait Case: Send + Sync {
    fn ty(&self) -> String;
    fn kind(&self) -> &'static str;
    fn has_newtype(&self) -> bool;
    fn show(&self) -> String;
    fn model(&self) -> D;
    fn ser(&self) -> Result<TeraResult<Value>, String>;
    fn de_ref(&self, v: &Value) -> Option<De>;
    fn de_owned(&self, v: Value) -> Option<De>;
    fn de_kwargs(&self, kw: &Kwargs) -> Option<De>;
    fn ctx_insert(&self, ctx: &mut Context) -> Result<(), String>;
    fn ctx_from_serialize(&self) -> Result<TeraResult<Context>, String>;
    fn ctx_fields(&self, ctx: &mut Context) -> Result<bool, String>;
}

trait SerFull: Model + Serialize + Debug + Send + Sync + 'static {}
impl<T: Model + Serialize + Debug + Send + Sync + 'static> SerFull for T {}
trait Full: SerFull + DeserializeOwned + PartialEq + Clone {}
impl<T: SerFull + DeserializeOwned + PartialEq + Clone> Full for T {}

fn judge<T: Model + PartialEq + Debug, Er: std::fmt::Display>(orig: &T, r: Result<Result<T, Er>, String>) -> De {
    match r {
        Err(p) => De::Panic(p),
        Ok(Err(e)) => De::Err(e.to_string()),
        Ok(Ok(back)) => {
            // `==` of the Rust type (skipped when the original is not even equal to itself: NaN),
            // and bit-exact equality of the data models (catches -0.0 vs 0.0, NaN payloads).
            #[allow(clippy::eq_op)]
            let reflexive = orig == orig;
            let eq = !reflexive || *orig == back;
            if eq && orig.model().biteq(&back.model()) { De::Same } else { De::Differs(format!("{back:?}")) }
        }
    }
}

struct Inst<T>(T);
struct SerOnly<T>(T);

impl<T: Full> Case for Inst<T> {
    fn ty(&self) -> String {
        T::ty()
    }
    fn kind(&self) -> &'static str {
        T::KIND
    }
    fn has_newtype(&self) -> bool {
        T::HAS_NEWTYPE
    }
    fn show(&self) -> String {
        format!("{:?}", self.0)
    }
    fn model(&self) -> D {
        self.0.model()
    }
    fn ser(&self) -> Result<TeraResult<Value>, String> {
        engine::guarded(|| Value::try_from_serializable(&self.0))
    }
    fn de_ref(&self, v: &Value) -> Option<De> {
        Some(judge(&self.0, engine::guarded(|| T::deserialize(v))))
    }
    fn de_owned(&self, v: Value) -> Option<De> {
        Some(judge(&self.0, engine::guarded(move || T::deserialize(v))))
    }
    fn de_kwargs(&self, kw: &Kwargs) -> Option<De> {
        Some(judge(&self.0, engine::guarded(|| kw.deserialize::<T>())))
    }
    fn ctx_insert(&self, ctx: &mut Context) -> Result<(), String> {
        engine::guarded(|| ctx.insert("v", &self.0))
    }
    fn ctx_from_serialize(&self) -> Result<TeraResult<Context>, String> {
        engine::guarded(|| Context::from_serialize(&self.0))
    }
    fn ctx_fields(&self, ctx: &mut Context) -> Result<bool, String> {
        engine::guarded(|| self.0.insert_fields(ctx))
    }
}

impl<T: SerFull> Case for SerOnly<T> {
    fn ty(&self) -> String {
        T::ty()
    }
    fn kind(&self) -> &'static str {
        T::KIND
    }
    fn has_newtype(&self) -> bool {
        T::HAS_NEWTYPE
    }
    fn show(&self) -> String {
        format!("{:?}", self.0)
    }
    fn model(&self) -> D {
        self.0.model()
    }
    fn ser(&self) -> Result<TeraResult<Value>, String> {
        engine::guarded(|| Value::try_from_serializable(&self.0))
    }
    fn de_ref(&self, _: &Value) -> Option<De> {
        None
    }
    fn de_owned(&self, _: Value) -> Option<De> {
        None
    }
    fn de_kwargs(&self, _: &Kwargs) -> Option<De> {
        None
    }
    fn ctx_insert(&self, ctx: &mut Context) -> Result<(), String> {
        engine::guarded(|| ctx.insert("v", &self.0))
    }
    fn ctx_from_serialize(&self) -> Result<TeraResult<Context>, String> {
        engine::guarded(|| Context::from_serialize(&self.0))
    }
    fn ctx_fields(&self, ctx: &mut Context) -> Result<bool, String> {
        engine::guarded(|| self.0.insert_fields(ctx))
    }
}

// ------------------------------------------------------------------------------------------
// Building the family: leaves, combinators, two levels
// ------------------------------------------------------------------------------------------

#[derive(Default)]
struct Cases {
    list: Vec<Box<dyn Case>>,
    types: u64,
}

/// Adds the values as instances of `T` (values with an identical data model are kept once).
fn l0<T: Full>(cs: &mut Cases, vals: Vec<T>) {
    let mut seen: Vec<D> = vec![];
    for v in vals {
        let d = v.model();
        if seen.iter().any(|s| s.biteq(&d)) {
            continue;
        }
        seen.push(d);
        cs.list.push(Box::new(Inst(v)));
    }
    cs.types += 1;
}

fn l0_ser<T: SerFull>(cs: &mut Cases, vals: Vec<T>) {
    let mut seen: Vec<D> = vec![];
    for v in vals {
        let d = v.model();
        if seen.iter().any(|s| s.biteq(&d)) {
            continue;
        }
        seen.push(d);
        cs.list.push(Box::new(SerOnly(v)));
    }
    cs.types += 1;
}

struct Keys {
    string: Vec<String>,
    strs: Vec<&'static str>,
    ch: Vec<char>,
    bo: Vec<bool>,
    u8: Vec<u8>,
    /// the narrow and pointer-sized widths: the key serializer has one forwarder per width (seeded
    /// change C19-11 sent i16 keys through the unsigned one)
    i8: Vec<i8>,
    i16: Vec<i16>,
    i32: Vec<i32>,
    isize: Vec<isize>,
    u16: Vec<u16>,
    u32: Vec<u32>,
    usize: Vec<usize>,
    i64: Vec<i64>,
    u64: Vec<u64>,
    i128: Vec<i128>,
    u128: Vec<u128>,
    ue: Vec<UE>,
}

fn keys() -> Keys {
    let strs = vec!["b", "a", "é", "", "k 1", "true", "1", "Z", "abcdefghijklmnopqrstuv", "a\"b"];
    Keys {
        string: strs.iter().map(|s| s.to_string()).collect(),
        strs,
        ch: vec!['b', 'a', 'é', '😀', '"', 'Z', '1'],
        bo: vec![true, false],
        u8: vec![1, 0, u8::MAX, 10, 9],
        i8: vec![1, -1, 0, i8::MAX, i8::MIN, 10, 9],
        i16: vec![1, -1, 0, i16::MAX, i16::MIN, 10, 9],
        i32: vec![1, -1, 0, i32::MAX, i32::MIN, 10, 9],
        isize: vec![1, -1, 0, isize::MAX, isize::MIN, 10, 9],
        u16: vec![1, 0, u16::MAX, 10, 9],
        u32: vec![1, 0, u32::MAX, 10, 9],
        usize: vec![1, 0, usize::MAX, 10, 9],
        i64: vec![1, -1, 0, i64::MAX, i64::MIN, 10, 9],
        u64: vec![1, 0, u64::MAX, i64::MAX as u64 + 1, 10, 9],
        i128: vec![1, -1, 0, i128::MAX, i128::MIN, u64::MAX as i128 + 1, 10, 9],
        u128: vec![1, 0, u128::MAX, i128::MAX as u128 + 1, 10, 9],
        ue: vec![UE::Zed, UE::B, UE::A],
    }
}

/// thorough tier: containers are built around *every* value of the list, not only first / last
static RICH: std::sync::atomic::AtomicBool = std::sync::atomic::AtomicBool::new(false);
fn rich() -> bool {
    RICH.load(std::sync::atomic::Ordering::Relaxed)
}
/// first and last value (quick), every value (thorough)
fn picks<T: Clone>(v: &[T]) -> Vec<T> {
    if rich() || v.len() <= 2 { v.to_vec() } else { vec![v[0].clone(), v[v.len() - 1].clone()] }
}

fn mk_option<T: Clone>(v: &[T]) -> Vec<Option<T>> {
    let mut out = vec![None];
    out.extend(v.iter().cloned().map(Some));
    out
}
fn mk_vec<T: Clone>(v: &[T]) -> Vec<Vec<T>> {
    let mut out = vec![vec![]];
    out.extend(picks(v).into_iter().map(|x| vec![x]));
    out.push(v.to_vec());
    out.push(vec![v[v.len() - 1].clone(), v[0].clone()]);
    out
}
fn mk_t1<T: Clone>(v: &[T]) -> Vec<(T,)> {
    picks(v).into_iter().map(|x| (x,)).collect()
}
fn mk_t2<T: Clone>(v: &[T]) -> Vec<(T, T)> {
    let p = picks(v);
    (0..p.len()).map(|i| (p[i].clone(), p[(i + 1) % p.len()].clone())).collect()
}
fn mk_t3<T: Clone>(v: &[T]) -> Vec<(T, bool, T)> {
    let p = picks(v);
    (0..p.len()).map(|i| (p[i].clone(), i % 2 == 0, p[(i + p.len() / 2) % p.len()].clone())).collect()
}
/// {}, one-entry maps, and one map using every key of the kind (values cycle).
fn mk_entries<K: Clone, T: Clone>(keys: &[K], v: &[T]) -> Vec<Vec<(K, T)>> {
    let mut out = vec![vec![]];
    for (i, x) in picks(v).into_iter().enumerate() {
        out.push(vec![(keys[i % keys.len()].clone(), x)]);
    }
    out.push(keys.iter().enumerate().map(|(i, k)| (k.clone(), v[(i + 1) % v.len()].clone())).collect());
    out
}
fn mk_map<K: Clone + Ord, T: Clone>(keys: &[K], v: &[T]) -> Vec<BTreeMap<K, T>> {
    mk_entries(keys, v).into_iter().map(|e| e.into_iter().collect()).collect()
}
fn mk_hmap<K: Clone + Hash + Eq, T: Clone>(keys: &[K], v: &[T]) -> Vec<HashMap<K, T>> {
    mk_entries(keys, v).into_iter().map(|e| e.into_iter().collect()).collect()
}
fn mk_n<T: Clone>(v: &[T]) -> Vec<N<T>> {
    v.iter().cloned().map(N).collect()
}
fn mk_ts<T: Clone>(v: &[T]) -> Vec<TS<T>> {
    picks(v).into_iter().enumerate().map(|(i, x)| TS(x, if i % 2 == 0 { -1 } else { i64::MAX })).collect()
}
fn mk_s<T: Clone>(v: &[T]) -> Vec<S<T>> {
    picks(v)
        .into_iter()
        .enumerate()
        .map(|(i, x)| if i % 2 == 0 { S { a: x, n: 0, s: String::new() } } else { S { a: x, n: 255, s: "x\"y".into() } })
        .collect()
}
fn mk_so<T: Clone>(v: &[T]) -> Vec<SO<T>> {
    let mut out = vec![SO { o: None, b: v[0].clone() }];
    out.extend(picks(v).into_iter().rev().map(|x| SO { o: Some(x), b: v[0].clone() }));
    out
}
fn mk_e<T: Clone>(v: &[T]) -> Vec<E<T>> {
    let mut out = vec![E::Unit];
    out.extend(v.iter().cloned().map(E::New));
    for (i, x) in picks(v).into_iter().enumerate() {
        if i % 2 == 0 {
            out.push(E::Tup(x, 255));
        } else {
            out.push(E::Rec { x, y: true });
        }
    }
    if v.len() == 1 {
        out.push(E::Rec { x: v[0].clone(), y: false });
    }
    out.extend([E::Empty {}, E::Nil(), E::Opt { note: None }, E::Opt { note: Some(7) }]);
    out
}

/// Every combinator of the family applied once to `T`.
fn l1<T: Full>(cs: &mut Cases, v: &[T], k: &Keys) {
    if !T::NULLABLE {
        l0(cs, mk_option(v));
        l0(cs, mk_so(v));
    }
    l0(cs, mk_vec(v));
    l0(cs, mk_t1(v));
    l0(cs, mk_t2(v));
    l0(cs, mk_t3(v));
    l0(cs, mk_map(&k.string, v));
    l0(cs, mk_hmap(&k.string, v));
    l0_ser(cs, mk_map(&k.strs, v));
    l0(cs, mk_map(&k.ch, v));
    l0(cs, mk_map(&k.bo, v));
    l0(cs, mk_map(&k.u8, v));
    l0(cs, mk_map(&k.i8, v));
    l0(cs, mk_map(&k.i16, v));
    l0(cs, mk_map(&k.i32, v));
    l0(cs, mk_map(&k.isize, v));
    l0(cs, mk_map(&k.u16, v));
    l0(cs, mk_map(&k.u32, v));
    l0(cs, mk_map(&k.usize, v));
    l0(cs, mk_hmap(&k.i16, v));
    l0(cs, mk_map(&k.i64, v));
    l0(cs, mk_map(&k.u64, v));
    l0(cs, mk_map(&k.i128, v));
    l0(cs, mk_map(&k.u128, v));
    l0(cs, mk_map(&k.ue, v));
    l0(cs, mk_hmap(&k.i64, v));
    l0(cs, mk_hmap(&k.ue, v));
    l0(cs, mk_n(v));
    l0(cs, mk_ts(v));
    l0(cs, mk_s(v));
    l0(cs, mk_e(v));
}

/// The reduced combinator set used for the leaves that differ from a fully covered leaf only in
/// their width (the bridge treats every position the same for all of them): one combinator per
/// deserializer position (option, sequence element, map value, newtype struct, the four variant
/// shapes — a newtype variant hands its payload to the owned `Value` deserializer).
fn l1_min<T: Full>(cs: &mut Cases, v: &[T], k: &Keys) {
    if !T::NULLABLE {
        l0(cs, mk_option(v));
    }
    l0(cs, mk_vec(v));
    l0(cs, mk_map(&k.string, v));
    l0(cs, mk_n(v));
    l0(cs, mk_e(v));
}

/// The outer combinators of the second level (one map per key-serializer family).
fn l1_outer<T: Full>(cs: &mut Cases, v: &[T], k: &Keys) {
    if !T::NULLABLE {
        l0(cs, mk_option(v));
        l0(cs, mk_so(v));
    }
    l0(cs, mk_vec(v));
    l0(cs, mk_t2(v));
    l0(cs, mk_map(&k.string, v));
    l0(cs, mk_map(&k.u64, v));
    l0(cs, mk_hmap(&k.ue, v));
    l0(cs, mk_n(v));
    l0(cs, mk_ts(v));
    l0(cs, mk_s(v));
    l0(cs, mk_e(v));
}

/// Second level: the core combinators applied to `T`, and the outer combinators applied to the result.
fn l2<T: Full>(cs: &mut Cases, v: &[T], k: &Keys) {
    if !T::NULLABLE {
        l1_outer(cs, &mk_option(v), k);
    }
    l1_outer(cs, &mk_vec(v), k);
    l1_outer(cs, &mk_t2(v), k);
    l1_outer(cs, &mk_map(&k.string, v), k);
    l1_outer(cs, &mk_hmap(&k.i64, v), k);
    l1_outer(cs, &mk_n(v), k);
    l1_outer(cs, &mk_s(v), k);
    l1_outer(cs, &mk_e(v), k);
}

/// Second level for the remaining leaves: {Option, Vec, E} inside {Vec, map, N, E}.
fn l2_min<T: Full>(cs: &mut Cases, v: &[T], k: &Keys) {
    if !T::NULLABLE {
        l1_min(cs, &mk_option(v), k);
    }
    l1_min(cs, &mk_vec(v), k);
    l1_min(cs, &mk_e(v), k);
}

macro_rules! int_vals {
    ($t:ty, $thorough:expr, [$($extra:expr),*]) => {{
        let mut v: Vec<$t> = vec![<$t>::MIN, 0, 1, <$t>::MAX];
        let signed = <$t>::MIN != 0;
        if signed {
            v.insert(1, (0 as $t).wrapping_sub(1));
        }
        if $thorough {
            let extra: Vec<$t> = vec![$($extra as $t),*];
            v.extend(extra);
            v.extend([<$t>::MAX - 1, <$t>::MIN + 1, 2, 10, 100]);
        }
        v
    }};
}

fn build_cases(thorough: bool) -> Cases {
    let mut cs = Cases::default();
    let k = keys();
    let t = thorough;
    RICH.store(thorough, std::sync::atomic::Ordering::Relaxed);

    let bools = vec![false, true];
    let i8s = int_vals!(i8, t, []);
    let i16s = int_vals!(i16, t, [i8::MIN as i16 - 1, i8::MAX as i16 + 1, u8::MAX as i16 + 1]);
    let i32s = int_vals!(i32, t, [i16::MIN as i32 - 1, u16::MAX as i32 + 1]);
    let i64s = int_vals!(i64, t, [i32::MIN as i64 - 1, u32::MAX as i64 + 1, 1i64 << 53, (1i64 << 53) + 1, -(1i64 << 53) - 1]);
    let i128s = int_vals!(i128, t, [i64::MIN as i128 - 1, i64::MAX as i128 + 1, u64::MAX as i128, u64::MAX as i128 + 1, (1i128 << 53) + 1]);
    let isizes = int_vals!(isize, t, []);
    let u8s = int_vals!(u8, t, [127, 128]);
    let u16s = int_vals!(u16, t, [255, 256, i16::MAX as u16 + 1]);
    let u32s = int_vals!(u32, t, [u16::MAX as u32 + 1, i32::MAX as u32 + 1]);
    let u64s = int_vals!(u64, t, [u32::MAX as u64 + 1, i64::MAX as u64, i64::MAX as u64 + 1, (1u64 << 53) + 1]);
    let u128s = int_vals!(u128, t, [u64::MAX as u128, u64::MAX as u128 + 1, i128::MAX as u128, i128::MAX as u128 + 1]);
    let usizes = int_vals!(usize, t, []);
    let mut f32s = vec![0.0f32, -0.0, 1.5, f32::MIN_POSITIVE, f32::MAX, f32::INFINITY, f32::NEG_INFINITY, f32::NAN];
    let mut f64s = vec![0.0f64, -0.0, 1.5, f64::MIN_POSITIVE, f64::MAX, f64::INFINITY, f64::NEG_INFINITY, f64::NAN];
    let mut chars = vec!['a', 'é', '😀', '"'];
    let mut strings: Vec<String> = ["", "a", "é", "a\"b"].iter().map(|s| s.to_string()).collect();
    if t {
        f32s.extend([f32::MIN, f32::EPSILON, 0.1, 1e-45, -1.5, 16777216.0, 1.0, 3.0e38]);
        f64s.extend([f64::MIN, f64::EPSILON, 0.1, 5e-324, -1.5, 9007199254740992.0, 9007199254740993.0, 1e300, 1.0, 1e15, 1e16, 1e-7]);
        chars.extend(['\0', '\n', '\\', '\u{10ffff}', '\u{301}', ' ', '\'', '{']);
        strings.extend(
            ["abcdefghijklmnopqrstu", "abcdefghijklmnopqrstuv", "ééééééééééé", "<&>", "{{ x }}", "\n", "true", "1", "\\", "a\u{301}", "\0"]
                .iter()
                .map(|s| s.to_string()),
        );
    }
    let units = vec![()];
    let ustructs = vec![U];
    let ues = vec![UE::A, UE::B, UE::Zed];

    macro_rules! leaf {
        ($v:expr) => {{
            l0(&mut cs, $v.clone());
            l1(&mut cs, &$v, &k);
        }};
    }
    macro_rules! leaf_min {
        ($v:expr) => {{
            l0(&mut cs, $v.clone());
            l1_min(&mut cs, &$v, &k);
        }};
    }
    leaf!(i64s);
    leaf!(u64s);
    leaf!(i128s);
    leaf!(u128s);
    leaf!(f64s);
    leaf!(strings);
    leaf!(units);
    leaf!(ues);
    leaf_min!(bools);
    leaf_min!(i8s);
    leaf_min!(i16s);
    leaf_min!(i32s);
    leaf_min!(isizes);
    leaf_min!(u8s);
    leaf_min!(u16s);
    leaf_min!(u32s);
    leaf_min!(usizes);
    leaf_min!(f32s);
    leaf_min!(chars);
    leaf_min!(ustructs);

    // second level over the leaves whose encodings differ most: an integer that needs u64, text;
    // a reduced second level for the boxed 128-bit encoding, a float, a variant name, none
    l2(&mut cs, &[0u64, u64::MAX, i64::MAX as u64 + 1], &k);
    l2(&mut cs, &["".to_string(), "a\"b".to_string(), "é".to_string()], &k);
    l2_min(&mut cs, &[i128::MIN, -1, i128::MAX], &k);
    l2_min(&mut cs, &[-0.0f64, 1.5, f64::NAN], &k);
    l2_min(&mut cs, &[UE::B, UE::Zed], &k);
    l2_min(&mut cs, &[()], &k);

    // hand-picked deeper shapes: a newtype around a sequence whose first element looks like the
    // whole (a visitor that falls back to visit_seq would silently return that element)
    l0(&mut cs, vec![N(vec![vec![], vec![1i64]]), N(vec![vec![1i64], vec![]]), N(vec![])]);
    l0(&mut cs, vec![N(N(u64::MAX)), N(N(0))]);
    l0(&mut cs, vec![N(Some(E::New(N(1u8)))), N(Some(E::Unit)), N(None)]);
    l0(&mut cs, vec![E::New(E::New(E::Rec { x: u128::MAX, y: false })), E::New(E::Unit), E::Tup(E::Tup(E::Unit, 1), 2)]);
    l0(
        &mut cs,
        vec![
            BTreeMap::from([(1u8, BTreeMap::from([(UE::B, vec![S { a: Some('é'), n: 1, s: "s".into() }])]))]),
            BTreeMap::new(),
        ],
    );
    // an 8-entry and a 7-entry struct-like map (both sides of the attribute scan cut-over)
    l0(
        &mut cs,
        vec![
            (0..8).map(|i| (format!("k{i}"), i as i64)).collect::<BTreeMap<String, i64>>(),
            (0..7).map(|i| (format!("k{i}"), i as i64)).collect::<BTreeMap<String, i64>>(),
        ],
    );
    cs
}

// ------------------------------------------------------------------------------------------
// Unsupported map keys
// ------------------------------------------------------------------------------------------

/// A map with (optionally) a good entry before and after one entry whose key is `K`.
struct Entries<'a, K> {
    before: bool,
    key: &'a K,
    after: bool,
}
impl<K: Serialize> Serialize for Entries<'_, K> {
    fn serialize<Se: serde::Serializer>(&self, s: Se) -> Result<Se::Ok, Se::Error> {
        let mut m = s.serialize_map(None)?;
        if self.before {
            m.serialize_entry("a", &1)?;
        }
        m.serialize_entry(self.key, &2)?;
        if self.after {
            m.serialize_entry("z", &3)?;
        }
        m.end()
    }
}
struct BytesKey(&'static [u8]);
impl Serialize for BytesKey {
    fn serialize<Se: serde::Serializer>(&self, s: Se) -> Result<Se::Ok, Se::Error> {
        s.serialize_bytes(self.0)
    }
}
#[derive(Serialize)]
struct Holder<T> {
    f: T,
}
#[derive(Serialize)]
enum HolderE<T> {
    V(T),
}

/// What must happen to a key.
#[derive(Clone, Copy, PartialEq)]
enum KeyRule {
    /// not a string, integer or bool: must be refused
    Refuse,
    /// a supported key behind a transparent wrapper (`Some(k)`, newtype struct): serde bridges
    /// customarily look through these; accepted as key `k` or refused, never anything else
    Transparent,
}

trait BadCase: Send + Sync {
    fn name(&self) -> &str;
    fn rule(&self) -> KeyRule;
    /// (position/nesting label, result of try_from_serializable, result of Context::from_serialize)
    fn run(&self, variant: usize) -> (String, Result<TeraResult<Value>, String>, Option<Result<TeraResult<Context>, String>>);
}

const BAD_VARIANTS: usize = 10;

struct Bad<K> {
    name: String,
    rule: KeyRule,
    key: K,
}

impl<K: Serialize + Send + Sync> BadCase for Bad<K> {
    fn name(&self) -> &str {
        &self.name
    }
    fn rule(&self) -> KeyRule {
        self.rule
    }
    fn run(&self, variant: usize) -> (String, Result<TeraResult<Value>, String>, Option<Result<TeraResult<Context>, String>>) {
        let e = |before, after| Entries { before, key: &self.key, after };
        fn both<T: Serialize>(label: &str, t: T, ctx: bool) -> (String, Result<TeraResult<Value>, String>, Option<Result<TeraResult<Context>, String>>) {
            (
                label.to_string(),
                engine::guarded(|| Value::try_from_serializable(&t)),
                if ctx { Some(engine::guarded(|| Context::from_serialize(&t))) } else { None },
            )
        }
        match variant {
            0 => both("only entry", e(false, false), true),
            1 => both("after a good entry", e(true, false), true),
            2 => both("before a good entry", e(false, true), true),
            3 => both("between good entries", e(true, true), true),
            4 => both("map inside Vec", vec![e(false, false)], false),
            5 => both("map inside Some", Some(e(true, false)), true),
            6 => both("map inside a tuple", (1, e(false, false)), false),
            7 => both("map as struct field", Holder { f: e(false, true) }, true),
            8 => both("map as newtype variant payload", HolderE::V(e(false, false)), true),
            _ => both("map as value of a string-keyed map", BTreeMap::from([("m", e(false, false))]), true),
        }
    }
}

fn bad_keys() -> Vec<Box<dyn BadCase>> {
    let mut v: Vec<Box<dyn BadCase>> = vec![];
    macro_rules! bad {
        ($name:expr, $key:expr) => {
            v.push(Box::new(Bad { name: $name.to_string(), rule: KeyRule::Refuse, key: $key }))
        };
    }
    macro_rules! transparent {
        ($name:expr, $key:expr) => {
            v.push(Box::new(Bad { name: $name.to_string(), rule: KeyRule::Transparent, key: $key }))
        };
    }
    bad!("f64 1.5", 1.5f64);
    bad!("f64 1.0 (integral)", 1.0f64);
    bad!("f64 NaN", f64::NAN);
    bad!("f32 0.0", 0.0f32);
    bad!("newtype struct around f64", N(1.5f64));
    bad!("Some(f64)", Some(2.5f64));
    bad!("tuple (1, 2)", (1i32, 2i32));
    bad!("1-tuple (\"a\",)", ("a",));
    bad!("Vec [1]", vec![1u8]);
    bad!("empty Vec", Vec::<u8>::new());
    bad!("Option::None", None::<i32>);
    bad!("unit ()", ());
    bad!("unit struct", U);
    bad!("Some(())", Some(()));
    bad!("bytes b\"ab\"", BytesKey(b"ab"));
    bad!("empty bytes", BytesKey(b""));
    bad!("nested map", BTreeMap::from([("k".to_string(), 1i32)]));
    bad!("empty map", BTreeMap::<String, i32>::new());
    bad!("struct with fields", S { a: 1u8, n: 2, s: "x".into() });
    bad!("tuple struct", TS(1u8, 2));
    bad!("newtype variant", E::New(1u8));
    bad!("tuple variant", E::Tup(1u8, 2));
    bad!("struct variant", E::Rec { x: 1u8, y: true });
    bad!("struct variant without fields", E::<u8>::Empty {});
    bad!("tuple variant without elements", E::<u8>::Nil());
    transparent!("Some(5i64)", Some(5i64));
    transparent!("Some('c')", Some('c'));
    transparent!("newtype struct around u64::MAX", N(u64::MAX));
    transparent!("newtype struct around String", N("x".to_string()));
    transparent!("Some(true)", Some(true));
    v
}

// ------------------------------------------------------------------------------------------
// Judging one instance
// ------------------------------------------------------------------------------------------

fn is_plain_ident(s: &str) -> bool {
    const RESERVED: [&str; 14] =
        ["true", "false", "none", "not", "and", "or", "in", "is", "if", "else", "for", "loop", "True", "False"];
    !s.is_empty()
        && s.chars().all(|c| c.is_ascii_alphanumeric() || c == '_')
        && !s.chars().next().unwrap().is_ascii_digit()
        && !RESERVED.contains(&s)
        && !s.starts_with("__")
}

fn de_signature(path: &str, c: &dyn Case, de: &De) -> String {
    let class = match path {
        "owned" => {
            if c.has_newtype() { "de:newtype-struct".to_string() } else { format!("de-owned:{}", c.kind()) }
        }
        p => {
            let p = if p == "ref" { "de-ref" } else { "de-kwargs" };
            match c.kind() {
                "option" => format!("{p}:option"),
                "enum" => format!("{p}:enum"),
                _ if c.has_newtype() => format!("{p}:newtype-struct"),
                k => format!("{p}:{k}"),
            }
        }
    };
    match de {
        De::Differs(_) => format!("{class}:altered"),
        De::Panic(_) => format!("{class}:panic"),
        _ => class,
    }
}

fn run_instance(c: &dyn Case, tera: &Tera, acc: &mut Acc, want_sample: bool) {
    let d = c.model();
    let case = |extra: &str| json!({"type": c.ty(), "value": c.show(), "data_model": d.describe(), "step": extra});
    let kind = c.kind();
    acc.count(&format!("kind:{kind}"), 1);
    let mut feats = Features::default();
    d.contains_nan_or_big(&mut feats);
    for (name, on) in [
        ("feature:nan", feats.nan),
        ("feature:negative-zero", feats.neg_zero),
        ("feature:integer-outside-i64", feats.above_i64),
        ("feature:map-with-2+-entries", feats.multi_map),
        ("feature:non-string-key", feats.non_string_key),
        ("feature:string-needing-quotes-escapes", feats.quoted),
    ] {
        if on {
            acc.count(name, 1);
        }
    }
    let nontrivial = !matches!(d, D::Unit);

    // 1. conversion
    let v = match c.ser() {
        Err(p) => {
            acc.violation(format!("ser-panic:{kind}"), format!("try_from_serializable panicked: {p}"), || case("serialize"));
            acc.case(nontrivial, "ser-panic");
            return;
        }
        Ok(Err(e)) => {
            acc.violation(
                format!("ser-refused:{kind}"),
                format!("try_from_serializable refused a representable value: {e}"),
                || case("serialize"),
            );
            acc.case(nontrivial, "ser-refused");
            return;
        }
        Ok(Ok(v)) => v,
    };

    // 2. representation
    if let Err(why) = repr_matches(&v, &d, "v") {
        acc.violation(format!("repr-mismatch:{kind}"), format!("the converted value does not represent the data: {why}"), || {
            case("representation")
        });
    }

    // 2b. the Value's own Serialize impl (and Key's) fed back through the bridge is the identity
    match engine::guarded(|| Value::try_from_serializable(&v)) {
        Ok(Ok(v2)) => {
            if let Err(why) = repr_matches(&v2, &d, "v") {
                acc.violation(
                    format!("reserialize-mismatch:{kind}"),
                    format!("serializing the converted Value again no longer represents the data: {why}"),
                    || case("Value as Serialize"),
                );
            }
        }
        Ok(Err(e)) => acc.violation(format!("reserialize-refused:{kind}"), format!("the converted Value cannot be serialized again: {e}"), || {
            case("Value as Serialize")
        }),
        Err(p) => acc.violation(format!("reserialize-panic:{kind}"), format!("serializing the converted Value panicked: {p}"), || {
            case("Value as Serialize")
        }),
    }

    // 3. reading back
    let mut all_same = true;
    let mut ser_only = true;
    for (path, de) in [("ref", c.de_ref(&v)), ("owned", c.de_owned(v.clone()))] {
        let Some(de) = de else { continue };
        ser_only = false;
        if !matches!(de, De::Same) {
            all_same = false;
            let msg = match &de {
                De::Differs(b) => format!("read back a different value: {b}"),
                De::Err(e) => format!("refused: {e}"),
                De::Panic(p) => format!("panicked: {p}"),
                De::Same => unreachable!(),
            };
            let how = if path == "ref" { "T::deserialize(&value)" } else { "T::deserialize(value)" };
            acc.violation(de_signature(path, c, &de), format!("{how} {msg}"), || case(how));
        }
    }
    if !ser_only
        && matches!(d, D::Map(_))
        && let Some(m) = v.as_map()
    {
        let kw = Kwargs::new(Arc::new(m.clone()));
        if let Some(de) = c.de_kwargs(&kw)
            && !matches!(de, De::Same)
        {
            all_same = false;
            let msg = match &de {
                De::Differs(b) => format!("read back a different value: {b}"),
                De::Err(e) => format!("refused: {e}"),
                De::Panic(p) => format!("panicked: {p}"),
                De::Same => unreachable!(),
            };
            acc.violation(de_signature("kwargs", c, &de), format!("Kwargs::deserialize {msg}"), || case("Kwargs::deserialize"));
        }
        acc.count("kwargs-deserialize", 1);
    }

    // 4. printing
    let want = print_top(&d);
    let mut ctx_value = Context::new();
    ctx_value.insert_value("v", v.clone());
    let out = engine::render_str(tera, "{{ v }}", &ctx_value, false);
    if out.ok() != Some(want.as_str()) {
        acc.violation(
            format!("print-mismatch:{kind}"),
            format!("`{{{{ v }}}}` gave {}, the data prints as {want:?}", out.show()),
            || case("{{ v }} with insert_value"),
        );
    }

    // 5. insert vs insert_value
    let mut ctx_insert = Context::new();
    match c.ctx_insert(&mut ctx_insert) {
        Err(p) => acc.violation(format!("ctx-insert-panic:{kind}"), format!("Context::insert panicked: {p}"), || case("Context::insert")),
        Ok(()) => {
            let out2 = engine::render_str(tera, "{{ v }}", &ctx_insert, false);
            if out2 != out || ctx_insert != ctx_value {
                acc.violation(
                    format!("ctx-insert-vs-insert_value:{kind}"),
                    format!("insert renders {}, insert_value of the converted value renders {}; contexts equal: {}", out2.show(), out.show(), ctx_insert == ctx_value),
                    || case("Context::insert vs insert_value"),
                );
            }
        }
    }

    // 6. from_serialize vs per-field insert vs per-field insert_value
    let fs = c.ctx_from_serialize();
    match (&d, fs) {
        (_, Err(p)) => acc.violation(format!("ctx-from_serialize-panic:{kind}"), format!("Context::from_serialize panicked: {p}"), || {
            case("Context::from_serialize")
        }),
        (D::Map(fields), Ok(Ok(ctx_fs))) => {
            acc.count("from_serialize-compared", 1);
            // (c) insert_value per field of the converted value
            let mut ctx_iv = Context::new();
            for (dk, _) in fields {
                if let Some((_, fv)) = v.as_map().and_then(|m| m.iter().find(|(k, _)| key_matches(k, dk))) {
                    ctx_iv.insert_value(dk.text(), fv.clone());
                }
            }
            // (b) insert per field from the Rust value
            let mut ctx_pf = Context::new();
            let have_pf = match c.ctx_fields(&mut ctx_pf) {
                Ok(b) => b,
                Err(p) => {
                    acc.violation(format!("ctx-insert-panic:{kind}"), format!("Context::insert of a field panicked: {p}"), || case("insert per field"));
                    false
                }
            };
            if have_pf {
                acc.count("per-field-insert-compared", 1);
            }
            if ctx_fs != ctx_iv || (have_pf && ctx_fs != ctx_pf) {
                acc.violation(
                    format!("ctx-paths-differ:{kind}"),
                    format!(
                        "contexts differ: from_serialize == insert_value-per-field: {}, from_serialize == insert-per-field: {}",
                        ctx_fs == ctx_iv,
                        !have_pf || ctx_fs == ctx_pf
                    ),
                    || case("from_serialize vs insert vs insert_value"),
                );
            }
            for (dk, dv) in fields {
                let name = dk.text();
                let want = print_top(dv);
                let mut ctxs: Vec<(&str, &Context)> = vec![("from_serialize", &ctx_fs), ("insert_value", &ctx_iv)];
                if have_pf {
                    ctxs.push(("insert", &ctx_pf));
                }
                for (how, cx) in ctxs {
                    // through the variable itself when the name can be written in a template,
                    // otherwise through the stored value re-bound as `v`
                    let out = if is_plain_ident(&name) {
                        engine::render_str(tera, &format!("{{{{ {name} }}}}"), cx, false)
                    } else {
                        match cx.get(&name) {
                            Some(fv) => {
                                let mut c2 = Context::new();
                                c2.insert_value("v", fv.clone());
                                engine::render_str(tera, "{{ v }}", &c2, false)
                            }
                            None => engine::Out::Err("absent".into(), format!("context has no variable {name:?}")),
                        }
                    };
                    if out.ok() != Some(want.as_str()) {
                        acc.violation(
                            format!("ctx-field-print:{how}:{kind}"),
                            format!("field {name:?} through {how} renders {}, the data prints as {want:?}", out.show()),
                            || case(&format!("field {name:?} through {how}")),
                        );
                    }
                }
            }
        }
        (D::Map(_), Ok(Err(e))) => acc.violation(
            format!("ctx-from_serialize-refused:{kind}"),
            format!("Context::from_serialize refused a struct / map: {e}"),
            || case("Context::from_serialize"),
        ),
        (_, Ok(Ok(_))) => acc.violation(
            format!("ctx-from_serialize-accepted-non-map:{kind}"),
            "Context::from_serialize accepted a value that is neither a struct nor a map (documented to be an error)",
            || case("Context::from_serialize"),
        ),
        (_, Ok(Err(_))) => {}
    }

    acc.case(
        nontrivial,
        if ser_only {
            "serialize-only-ok"
        } else if all_same {
            "roundtrip-ok"
        } else {
            "roundtrip-failed"
        },
    );
    if want_sample {
        acc.sample(|| json!({"type": c.ty(), "value": c.show(), "data_model": d.describe(), "prints": want}));
    }
}

fn main() {
    let mut run = Run::from_env("C19", "exploration");
    // the full bounds cost only a few seconds: both tiers run them
    let thorough = true;
    run.rule(
        "instances: a compile-time family of serde types (leaves x every combinator, a second level of core combinators x every \
         combinator, hand-picked deeper shapes) x boundary values; one case per (type, value) instance, values with the same data \
         model are kept once per type so cases are distinct by construction; non-trivial = the value does not convert to `none` \
         (unit / None / unit struct at top level reach neither the printer nor a visitor other than visit_unit). \
         bad-keys: one case per (unsupported key kind, position / nesting of the offending entry); all non-trivial (each reaches the key serializer).",
    );
    run.assume("the type family is fixed at compile time; serde attributes other than `rename`, internally / adjacently tagged and untagged enums, flatten, borrowed deserialization (&str, &[u8]) and byte buffers are outside it");
    run.assume("Option<Option<T>> and Option<()>-like payloads (an option directly around something that converts to none) are excluded by the statement and never generated");
    run.assume("serde / serde_derive (the Serialize / Deserialize impls of the family and of std types) are trusted; the data model and printer are hand-written per type and never call the bridge");
    run.assume("display format pinned from Value::format / format_map: none prints nothing, floats print like Rust's {:?} of the f64 (an f32 is widened first), strings are Rust-{:?}-quoted inside containers");

    let cases = build_cases(thorough);
    let n = cases.list.len() as u64;
    run.extra("instance_count", json!(n));
    run.extra("types_in_family", json!(cases.types));
    run.extra(
        "alphabets",
        json!({
            "leaves": "bool, i8..i128, isize, u8..u128, usize (MIN, -1, 0, 1, MAX; thorough adds the boundaries of every narrower width +-1, 2^53+1), f32/f64 (+-0, 1.5, MIN_POSITIVE, MAX, +-inf, NaN; thorough adds MIN, EPSILON, 0.1, smallest subnormal, 2^53+-1, 1e15/1e16/1e-7/1e300), char (a é 😀 \"; thorough adds NUL, newline, backslash, U+10FFFF, U+0301, space, ', {), String (\"\", a, é, a\"b; thorough adds 21/22-byte, multibyte 22-byte, <&>, {{ x }}, newline, true, 1, backslash, combining, NUL), (), unit struct U, unit-variant enum UE (one variant renamed to \"b c\")",
            "combinators": "Option, SO{o: Option<T>, b: T}, Vec, (T,), (T,T), (T,bool,T), BTreeMap<K,T> for K in {String, &str (serialize only), char, bool, every integer width i8..i128, isize, u8..u128, usize, UE}, HashMap<K,T> for K in {String, char, bool, i64, u128, UE}, newtype N(T), tuple struct TS(T,i64), struct S{a,n,s}, enum E{Unit, New(T), Tup(T,u8), Rec{x,y}, Empty{}, Nil(), Opt{note: Option<u8> skipped when None}}",
            "second_level": "core combinators {Option, Vec, (T,T), BTreeMap<String,_>, HashMap<i64,_>, N, S, E} over leaves {u64, i128, String, f64, UE, ()} x every combinator",
            "unsupported_keys": "f64 (1.5, 1.0, NaN), f32, N(f64), Some(f64), tuples, Vec, None, (), unit struct, Some(()), bytes, maps, struct, tuple struct, newtype / tuple / struct variants; transparent wrappers Some(k), N(k) around supported keys are accepted-or-refused",
        }),
    );

    let tera = Tera::default();

    run.family(
        Family::new(
            "instances",
            n,
            &format!("all {n} (type, value) instances of the {} types of the family (nesting <= 2 combinators + hand-picked depth 3..5)", cases.types),
        )
        .describe(|i| json!({"type": cases.list[i as usize].ty(), "value": cases.list[i as usize].show()})),
        |item, acc: &mut Acc| {
            let c = &cases.list[item as usize];
            run_instance(c.as_ref(), &tera, acc, item % 97 == 5);
        },
    );

    let bads = bad_keys();
    let nb = bads.len() as u64 * BAD_VARIANTS as u64;
    run.family(
        Family::new(
            "bad-keys",
            nb,
            &format!("{} unsupported / wrapped key kinds x {BAD_VARIANTS} positions and nestings of the offending entry", bads.len()),
        ),
        |item, acc: &mut Acc| {
            let b = &bads[(item / BAD_VARIANTS as u64) as usize];
            let variant = (item % BAD_VARIANTS as u64) as usize;
            let (label, r, rc) = b.run(variant);
            let case = || json!({"key": b.name(), "position": label});
            let outcome = match (&r, b.rule()) {
                (Err(p), _) => {
                    acc.violation("badkey-panic", format!("try_from_serializable panicked: {p}"), case);
                    "panic"
                }
                (Ok(Err(_)), _) => "refused",
                (Ok(Ok(v)), KeyRule::Refuse) => {
                    acc.violation(
                        "badkey-accepted",
                        format!("a map key that is not a string, integer or bool was accepted; the value became `{v:?}`"),
                        case,
                    );
                    "accepted-unrepresentable"
                }
                (Ok(Ok(_)), KeyRule::Transparent) => "accepted-through-wrapper",
            };
            if let Some(rc) = rc {
                match (rc, &r) {
                    (Err(p), _) => acc.violation("badkey-panic:from_serialize", format!("Context::from_serialize panicked: {p}"), case),
                    (Ok(Ok(_)), Ok(Err(_))) => acc.violation(
                        "badkey-accepted:from_serialize",
                        "Context::from_serialize accepted a value that try_from_serializable refuses",
                        case,
                    ),
                    _ => {}
                }
            }
            acc.case(true, outcome);
            if variant == 1 && item < 40 {
                acc.sample(|| json!({"key": b.name(), "position": label, "outcome": outcome}));
            }
        },
    );

    // transparent wrappers that are accepted must yield exactly the wrapped key
    run.family(
        Family::new("wrapped-keys", 1, "Some(k) / newtype(k) keys that are accepted become exactly the key k"),
        |_item, acc: &mut Acc| {
            fn one<K: Serialize>(acc: &mut Acc, name: &str, key: K, want: DK) {
                let r = engine::guarded(|| Value::try_from_serializable(&Entries { before: true, key: &key, after: false }));
                let d = D::map(vec![(DK::S("a".into()), D::Int(Int::Pos(1))), (want, D::Int(Int::Pos(2)))]);
                let outcome = match r {
                    Err(p) => {
                        acc.violation("badkey-panic", format!("panicked: {p}"), || json!({"key": name}));
                        "panic"
                    }
                    Ok(Err(_)) => "refused",
                    Ok(Ok(v)) => {
                        if let Err(why) = repr_matches(&v, &d, "v") {
                            acc.violation("wrapped-key-altered", format!("the wrapped key was altered: {why}"), || json!({"key": name}));
                        }
                        "accepted-as-inner-key"
                    }
                };
                acc.case(true, outcome);
            }
            one(acc, "Some(5i64)", Some(5i64), DK::I(Int::Pos(5)));
            one(acc, "Some(-5i8)", Some(-5i8), DK::I(Int::Neg(-5)));
            one(acc, "Some('c')", Some('c'), DK::S("c".into()));
            one(acc, "Some(true)", Some(true), DK::B(true));
            one(acc, "N(u64::MAX)", N(u64::MAX), DK::I(Int::Pos(u64::MAX as u128)));
            one(acc, "N(\"x\")", N("x".to_string()), DK::S("x".into()));
            one(acc, "N(N(i128::MIN))", N(N(i128::MIN)), DK::I(Int::Neg(i128::MIN)));
            one(acc, "Some(UE::B)", Some(UE::B), DK::S("b c".into()));
        },
    );

    // Reading a value back WITHOUT serde: the typed getters user-written filters and embedders use -
    // `T::try_from(Value)`, `Kwargs::get::<T>` / `must_get::<T>`, `State::get::<T>` - for every
    // integer type T, on boundary numbers of every width held in every encoding that can hold them:
    // the number itself when T can represent it, an error otherwise (never another number).
    // (Seeded change C19-12 routed them through `as_number()`, which gives up on u128 above i128::MAX.)
    run.family(
        Family::new(
            "typed-getters",
            1,
            "12 integer types x 40 boundary numbers (the ends of every width, one beyond them, 0, +-1, u128 above i128::MAX) x every encoding that holds the number (i64, u64, i128, u128) x 4 getters (TryFrom<Value>, Kwargs::get, Kwargs::must_get, State::get): Ok(the number) exactly when the type represents it, Err otherwise; bool and f64 targets on the same values",
        ),
        |_item, acc: &mut Acc| {
            // (number as i128 when it fits, as u128 when non-negative)
            let mut nums: Vec<(Option<i128>, Option<u128>)> = vec![];
            let mut push = |i: Option<i128>, u: Option<u128>| {
                let e = (i.or(u.and_then(|u| i128::try_from(u).ok())), u.or(i.and_then(|i| u128::try_from(i).ok())));
                if !nums.contains(&e) {
                    nums.push(e);
                }
            };
            for b in [8u32, 16, 32, 64] {
                let smax = (1i128 << (b - 1)) - 1;
                let umax = (1i128 << b) - 1;
                for x in [smax, smax + 1, -smax - 1, -smax - 2, umax, umax + 1] {
                    push(Some(x), None);
                }
            }
            for x in [0i128, 1, -1, 2, i128::MAX, i128::MAX - 1, i128::MIN, i128::MIN + 1] {
                push(Some(x), None);
            }
            for x in [i128::MAX as u128 + 1, (1u128 << 127) + 1, u128::MAX - 1, u128::MAX] {
                push(None, Some(x));
            }
            let encodings = |n: &(Option<i128>, Option<u128>)| -> Vec<(&'static str, Value)> {
                let mut v = vec![];
                if let Some(i) = n.0 {
                    if let Ok(x) = i64::try_from(i) {
                        v.push(("i64", Value::from(x)));
                    }
                    v.push(("i128", Value::from(i)));
                }
                if let Some(u) = n.1 {
                    if let Ok(x) = u64::try_from(u) {
                        v.push(("u64", Value::from(x)));
                    }
                    v.push(("u128", Value::from(u)));
                }
                v
            };
            macro_rules! target {
                ($($t:ty),*) => {$(
                    for n in &nums {
                        let want: Option<$t> = match n {
                            (Some(i), _) => <$t>::try_from(*i).ok(),
                            (None, Some(u)) => <$t>::try_from(*u).ok(),
                            _ => unreachable!(),
                        };
                        for (enc, v) in encodings(n) {
                            let mut m = tera::value::Map::new();
                            m.insert("k".into(), v.clone());
                            let kw = tera::Kwargs::new(std::sync::Arc::new(m));
                            let mut ctx = Context::new();
                            ctx.insert_value("k", v.clone());
                            let st = tera::State::new(&ctx);
                            let got: [(&str, Result<Result<Option<$t>, String>, String>); 4] = [
                                ("TryFrom<Value>", engine::guarded(|| <$t>::try_from(v.clone()).map(Some).map_err(|e| e.to_string()))),
                                ("Kwargs::get", engine::guarded(|| kw.get::<$t>("k").map_err(|e| e.to_string()))),
                                ("Kwargs::must_get", engine::guarded(|| kw.must_get::<$t>("k").map(Some).map_err(|e| e.to_string()))),
                                ("State::get", engine::guarded(|| st.get::<$t>("k").map_err(|e| e.to_string()))),
                            ];
                            for (getter, g) in got {
                                let ok = match (&g, &want) {
                                    (Ok(Ok(Some(x))), Some(w)) => x == w,
                                    (Ok(Err(_)), None) => true,
                                    _ => false,
                                };
                                if !ok {
                                    let sig = match &g {
                                        Err(_) => "panic",
                                        Ok(Ok(_)) if want.is_none() => "accepted-out-of-range",
                                        Ok(Ok(_)) => "wrong-number",
                                        Ok(Err(_)) => "refused-representable",
                                    };
                                    acc.violation(
                                        format!("typed-getter:{sig}:{}:from-{enc}", stringify!($t)),
                                        format!("{getter}::<{}> on {v:?} (held as {enc}) gave {g:?}, expected {want:?}", stringify!($t)),
                                        || json!({"getter": getter, "target": stringify!($t), "value": format!("{v:?}"), "encoding": enc, "expected": format!("{want:?}")}),
                                    );
                                }
                                acc.case(true, if want.is_some() { "typed-getter:number" } else { "typed-getter:refused" });
                            }
                        }
                    }
                )*};
            }
            target!(u8, i8, u16, i16, u32, i32, u64, i64, usize, isize, u128, i128);
            // an integer is not a bool; every integer is a number an f64 getter takes
            for n in &nums {
                for (enc, v) in encodings(n) {
                    match engine::guarded(|| bool::try_from(v.clone()).is_ok()) {
                        Ok(false) => {}
                        other => acc.violation(format!("typed-getter:bool-from-{enc}"), format!("bool::try_from({v:?}) gave {other:?}"), || json!({"value": format!("{v:?}")})),
                    }
                    let want = n.0.map(|i| i as f64).or(n.1.map(|u| u as f64)).unwrap();
                    match engine::guarded(|| f64::try_from(v.clone()).map_err(|e| e.to_string())) {
                        Ok(Ok(f)) if f == want => {}
                        other => acc.violation(format!("typed-getter:f64-from-{enc}"), format!("f64::try_from({v:?}) gave {other:?}, expected {want:?}"), || json!({"value": format!("{v:?}")})),
                    }
                    acc.case(true, "typed-getter:other-targets");
                }
            }
            // float targets on float values: f32 values (NaN, both infinities, both zeros, the ends
            // of the range, a subnormal) come back bit for bit through every getter; an f64 too
            // large for f32 is refused. (Seeded change C19-13 refused an f32 NaN as out of range.)
            let same32 = |a: f32, b: f32| a.to_bits() == b.to_bits() || (a.is_nan() && b.is_nan());
            for x in [0.0f32, -0.0, 1.5, -2.25, f32::MAX, f32::MIN, f32::MIN_POSITIVE, 1e-45, f32::INFINITY, f32::NEG_INFINITY, f32::NAN, -f32::NAN] {
                let v = Value::from(x);
                let mut m = tera::value::Map::new();
                m.insert("k".into(), v.clone());
                let kw = tera::Kwargs::new(std::sync::Arc::new(m));
                let mut ctx = Context::new();
                ctx.insert_value("k", v.clone());
                let st = tera::State::new(&ctx);
                let got: [(&str, Result<Result<Option<f32>, String>, String>); 4] = [
                    ("TryFrom<Value>", engine::guarded(|| f32::try_from(v.clone()).map(Some).map_err(|e| e.to_string()))),
                    ("Kwargs::get", engine::guarded(|| kw.get::<f32>("k").map_err(|e| e.to_string()))),
                    ("Kwargs::must_get", engine::guarded(|| kw.must_get::<f32>("k").map(Some).map_err(|e| e.to_string()))),
                    ("State::get", engine::guarded(|| st.get::<f32>("k").map_err(|e| e.to_string()))),
                ];
                for (getter, g) in got {
                    if !matches!(&g, Ok(Ok(Some(y))) if same32(*y, x)) {
                        acc.violation("typed-getter:f32".to_string(), format!("{getter}::<f32> on Value::from({x:?}f32) gave {g:?}"), || json!({"getter": getter, "value": format!("{x:?}")}));
                    }
                    acc.case(true, "typed-getter:f32");
                }
                match engine::guarded(|| f64::try_from(v.clone()).map_err(|e| e.to_string())) {
                    Ok(Ok(y)) if y == x as f64 || (y.is_nan() && x.is_nan()) => {}
                    other => acc.violation("typed-getter:f64".to_string(), format!("f64::try_from(Value::from({x:?}f32)) gave {other:?}"), || json!({"value": format!("{x:?}")})),
                }
            }
            for x in [1e39f64, -1e300, f64::MAX] {
                match engine::guarded(|| f32::try_from(Value::from(x)).map_err(|e| e.to_string())) {
                    Ok(Err(_)) => {}
                    other => acc.violation("typed-getter:f32-out-of-range".to_string(), format!("f32::try_from(Value::from({x:?}f64)) gave {other:?}, expected an error"), || json!({"value": format!("{x:?}")})),
                }
                acc.case(true, "typed-getter:f32-refused");
            }
        },
    );

    // The embedder's other doors: `Value::from(x)` for every `From` impl, the `context!` macro,
    // `Context::extend` / `remove`. Each must land on the same value as the serde conversion of
    // the same Rust datum (equal, printed alike, read back into the same type unchanged).
    run.family(
        Family::new(
            "from-impls",
            1,
            "every `From<T> for Value` (bool, &str, String, char, Cow<str>, every integer width incl. usize / isize, f32, f64, (), Option, Vec, BTreeSet, HashMap / BTreeMap with String / &str / u128 / i128 keys, &[Value]) on the boundary values of T, the `context!` macro (both forms), Context::extend / remove / contains_key / get: against the serde conversion of the same datum",
        ),
        |_item, acc: &mut Acc| {
            let mut tera = Tera::default();
            tera.add_raw_template("p", "{{ v }}|{% if v is integer %}i{% endif %}{% if v is float %}f{% endif %}{% if v is string %}s{% endif %}{% if v is bool %}b{% endif %}{% if v is array %}a{% endif %}{% if v is map %}m{% endif %}{% if v is none %}n{% endif %}")
                .expect("probe template");
            let show = |v: &Value| {
                let mut c = Context::new();
                c.insert_value("v", v.clone());
                engine::render(&tera, "p", &c).show()
            };
            fn one<T: Into<Value> + Serialize + DeserializeOwned + PartialEq + Clone + Debug>(acc: &mut Acc, show: &dyn Fn(&Value) -> String, ty: &str, x: T, read_back: bool) {
                let case = || json!({"type": ty, "datum": format!("{x:?}")});
                let a = match engine::guarded(|| -> Value { x.clone().into() }) {
                    Ok(v) => v,
                    Err(p) => {
                        acc.violation(format!("from-impl:panic:{ty}"), format!("Value::from panicked: {p}"), case);
                        return;
                    }
                };
                let b = match engine::guarded(|| Value::try_from_serializable(&x)) {
                    Ok(Ok(v)) => v,
                    other => {
                        acc.violation(format!("from-impl:serde-refused:{ty}"), format!("the serde conversion of the same datum gave {:?}", other.map(|r| r.map_err(|e| e.to_string()))), case);
                        return;
                    }
                };
                if a != b || show(&a) != show(&b) {
                    acc.violation(
                        format!("from-impl:differs-from-serde:{ty}"),
                        format!("Value::from gives {} (prints {}), the serde conversion gives {} (prints {})", format!("{a:?}"), show(&a), format!("{b:?}"), show(&b)),
                        case,
                    );
                }
                if read_back {
                    match engine::guarded(|| T::deserialize(&a)) {
                        Ok(Ok(y)) if y == x => {}
                        other => acc.violation(
                            format!("from-impl:read-back:{ty}"),
                            format!("reading Value::from(x) back into {ty} gave {:?}", other.map(|r| r.map_err(|e| e.to_string()))),
                            case,
                        ),
                    }
                }
                acc.case(true, "from-impl:same-as-serde");
            }
            macro_rules! ints {
                ($($t:ty),*) => {$(
                    for x in [<$t>::MIN, <$t>::MAX, 0 as $t, 1 as $t, <$t>::MAX / 2, <$t>::MIN / 2 + 1, <$t>::MAX - 1] {
                        one(acc, &show, stringify!($t), x, true);
                        one(acc, &show, concat!("Option<", stringify!($t), ">"), Some(x), true);
                        one(acc, &show, concat!("Vec<", stringify!($t), ">"), vec![x, 0 as $t, x], true);
                    }
                )*};
            }
            ints!(u8, i8, u16, i16, u32, i32, u64, i64, usize, isize, u128, i128);
            for x in [true, false] {
                one(acc, &show, "bool", x, true);
            }
            for x in [0.0f64, -0.0, 1.5, -2.5, 1e300, f64::MIN_POSITIVE, f64::MAX, 9007199254740993.0, f64::INFINITY, f64::NEG_INFINITY] {
                one(acc, &show, "f64", x, true);
            }
            for x in [0.0f32, -0.0, 0.1, 1.5, f32::MAX, f32::MIN_POSITIVE, 16777217.0, f32::INFINITY] {
                one(acc, &show, "f32", x, true);
            }
            one(acc, &show, "()", (), true);
            one(acc, &show, "Option<String>", None::<String>, true);
            let strings = ["", "a", "é", "a<b", "\"q\"", "abcdefghijklmnopqrstu", "abcdefghijklmnopqrstuv", "ééééééééééé", "éééééééééé_", "日本語日本語日"];
            for x in strings {
                one(acc, &show, "String", x.to_string(), true);
                one(acc, &show, "Cow<str>", std::borrow::Cow::<'static, str>::Owned(x.to_string()), true);
                one(acc, &show, "Option<String>", Some(x.to_string()), true);
                // &str: no DeserializeOwned for a borrowed str; compared through String
                let a: Value = x.into();
                let b = Value::try_from_serializable(&x).expect("a string serialises");
                if a != b || show(&a) != show(&b) {
                    acc.violation("from-impl:differs-from-serde:&str".to_string(), format!("Value::from(&str) gives {a:?}, serde {b:?}"), || json!({"datum": x}));
                }
                acc.case(true, "from-impl:same-as-serde");
            }
            for x in ['a', 'é', '日', '😀', '\0', '"'] {
                one(acc, &show, "char", x, true);
            }
            one(acc, &show, "Vec<String>", strings.iter().map(|s| s.to_string()).collect::<Vec<_>>(), true);
            one(acc, &show, "Vec<Vec<i64>>", vec![vec![], vec![i64::MIN, 0], vec![i64::MAX]], true);
            one(acc, &show, "Vec<Option<u8>>", vec![None, Some(0u8), Some(u8::MAX)], true);
            one(acc, &show, "BTreeSet<i64>", [3i64, -1, i64::MAX, i64::MIN].into_iter().collect::<std::collections::BTreeSet<_>>(), true);
            one(acc, &show, "BTreeSet<String>", ["b", "a", "é"].iter().map(|s| s.to_string()).collect::<std::collections::BTreeSet<_>>(), true);
            for n in [0usize, 1, 2, 6, 7, 9] {
                let bm: BTreeMap<String, i64> = (0..n).map(|i| (format!("k{i}"), i as i64 - 3)).collect();
                one(acc, &show, "BTreeMap<String, i64>", bm.clone(), true);
                // (with the subject's `fast_hash` feature `From<HashMap<..>>` exists for its own
                // ahash-based map type only, not for std's: the build of the variant pass leaves it out)
                #[cfg(not(feature = "fast"))]
                one(acc, &show, "HashMap<String, i64>", bm.into_iter().collect::<HashMap<_, _>>(), true);
                let um: BTreeMap<u128, String> = (0..n).map(|i| (u128::MAX - i as u128 * 7, format!("v{i}"))).collect();
                one(acc, &show, "BTreeMap<u128, String>", um, true);
                let im: BTreeMap<i128, Vec<u8>> = (0..n).map(|i| (i128::MIN + i as i128 * 5, vec![i as u8])).collect();
                one(acc, &show, "BTreeMap<i128, Vec<u8>>", im, true);
            }
            // &[Value]
            {
                let vs = vec![Value::from(1i64), Value::from("x"), Value::none()];
                let a: Value = vs.as_slice().into();
                let b: Value = vs.clone().into();
                if a != b || show(&a) != show(&b) {
                    acc.violation("from-impl:differs:&[Value]".to_string(), format!("Value::from(&[Value]) gives {a:?}, Vec<Value> gives {b:?}"), || json!({}));
                }
                acc.case(true, "from-impl:same-as-serde");
            }
            // context! (both forms), extend, remove, contains_key, get
            {
                let count = 3u8;
                let name = "Bob <b>".to_string();
                let by_macro = tera::context! { count, name => &name, list => &vec![1i32, -2] };
                let mut by_hand = Context::new();
                by_hand.insert("count", &count);
                by_hand.insert("name", &name);
                by_hand.insert("list", &vec![1i32, -2]);
                if by_macro != by_hand {
                    acc.violation("context-macro-differs".to_string(), "context! { .. } differs from the same inserts by hand".to_string(), || json!({"macro": format!("{by_macro:?}"), "by_hand": format!("{by_hand:?}")}));
                }
                acc.case(true, "context:macro");
                let mut base = Context::new();
                base.insert("count", &1u8);
                base.insert("other", &"kept");
                let mut ext = base.clone();
                ext.extend(by_hand.clone());
                let mut want = by_hand.clone();
                want.insert("other", &"kept");
                let mut problems = vec![];
                if ext != want {
                    problems.push("extend: entries of the source must be added and win over existing keys".to_string());
                }
                if ext.get("count") != Some(&Value::from(3u8)) || !ext.contains_key("other") || ext.contains_key("zz") || ext.get("zz").is_some() {
                    problems.push("get / contains_key disagree with the entries".to_string());
                }
                let removed = ext.remove("count");
                if removed != Some(Value::from(3u8)) || ext.contains_key("count") || ext.remove("count").is_some() {
                    problems.push("remove must return the value once and drop the key".to_string());
                }
                let mut again = ext.clone();
                again.extend(Context::new());
                if again != ext {
                    problems.push("extending with an empty context must change nothing".to_string());
                }
                for p in problems {
                    acc.violation("context-api".to_string(), p, || json!({"base": format!("{base:?}"), "source": format!("{by_hand:?}"), "result": format!("{ext:?}")}));
                }
                acc.case(true, "context:extend-remove-get");
            }
        },
    );

    if run.is_supervisor() {
        let same = run.outcome("from-impls", "from-impl:same-as-serde");
        run.guard("from-impls-compared", same > 300, format!("{same} (type, datum) pairs compared with the serde conversion"));
        let ok = run.outcome("instances", "roundtrip-ok");
        run.guard("roundtrips-executed", ok > 300, format!("{ok} instances went through both deserializers and came back identical"));
        let refused = run.outcome("bad-keys", "refused");
        run.guard("bad-keys-refused", refused > 100, format!("{refused} unsupported-key cases were refused with Err"));
        for kind in [
            "bool", "int", "float", "char", "string", "unit", "unit-struct", "newtype-struct", "tuple-struct", "struct", "option", "seq", "tuple", "map", "enum",
        ] {
            let c = run.counter(&format!("kind:{kind}"));
            run.guard(&format!("kind-present:{kind}"), c > 0, format!("{c} instances whose top-level type is a {kind}"));
        }
        for f in [
            "feature:nan",
            "feature:negative-zero",
            "feature:integer-outside-i64",
            "feature:map-with-2+-entries",
            "feature:non-string-key",
            "feature:string-needing-quotes-escapes",
            "kwargs-deserialize",
            "from_serialize-compared",
            "per-field-insert-compared",
        ] {
            let c = run.counter(f);
            run.guard(&format!("discriminating:{f}"), c > 0, format!("{c} instances"));
        }
    }
    run.finish();
}
