#!/bin/bash
# Builds every check binary offline from files on disk (MANIFEST.setup_cmd).
set -eu
ROOT=$(cd "$(dirname "$0")" && pwd)
export CARGO_NET_OFFLINE=true
cd "$ROOT/mc"
cargo build --release --offline --bins 2>&1 | tail -3
# C19 quick also runs on the subject built with its `fast` feature set
cargo build --release --offline --quiet --target-dir "$ROOT/mc/target-fast" --bin c19 --features fast 2>&1 | tail -3
python3 -c "import fractions, sys; print('python3', sys.version.split()[0], 'ok')"
echo "setup ok"
