#!/usr/bin/env python3
"""Generates /verif/MANIFEST.json from the table below (kept in one place so that the claimed
checks, their techniques and the not_applicable list never drift apart)."""
import json, os, subprocess, sys

ROOT = os.path.dirname(os.path.dirname(os.path.abspath(__file__)))

# id -> (level, technique, level text, level note, design ref)
CHECKS = {}

def check(pid, level, technique, text, note, ref):
    CHECKS[pid] = dict(level=level, technique=technique, text=text, note=note, ref=ref)

EXH = "bounded-exhaustive enumeration on the real engine"

check("C15", "exploration",
      "bounded-exhaustive enumeration: all ordered triples of a 149-value alphabet and of 37 key encodings executed on the real Value/Key impls and through templates, against an independent exact reference",
      "Every triple of the value alphabet (every kind, every integer encoding, f64/128-bit boundaries, nested and incomparable containers) is checked for the equivalence and total-order laws and against an independent structural/exact-rational reference for ==; every pair is rendered through ==, !=, <, <=, >, >=, sort, unique; every key encoding is inserted into maps of 0..=8 entries and probed with every other encoding through five lookup forms. Exhaustive within the alphabets: a law violation needs at most three values, and the alphabets contain every representation class the implementation distinguishes.",
      "Alphabet, not all values: integers/floats other than the listed boundaries, strings beyond the listed ones and nesting deeper than 64 are not explored. The reference comparison (mccore::numref, ref_eq) is trusted.",
      "DESIGN.md §4 C15")

ALL = ["C%02d" % i for i in range(1, 21)]

# entries written next to each check: tools/manifest.d/CNN.json {level, technique, text, note, ref}
import glob
for f in sorted(glob.glob(os.path.join(ROOT, "tools", "manifest.d", "C*.json"))):
    d = json.load(open(f))
    pid = os.path.basename(f)[:-5]
    claimed = open(os.path.join(ROOT, "tools", "claimed.txt")).read().split()
    if pid in claimed and os.path.exists(os.path.join(ROOT, "evidence", pid + ".json")):
        check(pid, d["level"], d["technique"], d["text"], d["note"], d.get("ref", "DESIGN.md §4 " + pid))

def main():
    hooks_commits = subprocess.run(
        ["git", "-C", "/repo", "log", "--format=%H %s", "--grep=^verif hook"],
        capture_output=True, text=True).stdout.strip().splitlines()
    checks = []
    for pid in ALL:
        if pid not in CHECKS:
            continue
        c = CHECKS[pid]
        checks.append({
            "property_id": pid,
            "quick_cmd": f"./check {pid} quick",
            "thorough_cmd": f"./check {pid} thorough",
            "evidence_file": f"/verif/evidence/{pid}.json",
            "replay_cmd_template": f"./check {pid} --replay {{path}}",
            "engine": "mc-kernel",
            "level_claimed": {"category": c["level"], "text": c["text"], "design_ref": c["ref"]},
            "level_note": c["note"] + ("" if pid == "C18" else " The thorough command also repeats the quick bounds on the subject built with its `fast` cargo feature set (itoa number printing, pulldown escaper, ahash), which the repository's suite never compiles; that pass's verdict counts like the main one's (DESIGN.md §3.4a, evidence/variants/fast/)."),
            "technique": c["technique"],
        })
    na = [{"property_id": pid,
           "reason": "check not built yet (work in progress, see DESIGN.md §4 for the planned bounded-exhaustive exploration); not claimed until it exists"}
          for pid in ALL if pid not in CHECKS]
    m = {
        "version": 1,
        "setup_cmd": "./setup.sh",
        "hooks": {
            "guard": "cargo feature `tera_verif` of crate tera (cfg(feature = \"tera_verif\"))",
            "enable": "the harness workspace /verif/mc depends on /repo/tera by path with features = [\"tera_verif\"]; every ./check rebuilds it against the current working tree",
            "baseline_off_cmd": "cd /repo && cargo test --workspace --no-fail-fast --offline",
            "source_commits": [l.split()[0] for l in hooks_commits],
            "add_only": True,
        },
        "engines": [
            {"name": "mc-kernel", "path": "/verif/mc/core",
             "serves_properties": sorted(CHECKS),
             "kind_free_text": "bounded-exhaustive explorer: every check is a list of finite indexable families; every work item runs the real engine inside supervised worker processes (crash/hang isolation), oracle evaluated on every case, evidence/replay/known-finding handling shared"},
        ],
        "checks": checks,
        "notes": "Exit codes of every check: 0 held (KNOWN-FINDING lines possible), 1 VIOLATION, 2 machinery failure. Lines prefixed [features=fast] come from the thorough tier's pass on the subject built with --features fast. Known findings: /verif/known_findings.json. Seeded changes used to validate detection: /verif/seeded/. Besides the hook feature tera_verif the harness switches on cargo features the repository itself defines, so that the code behind the properties is compiled: glob_fs of tera (load_from_glob / full_reload, C10 and C11) and base64, urlencode, json, slug, regex, rand, filesize_format, format of tera-contrib (C18, C20).",
        "not_applicable": na,
    }
    with open(os.path.join(ROOT, "MANIFEST.json"), "w") as f:
        json.dump(m, f, indent=1)
        f.write("\n")
    print(f"MANIFEST.json: {len(checks)} checks, {len(na)} not_applicable")

if __name__ == "__main__":
    main()
