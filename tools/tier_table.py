#!/usr/bin/env python3
"""Prints the tier summary table of DESIGN.md §5 from evidence/quick and evidence/thorough."""
import json, os
ROOT = os.path.dirname(os.path.dirname(os.path.abspath(__file__)))
def fmt(n):
    if n >= 1e9: return f"{n/1e9:.2f} G"
    if n >= 1e6: return f"{n/1e6:.1f} M"
    if n >= 1e4: return f"{n/1e3:.0f} k"
    return str(n)
print("| id | level | quick: families | cases | wall | thorough: families | cases | wall | fast-feature pass | all bounds completed |")
print("|---|---|---|---|---|---|---|---|---|---|")
for i in range(1, 21):
    pid = f"C{i:02d}"
    q = json.load(open(f"{ROOT}/evidence/quick/{pid}.json"))
    t = json.load(open(f"{ROOT}/evidence/thorough/{pid}.json"))
    vp = t["coverage"].get("feature_variant_passes")
    v = "—" if not vp else f"{fmt(vp[0]['evaluations'])}, {vp[0]['violations']} viol."
    done = q["coverage"]["exhaustive"] and t["coverage"]["exhaustive"]
    print(f"| {pid} | {q['level']} | {len(q['coverage']['families'])} | {fmt(q['coverage']['evaluations'])} | {q['wall_s']:.0f} s | {len(t['coverage']['families'])} | {fmt(t['coverage']['evaluations'])} | {t['wall_s']:.0f} s | {v} | {'yes' if done else 'NO'} |")
