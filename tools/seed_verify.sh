#!/bin/bash
# usage: tools/seed_verify.sh <seed-dir> <CNN> [more CNN...]
# <seed-dir> = /verif/seeded/<id>/ holding patch.diff and a demonstration (demo.sh: run from the
# root of a tera checkout, exit 0 = behaves correctly, non-zero = property broken).
# Confirms, in a scratch copy outside /repo and /verif:
#   1. the patch applies to /repo's HEAD and the tree still builds,
#   2. the repository's own test suite stays green with the patch,
#   3. the demonstration fails with the patch and passes without it,
#   4. which of the given checks report a VIOLATION on the patched tree.
set -u
ROOT=$(cd "$(dirname "$0")/.." && pwd)
SEED=$(readlink -f "$1"); shift
S=${SEED_SCRATCH:-/tmp/seedv-$(basename "$SEED")-$$}
mkdir -p "$S"
rsync -a --delete --exclude 'target*' --exclude '.verif-*' /repo/ "$S/"
trap 'rm -rf "$S"' EXIT
cd "$S"
echo "== demo without the patch"
if bash "$SEED/demo.sh" >"$S/.demo0.log" 2>&1; then echo "demo(unpatched)=pass"; else echo "demo(unpatched)=FAIL (unexpected)"; tail -5 "$S/.demo0.log"; fi
if ! git apply "$SEED/patch.diff"; then echo "patch does not apply"; exit 2; fi
echo "== suite with the patch"
if timeout 900 cargo test --workspace --no-fail-fast --offline >"$S/.suite.log" 2>&1; then echo "suite(patched)=green"; else echo "suite(patched)=RED"; grep -E "FAILED|failed|panicked" "$S/.suite.log" | head -5; fi
echo "== demo with the patch"
if bash "$SEED/demo.sh" >"$S/.demo1.log" 2>&1; then echo "demo(patched)=pass (unexpected: change does not manifest)"; else echo "demo(patched)=fail (as intended)"; fi
for ID in "$@"; do
  OUT=$(cd "$ROOT" && VERIF_REPO="$S" ./check "$ID" quick 2>&1); RC=$?
  NV=$(echo "$OUT" | grep -c '^VIOLATION')
  SIGS=$(echo "$OUT" | grep -E '^  \[' | sed -E 's/^  \[[^]]*\] ([^ ]+) ::.*/\1/' | sort -u | head -6 | tr '\n' ' ')
  echo "check $ID quick: exit=$RC violations=$NV signatures: $SIGS"
  if [ "$RC" -eq 0 ] && [ -n "${SEED_THOROUGH:-}" ]; then
    OUT=$(cd "$ROOT" && VERIF_REPO="$S" ./check "$ID" thorough 2>&1); RC=$?
    NV=$(echo "$OUT" | grep -c '^VIOLATION')
    echo "check $ID thorough: exit=$RC violations=$NV"
  fi
done
