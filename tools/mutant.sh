#!/bin/bash
# usage: tools/mutant.sh <CNN> <patch-file>... [-- tier]
# Applies each patch in turn to a scratch copy of /repo (outside /repo and /verif), runs the
# repository's own test suite (must stay green for the mutant to count as realistic) and the
# check (must print VIOLATION). The scratch copy and its build output are removed at the end.
set -u
ROOT=$(cd "$(dirname "$0")/.." && pwd)
ID=$1; shift
TIER=quick
PATCHES=()
while [ $# -gt 0 ]; do
  if [ "$1" = "--" ]; then shift; TIER=$1; shift; else PATCHES+=("$1"); shift; fi
done
S=${MUTANT_SCRATCH:-/tmp/mut-$ID-$$}
mkdir -p "$S"
rsync -a --delete --exclude 'target*' --exclude '.verif-*' /repo/ "$S/"
trap 'if [ -z "${MUTANT_KEEP:-}" ]; then rm -rf "$S"; fi' EXIT
for P in "${PATCHES[@]}"; do
  P=$(readlink -f "$P")
  git -C "$S" checkout -q -- . 2>/dev/null
  if ! git -C "$S" apply "$P"; then echo "MUTANT $(basename "$P"): patch does not apply"; continue; fi
  if (cd "$S" && timeout 900 cargo test --workspace --no-fail-fast --offline >"$S/.suite.log" 2>&1); then SUITE=green; else SUITE=RED; fi
  OUT=$(cd "$ROOT" && VERIF_REPO="$S" ./check "$ID" "$TIER" 2>&1); RC=$?
  NV=$(echo "$OUT" | grep -c '^VIOLATION')
  SIGS=$(echo "$OUT" | grep -E '^  \[' | sed -E 's/^  \[[^]]*\] ([^ ]+) ::.*/\1/' | sort -u | head -5 | tr '\n' ' ')
  echo "MUTANT $(basename "$P"): suite=$SUITE check_exit=$RC violations=$NV signatures: $SIGS"
  if [ $RC -eq 2 ]; then echo "$OUT" | tail -5; fi
done
