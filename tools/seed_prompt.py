#!/usr/bin/env python3
"""Prints the prompt for an independent seeding agent: property text + scratch worktree only."""
import json, sys
pid, tag = sys.argv[1], sys.argv[2]
p = [json.loads(l) for l in open('/verif/properties.jsonl') if json.loads(l)['id'] == pid][0]
wt = f"/tmp/seed-{tag}"
out = f"/tmp/seed-{tag}.out"
print(f"""You are given your own scratch git worktree of the Keats/tera repository (the Tera v2 template engine, a Rust workspace with crates `tera` and `tera-contrib`) at {wt}. The sandbox is offline (no network; use `--offline` with cargo). `cd {wt} && cargo test --workspace --no-fail-fast --offline` passes (84 tests + doctests).

A property that users of the library rely on:

TITLE: {p['title']}
STATEMENT: {p['statement']}
IT MUST HOLD: {p['quantifier']['text']}

Your task: make ONE small, realistic change to the library source ({wt}/tera/src or {wt}/tera-contrib/src — not tests, snapshots, docs, benches, fuzz targets) that BREAKS this property while the code still compiles and the ENTIRE existing test suite still passes. Aim for the kind of slip a real refactoring, optimisation or "simplification" introduces — an off-by-one in a cursor, a check moved to the wrong side of an early return, state hoisted or not reset, a comparison through a lossy conversion, one arm of a match forgetting a case, two sites that each look fine alone. It must need something SPECIFIC to manifest (an unusual input, a particular combination or nesting of features, a multi-step sequence, a particular position or boundary value), not something ordinary use or the existing tests would expose at once. No special-casing of magic values, no cfg/feature tricks, no randomness or clocks, and do not touch `tera/src/verif.rs` or any `#[cfg(feature = "tera_verif")]` line (that is unrelated instrumentation).

Also write a demonstration: a script `demo.sh` that is run with bash from the root of a tera checkout, exits 0 when the property holds and non-zero when it is broken, and carries what it needs next to itself (e.g. `demo_example.rs` that the script copies to `tera/examples/zz_seed_demo.rs`, builds with `cargo run -q --offline -p tera --example zz_seed_demo` — or `-p tera-contrib --features ...` for contrib code — and whose exit status / output it checks; the script must remove the copied example afterwards). The demonstration must fail WITH your change and pass WITHOUT it.

Verify all of this yourself in the worktree: (1) unchanged tree: demo passes; (2) with your change: `cargo test --workspace --no-fail-fast --offline` is still fully green, and demo fails. Iterate until both hold (if the suite catches your change, pick another one).

Deliver into {out}/ (create it): `patch.diff` (= `git -C {wt} diff` of the library change only, no demo files), `demo.sh` (+ the files it needs), and `notes.md` (which clause of the property it breaks; what exactly is needed for it to manifest; the smallest failing input/sequence; the commands you ran and their results). Leave the worktree with your change reverted (`git -C {wt} checkout -- .`) and without stray files.

Rules: work only inside {wt} and {out}. Do not read or write anything under /verif, /repo or /root. Do not commit. Your final message: 10 lines max — what you changed, what it needs to manifest, and confirmation of the two verification results.""")
