#!/bin/bash
# usage: tools/seed_batch.sh <round-number> <worktree-letter> [parallel=6]
# Collects every finished seeding agent's output /tmp/seed-cNN<letter>.out into seeded/CNN-<round>/
# (once) and runs tools/seed_verify.sh on it against the check of its own property, <parallel> at a
# time; logs in /tmp/sv-CNN-<round>.log. Re-run after strengthening with SUFFIX=b to get new logs.
set -u
ROOT=$(cd "$(dirname "$0")/.." && pwd)
N=$1; L=$2; P=${3:-6}; SUF=${SUFFIX:-}
cd "$ROOT"
todo=()
for i in $(seq -w 1 20); do
  id=C$i; out=/tmp/seed-c${i}${L}.out
  if [ -d "$out" ] && [ -f "$out/patch.diff" ] && [ -f "$out/notes.md" ] && [ -f "$out/demo.sh" ] && [ ! -d "seeded/$id-$N" ]; then
    mkdir -p "seeded/$id-$N"; cp "$out"/* "seeded/$id-$N/"
  fi
  if [ -d "seeded/$id-$N" ] && [ ! -f "/tmp/sv-$id-$N$SUF.log" ]; then todo+=("$id"); fi
done
if [ -n "${ONLY:-}" ]; then todo=($ONLY); fi
printf '%s\n' "${todo[@]}" | xargs -P "$P" -I{} sh -c "tools/seed_verify.sh seeded/{}-$N {} \$EXTRA_{} > /tmp/sv-{}-$N$SUF.log 2>&1"
for id in "${todo[@]}"; do echo "== $id-$N$SUF"; grep -E "^(check|patch|demo\(patched|demo\(unp|suite)" "/tmp/sv-$id-$N$SUF.log" | cut -c1-300; done
