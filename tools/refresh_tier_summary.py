#!/usr/bin/env python3
"""Rewrites the 'Tier summary' subsection of DESIGN.md from evidence/quick and evidence/thorough."""
import json, subprocess, sys, re

def fmt(n):
    n = float(n)
    if n >= 1e9: return f"{n/1e9:.2f} G"
    if n >= 1e6: return f"{n/1e6:.1f} M"
    if n >= 1e4: return f"{n/1e3:.0f} k"
    return f"{int(n)}"

def cov(c, tier):
    return json.load(open(f"/verif/evidence/{tier}/{c}.json"))["coverage"]

table = subprocess.run(["python3", "/verif/tools/tier_table.py"], capture_output=True, text=True, check=True).stdout.strip()
head = subprocess.run(["git", "-C", "/repo", "rev-parse", "--short", "HEAD"], capture_output=True, text=True).stdout.strip()
q10, t10 = cov("C10", "quick"), cov("C10", "thorough")
q11, t11 = cov("C11", "quick"), cov("C11", "thorough")
q18, t18 = cov("C18", "quick"), cov("C18", "thorough")
glob_q = q10.get("glob_api_transitions_validated_against_fresh_instances", 0)
glob_t = t10.get("glob_api_transitions_validated_against_fresh_instances", 0)
fp_q = q18.get("fault_points", 0)
fp_t = t18.get("fault_points", 0)
if isinstance(fp_q, dict): fp_q = sum(v for v in fp_q.values() if isinstance(v, (int, float)))
if isinstance(fp_t, dict): fp_t = sum(v for v in fp_t.values() if isinstance(v, (int, float)))

text = f"""### Tier summary (measured; `/verif/evidence/quick/` and `/verif/evidence/thorough/`)

One run of every tier on this 16-core sandbox at `/repo` HEAD {head} (the last run of the session,
after seeded-change round 14); every run exited 0 with all families completed (`exhaustive: true`)
and no budget cap hit. Times are wall-clock seconds of the check itself (the incremental build
after an edit to `/repo` adds ≈ 20–40 s); cases = engine executions judged by the oracle. The
thorough wall times include the pass on the `fast` feature build (§3.4a), whose case count is the
column before last. Regenerate with `python3 tools/refresh_tier_summary.py`.

{table}

Per-family bounds, alphabets, outcome histograms and vacuity guards are in the evidence files; the
"As built" and "Added after seed …" paragraphs of §4 say in words what each family completes. For
the `model_checking` checks: C10 quick {fmt(q10['states'])} canonical states / {fmt(q10['transitions'])} transitions
plus {fmt(glob_q)} glob-API transitions (thorough {fmt(t10['states'])} / {fmt(t10['transitions'])} plus {fmt(glob_t)});
C11 quick {fmt(q11['states'])} graphs, {fmt(q11['transitions'])} add + render transitions (thorough {fmt(t11['states'])} / {fmt(t11['transitions'])});
C18 quick {fmt(q18['states'])} schedules, {fmt(q18['transitions'])} yield points{', ' + fmt(fp_q) + ' writer-fault points' if fp_q else ''} (thorough {fmt(t18['states'])} schedules,
{fmt(t18['transitions'])} yield points{', ' + fmt(fp_t) + ' fault points' if fp_t else ''}).

"""
p = "/verif/DESIGN.md"
s = open(p).read()
a = s.index("### Tier summary")
b = s.index("## 6. Outside a bounded exhaustive check")
s = s[:a] + text + s[b:]
open(p, "w").write(s)
print("DESIGN.md tier summary refreshed")
